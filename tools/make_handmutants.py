#!/usr/bin/env python3
"""Creates hand-written positive controls: one small edit each, applied to
/repo's working tree, compiled, checked (the named property must report a
violation), saved as /verif/handmutants/<id>/ and reverted straight away."""
import json, os, subprocess, sys

ENV = dict(os.environ, GOFLAGS="-mod=mod", GOPROXY="off", GOSUMDB="off", GOTOOLCHAIN="local")
ENV.pop("GOWORK", None)
REPO = "/repo"

M = [
    ("H10-unlocked-table-store", "C01", "server/server.go", "\tp.Lock()\n\tp.requests[id] = pending\n\tp.Unlock()\n", "\tp.requests[id] = pending\n"),
    ("H11-swapped-id-arguments", "C01", "agent/agent.go", "*proxy, request.BackendID, request.RequestID, request.Contents", "*proxy, request.RequestID, request.BackendID, request.Contents"),
    ("H12-path-clean-in-proxy", "C02", "server/server.go", "\tpending := newPendingRequest(r)\n", "\tr.URL.Path = strings.TrimSuffix(r.URL.Path, \"/\")\n\tpending := newPendingRequest(r)\n"),
    ("H13-end-to-end-header-in-hop-table", "C03", "agent/utils/utils.go", '\t"Upgrade":             true,\n', '\t"Upgrade":             true,\n\t"Content-Language":    true,\n'),
    ("H14-worker-without-dedup-test", "C04", "agent/agent.go", "\t\t\t\t\tif _, ok := previouslySeenRequests.Get(requestID); !ok {\n\t\t\t\t\t\tpreviouslySeenRequests.Add(requestID, requestID)\n\t\t\t\t\t\tgo processOneRequest(client, hostProxy, backendID, requestID)\n\t\t\t\t\t}\n", "\t\t\t\t\tpreviouslySeenRequests.Add(requestID, requestID)\n\t\t\t\t\tgo processOneRequest(client, hostProxy, backendID, requestID)\n"),
    ("H15-small-dedup-window", "C04", "agent/agent.go", "requestCacheLimit   = 1000", "requestCacheLimit   = 100"),
    ("H16-readall-in-splice", "C05", "agent/websockets/shim.go", "\t\tbuf := make([]byte, 1024)\n\t\tcount, err := wrapped.Read(buf)\n", "\t\tbuf, err := ioutil.ReadAll(wrapped)\n\t\tcount := len(buf)\n"),
    ("H17-buffered-upload-writer", "C05", "agent/utils/utils.go", "\t\t\tif err := resp.Write(proxyWriter); err != nil {", "\t\t\tif err := resp.Write(bufio.NewWriter(proxyWriter)); err != nil {"),
    ("H18-five-upload-attempts", "C06", "agent/utils/utils.go", "maxWriteResponseRetryCount = 2", "maxWriteResponseRetryCount = 4"),
    ("H19-seek-refusal-off-by-one", "C06", "agent/utils/utils.go", "\tif b.writeHead >= len(b.buf) {", "\tif b.writeHead > len(b.buf) {"),
    ("H20-fatal-in-worker", "C07", "agent/agent.go", '\t\tlog.Printf("Failed to forward a request: [%s] %q\\n", requestID, err.Error())\n', '\t\tlog.Fatalf("Failed to forward a request: [%s] %q\\n", requestID, err.Error())\n'),
    ("H21-backoff-guard-too-late", "C08", "agent/utils/utils.go", "\tif retryCount > uint(maxRetryCount) {", "\tif retryCount > uint(maxRetryCount)+60 {"),
    ("H22-jitter-sixty-percent", "C08", "agent/utils/utils.go", "\tJitterPercent = 0.1", "\tJitterPercent = 0.6"),
    ("H23-no-counter-reset", "C08", "agent/agent.go", "\t\t\t\tretryCount = 0\n", ""),
    ("H24-strip-after-chain", "C09", "agent/agent.go", "\tif *stripCredentials {\n\t\thttpRequest.Header.Del(headerAuthorization)\n\t}\n", ""),
    ("H25-insecure-session-cookie", "C10", "agent/sessions/sessions.go", "\t\t\tSecure:   !w.c.disableSSLForTest,\n", "\t\t\tSecure:   false,\n"),
    ("H26-urlencoding-on-decode", "C11", "agent/websockets/connection.go", "data, err := base64.StdEncoding.DecodeString(blobText)", "data, err := base64.URLEncoding.DecodeString(blobText)"),
    ("H27-overwrite-injected-keys", "C11", "agent/websockets/connection.go", "\t\tif _, ok := currJSONComponent[key]; !ok {\n\t\t\tcurrJSONComponent[key] = value\n\t\t}\n", "\t\tcurrJSONComponent[key] = value\n"),
    ("H28-unknown-session-404", "C12", "agent/websockets/shim.go", '\t\tc, ok := connections.Load(msg.ID)\n\t\tif !ok {\n\t\t\tstatusCode := http.StatusBadRequest\n\t\t\thttp.Error(w, fmt.Sprintf("unknown shim session ID: %q", msg.ID), statusCode)\n\t\t\tmetricHandler.WriteResponseCodeMetric(statusCode)\n\t\t\treturn\n\t\t}\n\t\tconn, ok := c.(*Connection)\n\t\tif !ok {\n\t\t\tstatusCode := http.StatusInternalServerError\n\t\t\thttp.Error(w, "internal error reading a shim session", statusCode)\n\t\t\tmetricHandler.WriteResponseCodeMetric(statusCode)\n\t\t\treturn\n\t\t}\n\t\tconnections.Delete(msg.ID)', '\t\tc, ok := connections.Load(msg.ID)\n\t\tif !ok {\n\t\t\tstatusCode := http.StatusNotFound\n\t\t\thttp.Error(w, fmt.Sprintf("unknown shim session ID: %q", msg.ID), statusCode)\n\t\t\tmetricHandler.WriteResponseCodeMetric(statusCode)\n\t\t\treturn\n\t\t}\n\t\tconn, ok := c.(*Connection)\n\t\tif !ok {\n\t\t\tstatusCode := http.StatusInternalServerError\n\t\t\thttp.Error(w, "internal error reading a shim session", statusCode)\n\t\t\tmetricHandler.WriteResponseCodeMetric(statusCode)\n\t\t\treturn\n\t\t}\n\t\tconnections.Delete(msg.ID)'),
    ("H29-host-from-client-url", "C13", "agent/websockets/shim.go", "\t\ttargetURL.Host = host\n", "\t\tif targetURL.Host == \"\" {\n\t\t\ttargetURL.Host = host\n\t\t}\n"),
    ("H30-banner-for-any-method", "C14", "agent/banner/banner.go", "\tif r.Method != http.MethodGet {\n\t\treturn false\n\t}\n", ""),
    ("H31-cache-headers-before-predicate", "C14", "agent/banner/banner.go", "\tw.wroteHeader = true\n\tif !isFrameableHTMLResponse(statusCode, w.Header()) {", "\tw.wroteHeader = true\n\tsetNotCacheable(w.Header())\n\tif !isFrameableHTMLResponse(statusCode, w.Header()) {"),
    ("H32-binary-frames-on-write", "C15", "utils/tcpbridge/connection/connection.go", "c.WriteMessage(websocket.TextMessage, []byte(hex.EncodeToString(bs)))", "c.WriteMessage(websocket.BinaryMessage, []byte(hex.EncodeToString(bs)))"),
    ("H33-store-before-check", "C17", "app/proxy.go", "func pendingHandler(ctx context.Context, s types.Store, w http.ResponseWriter, r *http.Request) {\n\tbackendID, err := checkBackendID(ctx, s, r)\n", "func pendingHandler(ctx context.Context, s types.Store, w http.ResponseWriter, r *http.Request) {\n\ts.ListPendingRequests(ctx, r.Header.Get(HeaderBackendID))\n\tbackendID, err := checkBackendID(ctx, s, r)\n"),
    ("H34-header-backend-id-used", "C17", "app/proxy.go", "\tpendingRequests, err := waitForNextRequests(ctx, s, backendID)\n", "\tpendingRequests, err := waitForNextRequests(ctx, s, r.Header.Get(HeaderBackendID))\n"),
    ("H35-dead-backend-returned", "C18", "app/store/store.go", "\tif d.hasBackend(ctx, backendID, backendTimeout) {\n\t\treturn backendID, nil\n\t}\n\treturn \"\", fmt.Errorf(\"No backend for %q\", endUser)", "\treturn backendID, nil"),
    ("H36-unbuffered-part-errors", "C19", "app/store/store.go", "\terrs := make(chan error, partCount)", "\terrs := make(chan error)"),
    ("H37-waitgroup-add-three", "C19", "app/proxy.go", "\tvar wg sync.WaitGroup\n\twg.Add(2)\n\tgo func() {\n\t\tdefer wg.Done()\n\t\tif err := s.WriteResponse", "\tvar wg sync.WaitGroup\n\twg.Add(3)\n\tgo func() {\n\t\tdefer wg.Done()\n\t\tif err := s.WriteResponse"),
    ("H38-adapter-before-health-gate", "C20", "agent/agent.go", "\twaitForHealthy()\n\tgo runHealthChecks()\n", "\tgo runHealthChecks()\n"),
    ("H39-threshold-strictly-greater", "C20", "agent/agent.go", "\t\tif badHealthChecks >= *healthCheckUnhealthy {", "\t\tif badHealthChecks > *healthCheckUnhealthy {"),
    ("H40-sleep-before-cancel", "C20", "agent/agent.go", "\t\trequestPollingCancel()\n\t\tlog.Printf(\"Begin graceful shutdown. Wait for: %v\\n\", *gracefulShutdownTimeout)\n\t\ttime.Sleep(*gracefulShutdownTimeout)\n", "\t\tlog.Printf(\"Begin graceful shutdown. Wait for: %v\\n\", *gracefulShutdownTimeout)\n\t\ttime.Sleep(*gracefulShutdownTimeout)\n\t\trequestPollingCancel()\n"),
    ("H41-go-send-client-message", "C11", "agent/websockets/shim.go", "\t\t\tif err := conn.SendClientMessage(msg.Message, enableWebsocketInjection, injectedHeaders); err != nil {\n\t\t\t\tstatusCode := http.StatusBadRequest\n\t\t\t\thttp.Error(w, fmt.Sprintf(\"attempt to send data on a closed session: %q\", msg.ID), statusCode)\n\t\t\t\tmetricHandler.WriteResponseCodeMetric(statusCode)\n\t\t\t\treturn\n\t\t\t}\n", "\t\t\tgo conn.SendClientMessage(msg.Message, enableWebsocketInjection, injectedHeaders)\n"),
    ("H42-flush-interval-zero", "C05", "agent/agent.go", "\thostProxy.FlushInterval = 100 * time.Millisecond\n", "\thostProxy.FlushInterval = 0\n"),
    ("H43-buffered-response-channel", "C01", "server/server.go", "\t\trespChan:  make(chan *http.Response),", "\t\trespChan:  make(chan *http.Response, 1),"),
    ("H44-no-cancel-in-reader", "C12", "agent/websockets/connection.go", "\tgo func() {\n\t\tdefer close(serverMessages)\n\t\tdefer cancel()\n", "\tgo func() {\n\t\tdefer close(serverMessages)\n"),
]


def sh(cmd, cwd=None):
    return subprocess.run(cmd, shell=True, cwd=cwd, env=ENV, capture_output=True, text=True)


assert sh("git status --porcelain", REPO).stdout.strip() == "", "/repo is dirty"
only = set(sys.argv[1:])
res = []
for mid, prop, path, old, new in M:
    if only and mid not in only:
        continue
    fp = os.path.join(REPO, path)
    src = open(fp).read()
    if old not in src:
        res.append((mid, "EDIT-NOT-APPLICABLE"))
        continue
    try:
        open(fp, "w").write(src.replace(old, new, 1))
        # unused imports etc.: let goimports-free build decide
        b = sh("go build -o /dev/null ./... 2>&1 | head -5", REPO)
        if b.stdout.strip():
            res.append((mid, "DOES-NOT-COMPILE: " + b.stdout.strip().splitlines()[-1][:120]))
            continue
        diff = sh("git diff", REPO).stdout
        r = sh(f"/verif/bin/ipcheck -property {prop} -repo /repo -verif /tmp/hm_ev", "/verif")
        hits = [l.strip() for l in r.stdout.splitlines() if "VIOLATED" in l or "UNDECIDED" in l]
        if not hits:
            res.append((mid, "NOT-DETECTED by " + prop))
            continue
        d = f"/verif/handmutants/{mid}"
        os.makedirs(d, exist_ok=True)
        open(d + "/patch.diff", "w").write(diff)
        rule = hits[0].split("[")[1].split("]")[0] if "[" in hits[0] else "?"
        json.dump({"property": prop, "needs_to_manifest": "hand-written positive control (one-site edit; compiles; not demonstrated by execution)",
                   "detected_by": "; ".join(h.split("]", 1)[1].split(":")[0].strip() for h in hits[:3])}, open(d + "/meta.json", "w"), indent=1)
        res.append((mid, "detected by " + rule))
    finally:
        sh("git checkout -- .", REPO)
os.makedirs("/tmp/hm_ev/evidence", exist_ok=True)
for r in res:
    print(*r)
assert sh("git status --porcelain", REPO).stdout.strip() == ""

#!/usr/bin/env python3
"""usage: benign_prompt.py <n> "<files>"  — prompt for an independent sub-agent that produces
property-PRESERVING maintenance changes (behaviour may change, none of the 20 properties may break).
The agent gets the property texts and a scratch worktree; nothing else from /verif."""
import sys, json
n=sys.argv[1]; files=sys.argv[2]; wt='/root/scratch/rfj-%s'%n
props="\n".join("  %s. %s — %s"%(d['id'],d['title'],d['statement']) for d in map(json.loads,open('/verif/properties.jsonl')))
print(f"""You are working in a scratch git worktree of the Go project google/inverting-proxy at {wt} (an HTTP "inverting" reverse proxy: an agent long-polls a proxy for client requests, forwards them to a backend and streams responses back; includes a websocket shim, session-cookie tracking, a banner injector, a TCP-over-websocket bridge and an App Engine variant of the proxy). The sandbox is offline; in every shell call first run:
  export GOFLAGS=-mod=mod GOPROXY=off GOSUMDB=off GOTOOLCHAIN=local; unset GOWORK
Never kill processes by name (no pkill/killall), never use `git stash`, work only inside {wt}.

Users of this project rely on the following 20 properties:
{props}

Your task: produce SIX independent, realistic NON-LOCAL OR DATA-DRIVEN CHANGES whose main edits are in: {files} (a change may also touch one or two other files of the repository where that is natural - a caller in another package, a shared constant, a YAML file)
These are ordinary commits that reach across places: every one of the 20 properties above must still hold afterwards, for every input, schedule and fault (observable behaviour may change in harmless ways). They are used to test a static analyser for false alarms, so the interesting ones are those that touch the code the properties are about (request/response paths, locking, retry and back-off, header handling, channels, handlers, cookie/session code, routing, authorisation) without breaking any of them. Kinds (use six different ones):
  - a helper's contract made explicit and every caller adapted consistently (a function now returns an extra value that all callers handle as before; a parameter order or type change applied at all call sites; an exported function made unexported or the reverse)
  - a shared constant, sentinel or header name introduced for a literal that appears in several files, with the SAME value everywhere; constants regrouped into a typed block; a magic number given a name
  - a struct gaining a field that nothing compares, serialises or copies in a way that matters (a debug label, a creation time used only in logs), or losing a field that really was dead
  - defaults and configuration that keep behaviour: a flag's help text, a new flag whose default reproduces today's hard-coded value, an environment variable that overrides a flag only when set, flags validated in a dedicated function that main calls at the same point
  - tables, templates and embedded text changed without changing any decision: entries of a table re-sorted or re-cased where lookups are case-normalised anyway, a comment or whitespace change in an embedded script or template, a format string reworded in a log message, a YAML comment or reordering that keeps every rule
  - code moved between files or into a new internal package with the call graph unchanged; a type or function moved next to its only user; an import alias clean-up
  - start-up wiring made explicit without changing it: hostProxy's wrapping order written as a small list applied in the same order; the client/transport/metric handler passed through a small struct built in main and read in the same places; a constructor introduced for a struct that was built by a literal in one place
  - a package far from the request path improved in a self-contained way (agent/metrics label parsing, runlocal, the banner's template text, app/ admin API messages) with no effect on what the request path sees
Do NOT deliver a change if you are not sure all 20 properties still hold (e.g. never add or alter headers/bytes of proxied requests or responses, never add buffering or waiting on a streaming path, never widen who is authorised, never let shared state escape its lock, never make a per-request failure fatal). Do not change what the property-relevant logic answers, forwards, stores or waits for.

For EACH change k = 1..6:
1. Start from a clean tree (`git checkout -- .` and `git clean -fdq -e out`), make the change, save it with `git diff > {wt}/out/r$k/patch.diff` (create out/r$k first; `git add -N` new files first so they are in the diff; also create the file out/go.mod containing the single line `module refout` once). The diff must apply with `git apply` on the clean worktree.
2. Verify: `go build ./...` and the existing tests pass: `go test -vet=off -count=1 $(go list ./... | grep -v '/agent$')` (package `agent` has 4 tests that already fail in this sandbox and take 2 minutes; skip it unless you changed agent/agent.go, in which case run `go test -vet=off -count=1 -run 'TestWithInMemoryProxyAndBackend$' ./agent/` and accept a sandbox-related failure only if it fails the same way on the clean tree).
3. Write out/r$k/README.md: the kind, the functions touched, what changes observably, and two or three sentences arguing why none of the 20 properties is affected (name the properties that are closest to the change).

Leave the worktree clean at the end (out/ stays, untracked). Your final message must list r1..r6 with kind, functions touched, the observable change and the verification result.""")

#!/usr/bin/env python3
"""usage: benign_prompt.py <n> "<files>"  — prompt for an independent sub-agent that produces
property-PRESERVING maintenance changes (behaviour may change, none of the 20 properties may break).
The agent gets the property texts and a scratch worktree; nothing else from /verif."""
import sys, json
n=sys.argv[1]; files=sys.argv[2]; wt='/root/scratch/rfk-%s'%n
props="\n".join("  %s. %s — %s"%(d['id'],d['title'],d['statement']) for d in map(json.loads,open('/verif/properties.jsonl')))
print(f"""You are working in a scratch git worktree of the Go project google/inverting-proxy at {wt} (an HTTP "inverting" reverse proxy: an agent long-polls a proxy for client requests, forwards them to a backend and streams responses back; includes a websocket shim, session-cookie tracking, a banner injector, a TCP-over-websocket bridge and an App Engine variant of the proxy). The sandbox is offline; in every shell call first run:
  export GOFLAGS=-mod=mod GOPROXY=off GOSUMDB=off GOTOOLCHAIN=local; unset GOWORK
Never kill processes by name (no pkill/killall), never use `git stash`, work only inside {wt}.

Users of this project rely on the following 20 properties:
{props}

Your task: produce SIX independent, realistic CONCURRENCY, LIFECYCLE AND ERROR-PATH CHANGES DONE RIGHT whose main edits are in: {files} (a change may also touch one or two other files of the repository where that is natural)
These are the commits a careful engineer makes to code that runs concurrently and can fail half-way: every one of the 20 properties above must still hold afterwards, for every input, schedule, fault point and history (observable behaviour may change in harmless ways). They are used to test a static analyser for false alarms, so the interesting ones are those that touch the code the properties are about (locks, channels, goroutines, contexts, retries and back-off, cleanup and close paths, per-session and per-connection state) without breaking any of them. Kinds (use six different ones):
  - a critical section restructured without changing what it protects: lock/unlock turned into a small locked helper or a `func() {{ mu.Lock(); defer mu.Unlock(); ... }}()` block, a value copied out under the lock and used after it exactly as before, an RWMutex read lock for a pure read, two adjacent sections under the same lock merged
  - goroutine and channel hygiene that keeps the protocol: a goroutine body extracted into a named function or method with the same parameters, a `done` channel replaced by the equivalent context (or the reverse) with every waiter adapted, a `select` gaining a case that only logs, channel direction types (`chan<-`, `<-chan`) added to signatures, a buffered channel whose capacity is raised where senders were already bounded by it
  - cleanup made robust without moving it: `defer` for a close/cancel/unlock that every path already performed, a `sync.Once` around a teardown that could only run once anyway, idempotent `Close`, a timer stopped when its select is left, a ticker stopped on return
  - error paths made explicit with the same outcome: an ignored error now logged, an error wrapped with `%w` where nobody compares it (or compared with errors.Is where somebody does), an early return replaced by the equivalent if/else, a sentinel error introduced for a condition callers do not distinguish yet, a status code constant used for a literal
  - per-request / per-session / per-connection state made more obviously fresh: a struct literal replaced by a constructor that fills the same fields, a zero value spelled out, a map or buffer allocated where it was allocated before but through a helper, a field renamed together with all its uses
  - retry, back-off and time-out code tidied with identical numbers and control flow: the loop body extracted, the attempt counter renamed, a `time.After` replaced by a stopped `time.NewTimer` in a select that leaves the loop on the same arms, constants named
  - context plumbing that changes no lifetime: a context parameter added to a helper and fed with the context its caller already had, `context.TODO()` replaced by the parent that was in scope and has the same lifetime, a value (not a deadline or cancellation) attached to a context
  - shutdown and start-up sequences documented or regrouped without reordering any step that matters (logging added between steps, a step extracted into a function called at the same point)
Do NOT deliver a change if you are not sure all 20 properties still hold (e.g. never add or alter headers/bytes of proxied requests or responses, never add buffering or waiting on a streaming path, never widen who is authorised, never let shared state escape its lock, never make a per-request failure fatal). Do not change what the property-relevant logic answers, forwards, stores or waits for.

For EACH change k = 1..6:
1. Start from a clean tree (`git checkout -- .` and `git clean -fdq -e out`), make the change, save it with `git diff > {wt}/out/r$k/patch.diff` (create out/r$k first; `git add -N` new files first so they are in the diff; also create the file out/go.mod containing the single line `module refout` once). The diff must apply with `git apply` on the clean worktree.
2. Verify: `go build ./...` and the existing tests pass: `go test -vet=off -count=1 $(go list ./... | grep -v '/agent$')` (package `agent` has 4 tests that already fail in this sandbox and take 2 minutes; skip it unless you changed agent/agent.go, in which case run `go test -vet=off -count=1 -run 'TestWithInMemoryProxyAndBackend$' ./agent/` and accept a sandbox-related failure only if it fails the same way on the clean tree).
3. Write out/r$k/README.md: the kind, the functions touched, what changes observably, and two or three sentences arguing why none of the 20 properties is affected (name the properties that are closest to the change).

Leave the worktree clean at the end (out/ stays, untracked). Your final message must list r1..r6 with kind, functions touched, the observable change and the verification result.""")

#!/usr/bin/env python3
"""usage: tools/save_round2.py Cnn [Cnn…]  — saves the confirmed round-2 seeds of the given properties
(from /root/scratch/seed2-Cnn/out/mK, confirm logs in /root/scratch/confirm-logs/r2-Cnn-mK.log)
into /verif/seeded/Cnn-r2-mK with the reporting rules found by tools/seed_detect.sh."""
import sys, os, re, json, subprocess, shutil, glob
RND = os.environ.get("ROUND", "2")
for prop in sys.argv[1:]:
    for m in ("m1", "m2", "m3"):
        src = f"/root/scratch/seed{RND}-{prop}/out/{m}"
        log = f"/root/scratch/confirm-logs/r{RND}-{prop}-{m}.log"
        if not os.path.isdir(src) or not os.path.exists(log):
            print("missing", prop, m); continue
        res = [l.strip() for l in open(log) if l.startswith("RESULT")]
        if not res or not re.search(r"demo_on_clean_exit=0 build_with_patch_exit=0 existing_suite_with_patch_exit=0 demo_with_patch_exit=[1-9]", res[-1]):
            print("NOT CONFIRMED", prop, m, res); continue
        det = subprocess.run(["/verif/tools/seed_detect.sh", src + "/patch.diff", prop], capture_output=True, text=True).stdout.strip()
        if not det:
            print("NOT DETECTED", prop, m); continue
        readme = open(src + "/README.md").read() if os.path.exists(src + "/README.md") else ""
        needs = ""
        mm = re.search(r"(?is)needs?[^\n]{0,40}(?:manifest)?[^\n]*?[:\n]\s*(.+?)(?:\n\s*\n|\n#|\Z)", readme)
        if mm:
            needs = re.sub(r"\s+", " ", mm.group(0)).strip()
            needs = re.sub(r"^[#*\s]*(what it )?needs( to manifest)?\**\s*(\([^)]*\))?\s*[:\-—]*\s*", "", needs, flags=re.I)
        needs = needs[:420]
        d = f"/verif/seeded/{prop}-r{RND}-{m}"
        os.makedirs(d, exist_ok=True)
        shutil.copy(src + "/patch.diff", d)
        for f in glob.glob(src + "/*_test.go"):
            shutil.copy(f, d + "/" + os.path.basename(f) + ".txt")
        if readme:
            shutil.copy(src + "/README.md", d)
        json.dump({"property": prop, "round": int(RND), "needs_to_manifest": needs,
                   "confirmed_by": "tools/confirm_seed.sh in a scratch worktree of /repo HEAD (removed afterwards): " + res[-1],
                   "detected_by": det}, open(d + "/meta.json", "w"), indent=1)
        print("saved", prop, m, "|", det[:100])

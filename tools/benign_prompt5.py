#!/usr/bin/env python3
"""usage: benign_prompt.py <n> "<files>"  — prompt for an independent sub-agent that produces
property-PRESERVING maintenance changes (behaviour may change, none of the 20 properties may break).
The agent gets the property texts and a scratch worktree; nothing else from /verif."""
import sys, json
n=sys.argv[1]; files=sys.argv[2]; wt='/root/scratch/rfi-%s'%n
props="\n".join("  %s. %s — %s"%(d['id'],d['title'],d['statement']) for d in map(json.loads,open('/verif/properties.jsonl')))
print(f"""You are working in a scratch git worktree of the Go project google/inverting-proxy at {wt} (an HTTP "inverting" reverse proxy: an agent long-polls a proxy for client requests, forwards them to a backend and streams responses back; includes a websocket shim, session-cookie tracking, a banner injector, a TCP-over-websocket bridge and an App Engine variant of the proxy). The sandbox is offline; in every shell call first run:
  export GOFLAGS=-mod=mod GOPROXY=off GOSUMDB=off GOTOOLCHAIN=local; unset GOWORK
Never kill processes by name (no pkill/killall), never use `git stash`, work only inside {wt}.

Users of this project rely on the following 20 properties:
{props}

Your task: produce SIX independent, realistic CLEAN-UP AND SMALL-REFACTORING CHANGES to the non-test source in: {files}
These are the commits that silence linters (staticcheck, errcheck, go vet, gosimple, revive) or tidy types and interfaces. Unlike sabotage they keep every one of the 20 properties above, for every input, schedule and fault (observable behaviour may change in harmless ways: log lines, error texts, an error now logged). They are used to test a static analyser for false alarms, so the interesting ones are those that touch the code the properties are about (request/response paths, locking, retry and back-off, header handling, channels, handlers, cookie/session code, routing, authorisation) without breaking any of them. Kinds (use six different ones):
  - an ignored error that is now checked and LOGGED (control flow unchanged), or returned where every caller already treated the call as failed
  - an unused parameter, field, assignment or result removed where it really is unused (all call sites updated); a parameter list reordered or a bool parameter split into two functions
  - a shadowed variable un-shadowed, a `:=` / `=` clean-up, named results introduced or removed, a naked return made explicit - with identical values on every path
  - a simplified condition or loop: De Morgan, early `continue`/`return`, `for range`, `switch` for an if-chain (with a default that does what the fall-through did), a helper predicate extracted
  - types and interfaces: a small interface introduced for a dependency (and the concrete type still passed), a struct embedding replaced by a named field (or the reverse) WITHOUT changing the method set that callers or net/http can see, a method moved between value and pointer receiver where no interface or copy is affected, a type alias or named type for a map/func type
  - composite-value hygiene: a copy made explicit where a copy was already made implicitly, `append([]T(nil), s...)` for a defensive copy that nobody mutates anyway, nil-vs-empty normalised where only len() is ever used, a constant or table hoisted to package level that is never written
  - goroutine and channel tidy-ups with identical semantics: a `done` channel replaced by the context that already exists, a WaitGroup Add moved in front of the `go` statement it already preceded, a select with a single case turned into a plain receive, `close` moved into a defer that runs at the same point
  - error values: `errors.Is` instead of `==` where the error is never wrapped, `%w` instead of `%v` where callers only test for nil, a sentinel introduced for a repeated message, an error type given an `Unwrap` that no caller uses
Do NOT deliver a change if you are not sure all 20 properties still hold (e.g. never add or alter headers/bytes of proxied requests or responses, never add buffering or waiting on a streaming path, never widen who is authorised, never let shared state escape its lock, never make a per-request failure fatal). Do not change what the property-relevant logic answers, forwards, stores or waits for.

For EACH change k = 1..6:
1. Start from a clean tree (`git checkout -- .` and `git clean -fdq -e out`), make the change, save it with `git diff > {wt}/out/r$k/patch.diff` (create out/r$k first; `git add -N` new files first so they are in the diff; also create the file out/go.mod containing the single line `module refout` once). The diff must apply with `git apply` on the clean worktree.
2. Verify: `go build ./...` and the existing tests pass: `go test -vet=off -count=1 $(go list ./... | grep -v '/agent$')` (package `agent` has 4 tests that already fail in this sandbox and take 2 minutes; skip it unless you changed agent/agent.go, in which case run `go test -vet=off -count=1 -run 'TestWithInMemoryProxyAndBackend$' ./agent/` and accept a sandbox-related failure only if it fails the same way on the clean tree).
3. Write out/r$k/README.md: the kind, the functions touched, what changes observably, and two or three sentences arguing why none of the 20 properties is affected (name the properties that are closest to the change).

Leave the worktree clean at the end (out/ stays, untracked). Your final message must list r1..r6 with kind, functions touched, the observable change and the verification result.""")

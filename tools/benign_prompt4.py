#!/usr/bin/env python3
"""usage: benign_prompt.py <n> "<files>"  — prompt for an independent sub-agent that produces
property-PRESERVING maintenance changes (behaviour may change, none of the 20 properties may break).
The agent gets the property texts and a scratch worktree; nothing else from /verif."""
import sys, json
n=sys.argv[1]; files=sys.argv[2]; wt='/root/scratch/rfh-%s'%n
props="\n".join("  %s. %s — %s"%(d['id'],d['title'],d['statement']) for d in map(json.loads,open('/verif/properties.jsonl')))
print(f"""You are working in a scratch git worktree of the Go project google/inverting-proxy at {wt} (an HTTP "inverting" reverse proxy: an agent long-polls a proxy for client requests, forwards them to a backend and streams responses back; includes a websocket shim, session-cookie tracking, a banner injector, a TCP-over-websocket bridge and an App Engine variant of the proxy). The sandbox is offline; in every shell call first run:
  export GOFLAGS=-mod=mod GOPROXY=off GOSUMDB=off GOTOOLCHAIN=local; unset GOWORK
Never kill processes by name (no pkill/killall), never use `git stash`, work only inside {wt}.

Users of this project rely on the following 20 properties:
{props}

Your task: produce SIX independent, realistic BUG-FIX, HARDENING OR ROBUSTNESS CHANGES to the non-test source in: {files}
These are the kind of commits a maintainer makes after an issue report ("fix ...", "harden ...", "avoid leaking ...", "handle ... gracefully"). Unlike a pure refactoring they MAY change observable behaviour — but every one of the 20 properties above must still hold afterwards, for every input, schedule and fault. They are used to test a static analyser for false alarms, so the interesting ones are those that touch the code the properties are about (request/response paths, locking, retry and back-off, header handling, channels, handlers, cookie/session code, routing, authorisation) without breaking any of them. Kinds (use six different ones):
  - a leak fix done right: a timer stopped, a response body closed on an error path that returned without closing it, a ticker stopped, a context cancelled once NOTHING in flight depends on it, a map entry deleted exactly where the stated behaviour already forgets it
  - a race or deadlock hardening done right: a copy of a small value taken under the lock that already guards it and used outside, a sync.Once around an idempotent initialisation, a lock held a little longer over code that touches only the guarded state (never over I/O)
  - a panic guard done right: a nil or bounds check in front of a dereference that returns the SAME answer the caller would otherwise have produced for that error class, a recover() in a goroutine of the agent's own bookkeeping that logs and keeps the stated behaviour (never swallowing a per-request answer)
  - input validation on the component's OWN inputs: flag values checked at start-up (non-empty URL, positive sizes), malformed configuration rejected with a clear message before serving starts, a stricter check that can only reject what was already answered with an error
  - log hygiene: masking tokens/cookies/e-mails in LOG LINES only (never in forwarded messages), rate-limited or deduplicated log lines, clearer error texts in the proxy's own error answers with the SAME status code
  - misbehaving-peer robustness that the properties allow: a bounded read of an ERROR body that is only logged, a deadline on the agent's own bookkeeping calls, closing a connection that is already being torn down, tolerating an extra header or trailing whitespace on the component's own control messages
  - error-handling corrections that keep every stated answer: an ignored error of a bookkeeping call now logged, cleanup moved into defer where every exit already performed it, an error wrapped with context where callers only test it for nil
  - compatibility details with identical semantics for proxied traffic: http.MethodX constants, header-name constants, net.JoinHostPort for IPv6 literals in the component's own listen/dial addresses, io.ReadAll for ioutil.ReadAll, strings.EqualFold where both sides are ASCII constants
Do NOT deliver a change if you are not sure all 20 properties still hold (e.g. never add or alter headers/bytes of proxied requests or responses, never add buffering or waiting on a streaming path, never widen who is authorised, never let shared state escape its lock, never make a per-request failure fatal). Do not change what the property-relevant logic answers, forwards, stores or waits for.

For EACH change k = 1..6:
1. Start from a clean tree (`git checkout -- .` and `git clean -fdq -e out`), make the change, save it with `git diff > {wt}/out/r$k/patch.diff` (create out/r$k first; `git add -N` new files first so they are in the diff; also create the file out/go.mod containing the single line `module refout` once). The diff must apply with `git apply` on the clean worktree.
2. Verify: `go build ./...` and the existing tests pass: `go test -vet=off -count=1 $(go list ./... | grep -v '/agent$')` (package `agent` has 4 tests that already fail in this sandbox and take 2 minutes; skip it unless you changed agent/agent.go, in which case run `go test -vet=off -count=1 -run 'TestWithInMemoryProxyAndBackend$' ./agent/` and accept a sandbox-related failure only if it fails the same way on the clean tree).
3. Write out/r$k/README.md: the kind, the functions touched, what changes observably, and two or three sentences arguing why none of the 20 properties is affected (name the properties that are closest to the change).

Leave the worktree clean at the end (out/ stays, untracked). Your final message must list r1..r6 with kind, functions touched, the observable change and the verification result.""")

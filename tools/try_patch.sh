#!/bin/sh
# usage: tools/try_patch.sh <patch.diff> <property-ids comma separated|all>
# Applies a change to a scratch worktree of /repo's HEAD (never to /repo itself), runs the checks
# against that tree, and restores the worktree. The scratch worktree lives outside /repo and /verif.
patch="$(readlink -f "$1")"; props="${2:-all}"
wt=${TRY_WT:-/root/scratch/wt-try}
cd /verif || exit 2
if [ ! -d "$wt" ]; then git -C /repo worktree add -q --detach "$wt" HEAD || exit 2; fi
git -C "$wt" checkout -q --detach "$(git -C /repo rev-parse HEAD)" 2>/dev/null; git -C "$wt" checkout -- . ; git -C "$wt" clean -fdq
git -C "$wt" apply "$patch" || { echo "patch does not apply"; exit 2; }
out=/tmp/try_patch_ev_$$; mkdir -p $out/evidence; cp known_findings.json $out/
${IPCHECK:-bin/ipcheck} -property "$props" -repo "$wt" -verif $out | grep -E 'VIOLAT|UNDECIDED|KNOWN|quick:' | cut -c1-300 | iconv -c -f utf-8 -t utf-8
rm -rf $out
git -C "$wt" checkout -- . ; git -C "$wt" clean -fdq

#!/bin/sh
# usage: tools/try_patch.sh <patch.diff> <property-ids comma separated|all>
# Applies a seeded change to /repo, runs the checks, and undoes it straight afterwards.
patch="$(readlink -f "$1")"; props="${2:-all}"
cd /verif || exit 2
if [ -n "$(git -C /repo status --porcelain)" ]; then echo "/repo is dirty"; exit 2; fi
git -C /repo apply "$patch" || { echo "patch does not apply"; exit 2; }
out=/tmp/try_patch_ev; mkdir -p $out/evidence; cp known_findings.json $out/
bin/ipcheck -property "$props" -repo /repo -verif $out | grep -E 'VIOLAT|UNDECIDED|KNOWN|quick:' | cut -c1-300
git -C /repo apply -R "$patch"
git -C /repo checkout -- . 2>/dev/null
if [ -n "$(git -C /repo status --porcelain)" ]; then echo "WARNING: /repo not clean after revert"; git -C /repo status --porcelain; fi

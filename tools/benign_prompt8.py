#!/usr/bin/env python3
"""usage: benign_prompt.py <n> "<files>"  — prompt for an independent sub-agent that produces
property-PRESERVING maintenance changes (behaviour may change, none of the 20 properties may break).
The agent gets the property texts and a scratch worktree; nothing else from /verif."""
import sys, json
n=sys.argv[1]; files=sys.argv[2]; wt='/root/scratch/rfl-%s'%n
props="\n".join("  %s. %s — %s"%(d['id'],d['title'],d['statement']) for d in map(json.loads,open('/verif/properties.jsonl')))
print(f"""You are working in a scratch git worktree of the Go project google/inverting-proxy at {wt} (an HTTP "inverting" reverse proxy: an agent long-polls a proxy for client requests, forwards them to a backend and streams responses back; includes a websocket shim, session-cookie tracking, a banner injector, a TCP-over-websocket bridge and an App Engine variant of the proxy). The sandbox is offline; in every shell call first run:
  export GOFLAGS=-mod=mod GOPROXY=off GOSUMDB=off GOTOOLCHAIN=local; unset GOWORK
Never kill processes by name (no pkill/killall), never use `git stash`, work only inside {wt}.

Users of this project rely on the following 20 properties:
{props}

Your task: produce SIX independent, realistic INPUT-HANDLING CHANGES DONE RIGHT whose main edits are in: {files} (a change may also touch one or two other files of the repository where that is natural)
These are the commits a careful engineer makes to code that parses, validates, normalises and limits input: every one of the 20 properties above must still hold afterwards, for EVERY legal input (observable behaviour may change in harmless ways, e.g. a clearer error for input that was rejected before, an extra log line). They are used to test a static analyser for false alarms, so the interesting ones are those that touch the code the properties are about (header handling, IDs, paths, sizes, status codes, cookies, frames, flags) without breaking any of them. Kinds (use six different ones):
  - validation of the component's OWN configuration made stricter or clearer (flags, environment variables, constructor arguments): out-of-range values refused at start-up with a clear message, defaults spelled out, a helper that parses a flag value - never validation of proxied traffic
  - a parse made more explicit with the same accepted language: `strconv.Atoi` + range check written out, `strings.Cut`/`CutPrefix` for Index arithmetic, `http.CanonicalHeaderKey` applied where lookups were canonical anyway, `path.Join` kept where it was and not added where it was not, a switch for an if-chain over the same constants
  - comparison and lookup helpers with identical semantics: `strings.EqualFold` where both sides were lower-cased anyway, a small `contains`/`hasToken` helper for a loop, a set (map[string]struct{{}}) for a list that is only tested for membership, constants for status codes and header names with the same values
  - limits that cannot cut legal traffic: a cap on what is LOGGED (not on what is forwarded), a bounded read of an error body that is only reported, a pre-sized buffer or slice capacity, `make` with a length hint - never a cap on proxied bodies, header counts, message sizes or list lengths
  - defensive code with the same answers: a nil or empty check that returns what the code below would have returned anyway, an early return for an input the loop below would skip, a bounds check before an index that was already safe, `len(x) == 0` for `x == nil` where both mean the same to every caller
  - error messages and status texts improved without changing the status code, the decision, or what is echoed to an unauthenticated caller; `%q` for `%s` in logs; an input quoted or truncated in a LOG line
  - encoding/decoding helpers extracted with identical bytes in and out (hex, base64, JSON field tags unchanged), table-driven tests added for them
  - documentation of accepted input (comments, flag help, README) plus assertions that merely restate what the code already guarantees
Do NOT deliver a change if you are not sure all 20 properties still hold (e.g. never add or alter headers/bytes of proxied requests or responses, never add buffering or waiting on a streaming path, never widen who is authorised, never let shared state escape its lock, never make a per-request failure fatal). Do not change what the property-relevant logic answers, forwards, stores or waits for.

For EACH change k = 1..6:
1. Start from a clean tree (`git checkout -- .` and `git clean -fdq -e out`), make the change, save it with `git diff > {wt}/out/r$k/patch.diff` (create out/r$k first; `git add -N` new files first so they are in the diff; also create the file out/go.mod containing the single line `module refout` once). The diff must apply with `git apply` on the clean worktree.
2. Verify: `go build ./...` and the existing tests pass: `go test -vet=off -count=1 $(go list ./... | grep -v '/agent$')` (package `agent` has 4 tests that already fail in this sandbox and take 2 minutes; skip it unless you changed agent/agent.go, in which case run `go test -vet=off -count=1 -run 'TestWithInMemoryProxyAndBackend$' ./agent/` and accept a sandbox-related failure only if it fails the same way on the clean tree).
3. Write out/r$k/README.md: the kind, the functions touched, what changes observably, and two or three sentences arguing why none of the 20 properties is affected (name the properties that are closest to the change).

Leave the worktree clean at the end (out/ stays, untracked). Your final message must list r1..r6 with kind, functions touched, the observable change and the verification result.""")

#!/usr/bin/env python3
"""usage: benign_prompt.py <n> "<files>"  — prompt for an independent sub-agent that produces
property-PRESERVING maintenance changes (behaviour may change, none of the 20 properties may break).
The agent gets the property texts and a scratch worktree; nothing else from /verif."""
import sys, json
n=sys.argv[1]; files=sys.argv[2]; wt='/root/scratch/rfm-%s'%n
props="\n".join("  %s. %s — %s"%(d['id'],d['title'],d['statement']) for d in map(json.loads,open('/verif/properties.jsonl')))
print(f"""You are working in a scratch git worktree of the Go project google/inverting-proxy at {wt} (an HTTP "inverting" reverse proxy: an agent long-polls a proxy for client requests, forwards them to a backend and streams responses back; includes a websocket shim, session-cookie tracking, a banner injector, a TCP-over-websocket bridge and an App Engine variant of the proxy). The sandbox is offline; in every shell call first run:
  export GOFLAGS=-mod=mod GOPROXY=off GOSUMDB=off GOTOOLCHAIN=local; unset GOWORK
Never kill processes by name (no pkill/killall), never use `git stash`, work only inside {wt}.

Users of this project rely on the following 20 properties:
{props}

Your task: produce SIX independent, realistic COMPATIBILITY-PRESERVING CHANGES whose main edits are in: {files} (a change may also touch one or two other files of the repository where that is natural)
These are the commits a careful engineer makes to code that speaks a wire protocol with other builds and keeps state across upgrades: every one of the 20 properties above must still hold afterwards — also against an older agent, the other proxy implementation, entities and cache entries written by the previous build, and existing deployments' flags (observable behaviour may change in harmless ways). They are used to test a static analyser for false alarms, so the interesting ones are those that touch the code the properties are about (header names, paths, JSON shapes, status codes, keys, cookies, flags) without breaking any of them. Kinds (use six different ones):
  - protocol constants gathered or renamed IN CODE ONLY: header names, paths, JSON tags, status codes given names/constants with byte-identical wire values; a shared constants file; a comment block documenting the wire protocol
  - a receiver made tolerant in a way that accepts strictly more while every old sender still works and nothing new is forwarded or stored (e.g. accepting an optional extra header and ignoring it; accepting both spellings of a flag) - never a sender change
  - an additive, ignorable extension: a new OPTIONAL response header or JSON field that old receivers ignore (check that they do: Go's json ignores unknown fields; the agent ignores unknown headers), a new flag with a default that reproduces today's behaviour, a new log-only field
  - persisted/cached state handled compatibly: a new struct field with a zero value that means "as before" and is not part of any key or comparison; a reader that accepts both the old and a new encoding while the writer keeps the old one; a cache entry version prefix added to a NEW cache only
  - deprecations done right: an old flag/env var kept working exactly as before with the new spelling added as an alias, a warning logged; documentation/help text updated
  - the two proxy implementations (or the two Store implementations, or the ResponseWriter wrappers) brought into line in a way that changes nothing on the wire: same helper used by both, same error text, same log format, shared test table
  - version negotiation made explicit without changing outcomes: the shim protocol version parse in a helper, unknown versions treated exactly as before, constants for 0 and 1
  - tests and fixtures that pin the wire format (golden strings for keys, headers, JSON) added next to unchanged code
Do NOT deliver a change if you are not sure all 20 properties still hold (e.g. never add or alter headers/bytes of proxied requests or responses, never add buffering or waiting on a streaming path, never widen who is authorised, never let shared state escape its lock, never make a per-request failure fatal). Do not change what the property-relevant logic answers, forwards, stores or waits for.

For EACH change k = 1..6:
1. Start from a clean tree (`git checkout -- .` and `git clean -fdq -e out`), make the change, save it with `git diff > {wt}/out/r$k/patch.diff` (create out/r$k first; `git add -N` new files first so they are in the diff; also create the file out/go.mod containing the single line `module refout` once). The diff must apply with `git apply` on the clean worktree.
2. Verify: `go build ./...` and the existing tests pass: `go test -vet=off -count=1 $(go list ./... | grep -v '/agent$')` (package `agent` has 4 tests that already fail in this sandbox and take 2 minutes; skip it unless you changed agent/agent.go, in which case run `go test -vet=off -count=1 -run 'TestWithInMemoryProxyAndBackend$' ./agent/` and accept a sandbox-related failure only if it fails the same way on the clean tree).
3. Write out/r$k/README.md: the kind, the functions touched, what changes observably, and two or three sentences arguing why none of the 20 properties is affected (name the properties that are closest to the change).

Leave the worktree clean at the end (out/ stays, untracked). Your final message must list r1..r6 with kind, functions touched, the observable change and the verification result.""")

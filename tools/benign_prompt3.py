#!/usr/bin/env python3
"""usage: benign_prompt.py <n> "<files>"  — prompt for an independent sub-agent that produces
property-PRESERVING maintenance changes (behaviour may change, none of the 20 properties may break).
The agent gets the property texts and a scratch worktree; nothing else from /verif."""
import sys, json
n=sys.argv[1]; files=sys.argv[2]; wt='/root/scratch/rfg-%s'%n
props="\n".join("  %s. %s — %s"%(d['id'],d['title'],d['statement']) for d in map(json.loads,open('/verif/properties.jsonl')))
print(f"""You are working in a scratch git worktree of the Go project google/inverting-proxy at {wt} (an HTTP "inverting" reverse proxy: an agent long-polls a proxy for client requests, forwards them to a backend and streams responses back; includes a websocket shim, session-cookie tracking, a banner injector, a TCP-over-websocket bridge and an App Engine variant of the proxy). The sandbox is offline; in every shell call first run:
  export GOFLAGS=-mod=mod GOPROXY=off GOSUMDB=off GOTOOLCHAIN=local; unset GOWORK
Never kill processes by name (no pkill/killall), never use `git stash`, work only inside {wt}.

Users of this project rely on the following 20 properties:
{props}

Your task: produce SIX independent, realistic PERFORMANCE, ROBUSTNESS OR SMALL-FEATURE CHANGES to the non-test source in: {files}
These are the kind of commits a maintainer makes in normal work. Unlike a pure refactoring they MAY change observable behaviour — but every one of the 20 properties above must still hold afterwards, for every input, schedule and fault. They are used to test a static analyser for false alarms, so the interesting ones are those that touch the code the properties are about (request/response paths, locking, retry and back-off, header handling, channels, handlers, cookie/session code, routing, authorisation) without breaking any of them. Kinds (use six different ones):
  - a safe concurrency refinement: a read-mostly accessor that only READS guarded state takes a read lock where the type already is an RWMutex or is made one with every writer still exclusive; an atomic counter for pure statistics; narrowing a critical section ONLY where the moved-out code touches no shared state
  - a safe data-structure change: pre-sized maps/slices, a strings.Builder or bytes.Buffer local to one call, a small struct instead of parallel parameters, an index that is only ever read after construction
  - safe reuse: a value computed once at construction time (parsed URL, compiled template, rendered constant string) instead of per request, where it does not depend on the request; a shared immutable table
  - a safe fast path: skipping work that is provably a no-op for the case at hand (an empty slice, a nil map, len==0) without changing what reaches the other side
  - bounded resources that the properties allow: a larger channel buffer where order is kept and nothing can be dropped, a configurable limit whose default is today's value, a timeout that only covers the agent's own bookkeeping
  - a small orthogonal feature: a -version flag, a debug/stats endpoint on the agent's or proxy's OWN surface that cannot collide with proxied paths, an extra response header on the proxy's own error answers (never on proxied responses), logging of timings, a start-up self-check
  - observability in the hot path done right: counters and timings taken without locks or blocking calls on request/response paths, recorded after the fact
  - clean shutdown details that keep the stated behaviour: closing idle connections after polling has ended, stopping tickers, cancelling derived contexts that nothing in flight depends on
  - library modernisation and simplification with identical semantics (io/ioutil -> io, strings.Cut, errors.Is where the wrapped set is unchanged, time.Since, http.MethodX constants, net.JoinHostPort)
Do NOT deliver a change if you are not sure all 20 properties still hold (e.g. never add or alter headers/bytes of proxied requests or responses, never add buffering or waiting on a streaming path, never widen who is authorised, never let shared state escape its lock, never make a per-request failure fatal). Do not fix what you think are bugs in the property-relevant logic.

For EACH change k = 1..6:
1. Start from a clean tree (`git checkout -- .` and `git clean -fdq -e out`), make the change, save it with `git diff > {wt}/out/r$k/patch.diff` (create out/r$k first; `git add -N` new files first so they are in the diff; also create the file out/go.mod containing the single line `module refout` once). The diff must apply with `git apply` on the clean worktree.
2. Verify: `go build ./...` and the existing tests pass: `go test -vet=off -count=1 $(go list ./... | grep -v '/agent$')` (package `agent` has 4 tests that already fail in this sandbox and take 2 minutes; skip it unless you changed agent/agent.go, in which case run `go test -vet=off -count=1 -run 'TestWithInMemoryProxyAndBackend$' ./agent/` and accept a sandbox-related failure only if it fails the same way on the clean tree).
3. Write out/r$k/README.md: the kind, the functions touched, what changes observably, and two or three sentences arguing why none of the 20 properties is affected (name the properties that are closest to the change).

Leave the worktree clean at the end (out/ stays, untracked). Your final message must list r1..r6 with kind, functions touched, the observable change and the verification result.""")

#!/usr/bin/env python3
"""Assembles /verif/DESIGN.md from design/*.md (hand-written) and the rule
tables of the evidence files + the corpus metadata (generated section 3)."""
import json, os, glob, textwrap

ROOT = os.path.dirname(os.path.dirname(os.path.abspath(__file__)))


def read(p):
    return open(os.path.join(ROOT, p)).read()


props = {}
for l in open(os.path.join(ROOT, "properties.jsonl")):
    p = json.loads(l)
    props[p["id"]] = p

corpus = {}
for d in sorted(glob.glob(os.path.join(ROOT, "seeded", "*"))):
    mp = os.path.join(d, "meta.json")
    if not os.path.exists(mp):
        continue
    m = json.load(open(mp))
    ids = [m["property"]] + m.get("also_detected_by_properties", [])
    for pid in ids:
        corpus.setdefault(pid, []).append((os.path.basename(d), m))

manifest = json.load(open(os.path.join(ROOT, "MANIFEST.json")))
levels = {c["property_id"]: (c["level_claimed"]["category"], c.get("technique", "")) for c in manifest["checks"]}

out = []
out.append("## 3. Per-property checks (generated from the last evidence run)\n")
out.append(textwrap.dedent("""\
    Conventions. *Decided* is the clause of the statement the rules decide — always a structural
    necessary condition whose breach breaks the stated behaviour — and the part that is **not**
    decided is named in the same paragraph. *Rules* lists every rule with the number of instances
    (obligations) it matched on the current tree; a rule matching fewer instances than were confirmed
    by hand fails the check. *Catches* lists the confirmed property-breaking changes of
    `/verif/seeded` that the thorough tier re-applies as overlays and that must be reported
    (`Cnn-mk`, `Cnn-r2-mk` = changes written by independent sub-agents from the property text alone, rounds 1 and 2,
    `Fnn-revert` = reversal of a `fix:` commit). Cost is ≈1–2 s (quick) unless noted.
    """))
for pid in sorted(props):
    p = props[pid]
    evp = os.path.join(ROOT, "evidence", pid + ".json")
    if not os.path.exists(evp):
        continue
    ev = json.load(open(evp))
    cov = ev["coverage"]
    lvl, tech = levels.get(pid, ("-", ""))
    out.append(f"### {pid} — {p['title']}  (level: {lvl})\n")
    out.append(f"*Technique:* {tech}.\n")
    out.append("*Decided / not decided.* " + cov["explanation"] + "\n")
    if ev.get("assumptions"):
        out.append("*Assumes:* " + "; ".join(ev["assumptions"]) + ".\n")
    extra = os.path.join(ROOT, "design", "notes", pid + ".md")
    if os.path.exists(extra):
        out.append(open(extra).read().rstrip() + "\n")
    out.append("| rule | what it checks | instances |\n|---|---|---|")
    for r in cov["rules"]:
        if r["rule"].startswith("T."):
            continue
        out.append(f"| {r['rule']} | {r['what']} | {r['instances']} |")
    out.append("")
    cs = corpus.get(pid, [])
    if cs:
        out.append("*Catches (self-validation corpus):*\n")
        for cid, m in cs:
            own = "" if m["property"] == pid else f" (written for {m['property']})"
            out.append(f"* `{cid}`{own} — needs: {m['needs_to_manifest']}. Reported by: {m.get('detected_by','')}.")
        out.append("")

gen = "\n".join(out)
parts = [read("design/00_intro.md"), read("design/10_arch.md"), "\n---------------------------------------------------------------------------\n", gen,
         "\n---------------------------------------------------------------------------\n", read("design/40_findings.md")]
open(os.path.join(ROOT, "DESIGN.md"), "w").write("\n".join(parts))
print("DESIGN.md written:", sum(len(x) for x in parts), "bytes")

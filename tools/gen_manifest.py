#!/usr/bin/env python3
"""Writes /verif/MANIFEST.json from the table below (one source of truth)."""
import json, os

ROOT = os.path.dirname(os.path.dirname(os.path.abspath(__file__)))

BASELINE = ("for m in $(cat /w/out/gomods.txt); do MF=$(cd /repo/$m && . /w/out/goenv.sh && gomodflag); "
            "(cd /repo/$m && go test $MF -json -vet=off -count=1 -timeout 25m ./...); done")

NOTE = ("trusted base: go/types, go/packages, x/tools v0.29.0 go/ssa + dominators + VTA call graph, the frozen "
        "tables in checker/ipc (each line derived by reading the pinned tree), documented semantics of sync.Mutex, "
        "channels, io.Pipe and net/http. The check decides the structural clauses named in level_claimed.text and "
        "nothing else; the behavioural remainder is listed as 'Not decided' in DESIGN.md section 3 and in the evidence file.")

# id -> (claimed?, level, technique, text, design_ref)
CHECKS = {}


def claim(pid, technique, text, level="other"):
    CHECKS[pid] = (level, technique, text)


PENDING = {}


def pending(pid, reason):
    PENDING[pid] = reason


exec(open(os.path.join(ROOT, "tools", "claims.py")).read())

checks = []
for pid in sorted(CHECKS):
    level, technique, text = CHECKS[pid]
    checks.append({
        "property_id": pid,
        "quick_cmd": f"bin/check {pid} quick",
        "thorough_cmd": f"bin/check {pid} thorough",
        "evidence_file": f"/verif/evidence/{pid}.json",
        "replay_cmd_template": f"bin/check {pid} quick  # static finding: the evidence file {{path}} holds rule, construct and path",
        "engine": "ipcheck",
        "level_claimed": {"category": level, "text": text, "design_ref": f"DESIGN.md section 3, {pid}"},
        "level_note": NOTE,
        "technique": technique,
    })

manifest = {
    "version": 1,
    "setup_cmd": "cd checker && GOFLAGS=-mod=mod GOPROXY=off GOSUMDB=off GOTOOLCHAIN=local go build -o ../bin/ipcheck ./cmd/ipcheck",
    "hooks": {
        "guard": "verif",
        "enable": "n/a: static analysis needs no instrumentation; there are no hooks in /repo",
        "baseline_off_cmd": BASELINE,
        "source_commits": [],
        "add_only": True,
    },
    "engines": [{
        "name": "ipcheck",
        "path": "checker/",
        "serves_properties": sorted(CHECKS),
        "kind_free_text": "repository-specific static analyser (go/packages + go/types + go/ssa + VTA call graph): lockset, dominance/must-pass-through, value provenance, channel typestate, who-may-call tables, sibling agreement, partial evaluation of comparisons, interval analysis",
    }],
    "checks": checks,
    "not_applicable": [{"property_id": k, "reason": v} for k, v in sorted(PENDING.items())],
    "notes": "Technique family: static analysis only. Every check re-loads and re-type-checks /repo's working tree. Genuine defects found are in known_findings.json (open = suppress exactly one obligation key each; fixed = repaired by a fix: commit, suppresses nothing).",
}
with open(os.path.join(ROOT, "MANIFEST.json"), "w") as f:
    json.dump(manifest, f, indent=1)
    f.write("\n")
print("claimed", len(checks), "not_applicable", len(PENDING))

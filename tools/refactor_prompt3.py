import sys
n=sys.argv[1]; files=sys.argv[2]; wt='/root/scratch/rfc-%s'%n
print(f"""You are working in a scratch git worktree of the Go project google/inverting-proxy (an HTTP "inverting" reverse proxy: an agent long-polls a proxy for client requests, forwards them to a backend and streams responses back; includes a websocket shim, session-cookie tracking, a banner injector, a TCP-over-websocket bridge and an App Engine proxy under app/) at {wt}. Work ONLY under {wt} (never touch or read /repo or /verif). The sandbox is offline. In EVERY shell call first run:
  export GOFLAGS=-mod=mod GOPROXY=off GOSUMDB=off GOTOOLCHAIN=local; unset GOWORK

Your task: produce SIX independent, realistic, strictly BEHAVIOUR-PRESERVING refactorings of the non-test source in: {files}
They are used to test a static analyser for false alarms, so each must leave the observable behaviour of the program exactly unchanged for every input, schedule and fault (same requests/responses/headers/bytes, same locking and goroutine structure as far as any observer can tell, same error handling, same exit behaviour) — the kind of clean-up a careful maintainer would merge without discussion. This round is about COMBINED refactorings as they occur in real clean-up commits: each of the six should combine two or three kinds (e.g. rename a function AND extract part of it into a helper AND reorder its guard clauses; turn a closure into a method AND rename its captured variables; move a type to a new file AND rename one of its fields AND convert an if-chain to a switch). Make them as different from each other as possible; use a different kind for each, for example:
  - split a long function into two or three helper functions/methods called in sequence; or merge two small helpers into their caller
  - turn a closure (function literal, goroutine body, deferred literal, handler literal) into a named function or method taking the captured variables as parameters - or the reverse
  - turn a function into a method of a type it mainly operates on (or a method into a function); change a value receiver/pointer parameter consistently where equivalent
  - de-duplicate two or three repeated code fragments into one helper; or duplicate a tiny helper into its two call sites
  - group several parameters or locals into a small unexported struct; or ungroup
  - named results <-> explicit returns; single exit <-> early returns; loop with break <-> loop with condition; labelled break/continue restructuring; flatten or nest conditionals
  - replace hand-written code by an exactly equivalent standard-library call (or the reverse), e.g. strings.Cut/HasPrefix/TrimPrefix, copy, append(dst, src...), http.Error vs WriteHeader+Write ONLY if the written bytes and headers are identical
  - change how a value is threaded (parameter vs captured variable vs struct field set once before use) without changing when it is read or written
  - move declarations/functions/types between positions or between files of the same package
(the smaller kinds below are also fine for at most two of the six:)
  - rename an unexported function or method (and all its uses); rename a struct field; rename an unexported type; rename parameters / locals; rename a package-level variable or constant
  - extract a helper function (or method) from a block and call it; inline a small helper at its only call site
  - reorder independent statements; swap the order of independent struct fields or declarations; move a function to another position in the file
  - if/else <-> early return / continue; switch <-> if-chain; invert a condition and swap the branches; `a >= b` <-> `!(a < b)`; for-range <-> index loop
  - introduce or remove an intermediate variable; replace a literal by a named constant (same value); `x += 1` <-> `x++`
  - equivalent standard-library idiom (e.g. `strings.HasPrefix` kept but arguments computed earlier; `fmt.Errorf` <-> `errors.New` for constant strings; `defer mu.Unlock()` <-> explicit unlock on every path ONLY where trivially equivalent; method value vs closure)
  - reword a log message or comment, re-wrap long lines, gofmt-only changes
Spread them over different functions; prefer the functions that carry the core logic of these files (request/response handling, locking, retry/back-off, header handling, channel use) over trivial getters. Do NOT change behaviour "slightly for the better", do not fix bugs, do not add features, do not change exported API used by other packages except by renaming consistently everywhere (including tests if a test references the renamed identifier - tests may be edited ONLY for such consistent renames).

For EACH refactoring k = 1..6:
1. Start from a clean tree (`git checkout -- .`; NEVER use `git stash`), make the change, save it with `git diff > {wt}/out/r$k/patch.diff` (create out/r$k first; also create the file out/go.mod containing the single line `module refout` once). The diff must apply with `git apply` on the clean worktree.
2. Verify: `go build ./...` and `go vet ./... || true`, and the existing tests pass: `go test -vet=off -count=1 $(go list ./... | grep -v '/agent$')` (package `agent` has 4 tests that already fail in this sandbox and take 2 minutes; skip it).
3. Write out/r$k/README.md: one line saying what kind of refactoring it is and which identifiers/functions it touches, and one or two sentences arguing why behaviour is unchanged.

Leave the worktree clean at the end (`git checkout -- .`; out/ stays, untracked). Your final message must list r1..r6 with kind, functions touched and the verification result. If you are not fully sure a change is behaviour-preserving, do not deliver it.""")

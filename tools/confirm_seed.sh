#!/bin/bash
# usage: tools/confirm_seed.sh <dir with patch.diff + demo file(s)> <package dir rel. to repo> <go test -run regex> [extra go test flags…]
# Confirms a seeded change in a scratch worktree of /repo HEAD:
#   clean tree: demo passes; with the patch: builds, existing tests pass, demo fails.
# Prints a summary block; exit 0 iff all four facts hold.
set -u
src="$1"; pkg="$2"; run="$3"; shift 3; flags="$*"
export GOFLAGS=-mod=mod GOPROXY=off GOSUMDB=off GOTOOLCHAIN=local; unset GOWORK
wt=/root/scratch/confirm-$$
git -C /repo worktree add -q --detach "$wt" HEAD || exit 2
cleanup() { git -C /repo worktree remove --force "$wt" >/dev/null 2>&1; }
trap cleanup EXIT
cd "$wt" || exit 2
for f in "$src"/*_test.go "$src"/*.go; do [ -f "$f" ] && cp "$f" "$pkg/"; done 2>/dev/null
demo() { timeout 300 go test -vet=off -count=1 -timeout 240s $flags -run "$run" "./$pkg/" >"$wt/.demo.log" 2>&1; echo $?; }
r_clean=$(demo); tail -3 "$wt/.demo.log" | sed 's/^/  clean| /'
git apply "$src/patch.diff" || { echo "RESULT patch-does-not-apply"; exit 1; }
go build ./... >"$wt/.build.log" 2>&1; r_build=$?
go test -vet=off -count=1 -timeout 600s $(go list ./... | grep -v '/agent$') >"$wt/.suite.log" 2>&1; r_suite=$?
# the demo itself lives in a package of the suite: ignore its failure there
if [ $r_suite -ne 0 ]; then
  # rerun the suite without the demo file
  for f in "$src"/*_test.go; do [ -f "$f" ] && rm -f "$pkg/$(basename "$f")"; done
  go test -vet=off -count=1 -timeout 600s $(go list ./... | grep -v '/agent$') >"$wt/.suite.log" 2>&1; r_suite=$?
  for f in "$src"/*_test.go; do [ -f "$f" ] && cp "$f" "$pkg/"; done
fi
grep -E '^(FAIL|---)' "$wt/.suite.log" | head -5 | sed 's/^/  suite| /'
r_mut=$(demo); grep -E '^(---|FAIL|panic|fatal|WARNING: DATA RACE|\s+\S+_test.go)' "$wt/.demo.log" | head -6 | sed 's/^/  mutant| /'
echo "RESULT demo_on_clean_exit=$r_clean build_with_patch_exit=$r_build existing_suite_with_patch_exit=$r_suite demo_with_patch_exit=$r_mut"
[ "$r_clean" = 0 ] && [ $r_build = 0 ] && [ $r_suite = 0 ] && [ "$r_mut" != 0 ]

#!/bin/bash
# usage: tools/try_refactor.sh <patch.diff>  -> runs all 20 quick checks on the patched scratch tree; prints the reports (silent = good)
patch="$(readlink -f "$1")"
wt=${TRY_WT:-/root/scratch/wt-try}
cd /verif || exit 2
if [ ! -d "$wt" ]; then git -C /repo worktree add -q --detach "$wt" HEAD || exit 2; fi
git -C "$wt" checkout -q --detach "$(git -C /repo rev-parse HEAD)" 2>/dev/null; git -C "$wt" checkout -- . ; git -C "$wt" clean -fdq
git -C "$wt" apply "$patch" || { echo "patch does not apply"; exit 2; }
out=/tmp/try_patch_ev_$$; mkdir -p $out/evidence; cp known_findings.json $out/
${IPCHECK:-bin/ipcheck} -aliases -repo "$wt" | sed 's/^/  alias| /'
${IPCHECK:-bin/ipcheck} -property all -repo "$wt" -verif $out 2>&1 | grep -E 'VIOLATED|UNDECIDED|FAILED' | cut -c1-260
rm -rf $out
git -C "$wt" checkout -- . ; git -C "$wt" clean -fdq

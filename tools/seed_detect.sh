#!/bin/bash
# usage: tools/seed_detect.sh <patch.diff> <property ids>  -> prints "RULE key; RULE key" of the reports (empty = silent)
/verif/tools/try_patch.sh "$1" "$2" 2>&1 | grep -E '^\s*(VIOLATED|UNDECIDED|FAILED)' | sed -E 's/^\s*(VIOLATED|UNDECIDED|FAILED) [^ ]+ \[([^]]+)\] [^|]+\|([^:]+:[^ :]+|[^ :]+).*/\2 \3/' | sort -u | tr '\n' ';' | sed 's/;$/\n/; s/;/; /g'

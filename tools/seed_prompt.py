import sys
pid=sys.argv[1]
rnd=sys.argv[2] if len(sys.argv)>2 else ''
wt='/root/scratch/seed%s-%s'%(rnd,pid)
import json
prop=[json.loads(l) for l in open('/verif/properties.jsonl') if json.loads(l)['id']==pid][0]
prop=prop['title']+'\n\n'+prop['statement']
print(f"""You are working in a scratch git worktree of the Go project google/inverting-proxy (an HTTP "inverting" reverse proxy: an agent long-polls a proxy for client requests, forwards them to a backend and streams responses back; includes a websocket shim, session-cookie tracking, a banner injector, a TCP-over-websocket bridge and an App Engine proxy under app/) at {wt}. Work ONLY under {wt} (never touch /repo or /verif, never look at /verif). The sandbox is offline (loopback networking works). In EVERY shell call first run:
  export GOFLAGS=-mod=mod GOPROXY=off GOSUMDB=off GOTOOLCHAIN=local; unset GOWORK

Here is a semantic property that the code base is supposed to satisfy:

--- PROPERTY {pid} ---
{prop}
--- END ---

Your task: produce THREE independent, realistic changes (call them m1, m2 and m3). They must be as different from each other as possible: each in a different function and, where the code base allows it, in a different source file; each aimed at a different clause or aspect of the property; each using a different mechanism (e.g. one ordering/locking problem, one wrong value or wrong object used, one mishandled input class or fault path) to the non-test source of the project, each of which BREAKS this property while the project still compiles and the existing test suite still passes. Think of the kind of regression a well-meaning developer could introduce in a refactor, an optimisation, a "simplification" or a feature tweak — not sabotage that ordinary use would expose at once. Prefer changes that need something specific to manifest: a particular interleaving of goroutines, a failure/fault at a particular point, a multi-step sequence of operations, an unusual but legal input, or two cooperating sites that each look fine alone. Keep each change small (a few lines to ~25 lines), do not edit or delete existing tests, do not add build tags.

For EACH change:
1. Start from a clean tree (`git checkout -- .` between the changes; NEVER use `git stash`: the stash is shared with other worktrees of this repository), make the change, and save it as a unified diff with `git diff > {wt}/out/mN/patch.diff` (non-test source only; create the out/mN directory first, and create a file out/go.mod containing the single line `module seedout` so that `go list ./...` ignores the demo files under out/; the diff must apply with `git apply` on the clean worktree).
2. Write a demonstration — a new Go test file (or small program) — that FAILS (or reports a data race with -race, or hangs until a timeout you set, or crashes) WITH the change applied and PASSES WITHOUT it. Save it under out/mN/ (e.g. out/mN/demo_test.go) together with a line in out/mN/README.md saying into which package directory it must be copied and the exact command to run it (e.g. `go test -vet=off -race -count=1 -run TestDemo ./agent/utils/`). Make the demo reasonably deterministic (loops, channels for synchronisation; timeouts ≤ 60 s).
3. Verify yourself: (a) with the change applied, `go build ./...` succeeds and the existing tests pass: `go test -vet=off -count=1 $(go list ./... | grep -v '/agent$')` (package `agent` has 4 tests that already fail in this sandbox and takes 2 minutes; run it only if your change touches agent/agent.go, and then only with `-run 'XXX_none'`-style filters that skip TestGracefulShutdown, TestHTTP2Backend, TestWithInMemoryProxyAndBackend, TestWithInMemoryProxyAndBackendWithSessions); (b) the demo fails with the change; (c) the demo passes on the clean tree.
4. In out/mN/README.md also write: which clause of the property the change breaks, and what it needs in order to manifest (interleaving / fault / sequence / input).

Leave the worktree clean at the end (`git checkout -- .`; the out/ directory stays, untracked). Your final message must list, for m1, m2 and m3: the files changed, a one-paragraph description, what it needs to manifest, the demo command, and the observed outputs of steps 3(a)-(c). If you cannot find three distinct changes, deliver those you found and say so.""")

#!/bin/bash
# usage: tools/save_seed.sh <id> <src dir> <property> <confirm log> <needs> <detected-by>
id=$1; src=$2; prop=$3; log=$4; needs="$5"; caught="$6"
grep -q 'demo_on_clean_exit=0 build_with_patch_exit=0 existing_suite_with_patch_exit=0 demo_with_patch_exit=[1-9]' "$log" || { echo "NOT CONFIRMED: $id"; grep RESULT "$log"; exit 1; }
d=/verif/seeded/$id; mkdir -p $d; cp $src/patch.diff $d/
for f in $src/*_test.go; do [ -f $f ] && cp $f $d/$(basename $f).txt; done
[ -f $src/README.md ] && cp $src/README.md $d/
python3 - "$d" "$prop" "$needs" "$(grep RESULT $log)" "$caught" <<'PY'
import json,sys
d,prop,needs,ran,caught=sys.argv[1:6]
json.dump({"property":prop,"needs_to_manifest":needs,"confirmed_by":"tools/confirm_seed.sh in a scratch worktree of /repo HEAD (removed afterwards): "+ran,"detected_by":caught},open(d+'/meta.json','w'),indent=1)
PY
echo saved $id

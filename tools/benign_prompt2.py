#!/usr/bin/env python3
"""usage: benign_prompt.py <n> "<files>"  — prompt for an independent sub-agent that produces
property-PRESERVING maintenance changes (behaviour may change, none of the 20 properties may break).
The agent gets the property texts and a scratch worktree; nothing else from /verif."""
import sys, json
n=sys.argv[1]; files=sys.argv[2]; wt='/root/scratch/rff-%s'%n
props="\n".join("  %s. %s — %s"%(d['id'],d['title'],d['statement']) for d in map(json.loads,open('/verif/properties.jsonl')))
print(f"""You are working in a scratch git worktree of the Go project google/inverting-proxy at {wt} (an HTTP "inverting" reverse proxy: an agent long-polls a proxy for client requests, forwards them to a backend and streams responses back; includes a websocket shim, session-cookie tracking, a banner injector, a TCP-over-websocket bridge and an App Engine variant of the proxy). The sandbox is offline; in every shell call first run:
  export GOFLAGS=-mod=mod GOPROXY=off GOSUMDB=off GOTOOLCHAIN=local; unset GOWORK
Never kill processes by name (no pkill/killall), never use `git stash`, work only inside {wt}.

Users of this project rely on the following 20 properties:
{props}

Your task: produce SIX independent, realistic MAINTENANCE CHANGES to the non-test source in: {files}
These are the kind of commits a maintainer makes in normal work. Unlike a pure refactoring they MAY change observable behaviour — but every one of the 20 properties above must still hold afterwards, for every input, schedule and fault. They are used to test a static analyser for false alarms, so the interesting ones are those that touch the code the properties are about (request/response paths, locking, retry and back-off, header handling, channels, handlers, cookie/session code, routing, authorisation) without breaking any of them. Kinds (use six different ones):
  - structured logging: introduce a small unexported logger helper (a type with methods or a few functions that add a prefix / request ID to the *log line*) and route the existing log calls of these files through it
  - context plumbing: add a context.Context parameter to one or two functions that do not have one and pass it down from their callers, using it only where that cannot cancel or delay anything that is not cancelled or delayed today (e.g. only for logging/tracing values, or deriving nothing from it)
  - error taxonomy: introduce sentinel errors or a small error type and use errors.Is / errors.As in the callers, with identical decisions and identical status codes
  - configuration: gather related flags / constants into a small unexported config struct that is filled once in main or in a constructor and passed along (same values reach the same places)
  - testability seams: replace direct calls of time.Now / time.After / rand / uuid by package-level function variables or small interfaces that default to the same functions
  - signature evolution: add, reorder or remove (unused) parameters of unexported functions and adapt all call sites; return an additional value that existing callers ignore; turn a bool parameter into two named helper functions
  - resource hygiene: stop tickers/timers, close response bodies that were leaked, release goroutines that would otherwise linger after an error - without waiting on or buffering any streaming path
  - lint clean-up: fix go vet / staticcheck style findings (deferred call arguments evaluated early, error strings, receiver names, shadowed variables, unused parameters named _, redundant type conversions, simplifiable conditionals, an `if err != nil` return followed by `return nil`)
  - generics / modern syntax where the Go version allows: any, min/max builtins, for-range over integers ONLY if go.mod allows it (check!), strings.Cut, slices/maps helpers only if available
  - documentation and examples: package docs, runnable Example functions or new unit tests for existing behaviour (tests may be added in new _test.go files; they must pass)
  - small orthogonal features: a -version flag, logging the effective configuration at start-up, an additional log line or counter at shutdown, a configurable log prefix
Do NOT deliver a change if you are not sure all 20 properties still hold (e.g. never add or alter headers/bytes of proxied requests or responses, never add buffering or waiting on a streaming path, never widen who is authorised, never let shared state escape its lock, never make a per-request failure fatal). Do not fix what you think are bugs in the property-relevant logic.

For EACH change k = 1..6:
1. Start from a clean tree (`git checkout -- .` and `git clean -fdq -e out`), make the change, save it with `git diff > {wt}/out/r$k/patch.diff` (create out/r$k first; `git add -N` new files first so they are in the diff; also create the file out/go.mod containing the single line `module refout` once). The diff must apply with `git apply` on the clean worktree.
2. Verify: `go build ./...` and the existing tests pass: `go test -vet=off -count=1 $(go list ./... | grep -v '/agent$')` (package `agent` has 4 tests that already fail in this sandbox and take 2 minutes; skip it unless you changed agent/agent.go, in which case run `go test -vet=off -count=1 -run 'TestWithInMemoryProxyAndBackend$' ./agent/` and accept a sandbox-related failure only if it fails the same way on the clean tree).
3. Write out/r$k/README.md: the kind, the functions touched, what changes observably, and two or three sentences arguing why none of the 20 properties is affected (name the properties that are closest to the change).

Leave the worktree clean at the end (out/ stays, untracked). Your final message must list r1..r6 with kind, functions touched, the observable change and the verification result.""")

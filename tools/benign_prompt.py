#!/usr/bin/env python3
"""usage: benign_prompt.py <n> "<files>"  — prompt for an independent sub-agent that produces
property-PRESERVING maintenance changes (behaviour may change, none of the 20 properties may break).
The agent gets the property texts and a scratch worktree; nothing else from /verif."""
import sys, json
n=sys.argv[1]; files=sys.argv[2]; wt='/root/scratch/rfe-%s'%n
props="\n".join("  %s. %s — %s"%(d['id'],d['title'],d['statement']) for d in map(json.loads,open('/verif/properties.jsonl')))
print(f"""You are working in a scratch git worktree of the Go project google/inverting-proxy at {wt} (an HTTP "inverting" reverse proxy: an agent long-polls a proxy for client requests, forwards them to a backend and streams responses back; includes a websocket shim, session-cookie tracking, a banner injector, a TCP-over-websocket bridge and an App Engine variant of the proxy). The sandbox is offline; in every shell call first run:
  export GOFLAGS=-mod=mod GOPROXY=off GOSUMDB=off GOTOOLCHAIN=local; unset GOWORK
Never kill processes by name (no pkill/killall), never use `git stash`, work only inside {wt}.

Users of this project rely on the following 20 properties:
{props}

Your task: produce SIX independent, realistic MAINTENANCE CHANGES to the non-test source in: {files}
These are the kind of commits a maintainer makes in normal work. Unlike a pure refactoring they MAY change observable behaviour — but every one of the 20 properties above must still hold afterwards, for every input, schedule and fault. They are used to test a static analyser for false alarms, so the interesting ones are those that touch the code the properties are about (request/response paths, locking, retry and back-off, header handling, channels, handlers, cookie/session code, routing, authorisation) without breaking any of them. Kinds (use six different ones):
  - better diagnostics: add/extend log lines (incl. logging values that are already at hand), wrap errors with %w and more context, reword error texts sent in response bodies of error answers (status codes unchanged)
  - a new optional command-line flag whose default keeps today's behaviour (e.g. a configurable timeout/limit/interval that stays within what the properties allow, a -verbose flag, a flag for the poll window)
  - observability: count something in a new package-level atomic counter or expvar, record a timing, add a debug-only endpoint on a path that does not collide with anything proxied — without putting a lock, a blocking call or buffering on a request/response path
  - robustness that the properties allow: an extra nil/empty/length check that rejects only inputs that were already rejected or crashed; a recover() that turns a panic of one request into an error answer for that request; closing something that leaked; context plumbing that cannot cancel anything earlier than today
  - API modernisation: io/ioutil -> io/os, interface{{}} -> any, strings.Cut, errors.Is/As, http.MethodGet constants, http.NewRequestWithContext where the context is the same one, sort -> slices ONLY if available in this Go version, time.Since etc.
  - tuning inside the limits the properties state (a different but still bounded/positive back-off constant, a larger channel buffer where that cannot reorder or drop, a different LRU size that is still at least as large, a longer timeout)
  - small performance work that keeps semantics (pre-sizing a slice/map, avoiding a copy of data that nobody else mutates, strings.Builder, hoisting a loop-invariant computation that has no shared mutable state)
  - code health: doc comments, a new unexported helper with a test-free trivial body, constant extraction, dead-code removal (only code that is provably unreachable/unused), consistent naming, splitting a file
  - a small new feature that is orthogonal to the 20 properties (e.g. a /healthz-style answer on the agent's own debug surface if it has one, printing the version, an extra field in a log line, an additional hop-by-hop-safe *response* to HEAD of the proxy's own status page) — must not add, remove or rewrite anything in proxied requests/responses
Do NOT deliver a change if you are not sure all 20 properties still hold (e.g. never add or alter headers/bytes of proxied requests or responses, never add buffering or waiting on a streaming path, never widen who is authorised, never let shared state escape its lock, never make a per-request failure fatal). Do not fix what you think are bugs in the property-relevant logic.

For EACH change k = 1..6:
1. Start from a clean tree (`git checkout -- .` and `git clean -fdq -e out`), make the change, save it with `git diff > {wt}/out/r$k/patch.diff` (create out/r$k first; `git add -N` new files first so they are in the diff; also create the file out/go.mod containing the single line `module refout` once). The diff must apply with `git apply` on the clean worktree.
2. Verify: `go build ./...` and the existing tests pass: `go test -vet=off -count=1 $(go list ./... | grep -v '/agent$')` (package `agent` has 4 tests that already fail in this sandbox and take 2 minutes; skip it unless you changed agent/agent.go, in which case run `go test -vet=off -count=1 -run 'TestWithInMemoryProxyAndBackend$' ./agent/` and accept a sandbox-related failure only if it fails the same way on the clean tree).
3. Write out/r$k/README.md: the kind, the functions touched, what changes observably, and two or three sentences arguing why none of the 20 properties is affected (name the properties that are closest to the change).

Leave the worktree clean at the end (out/ stays, untracked). Your final message must list r1..r6 with kind, functions touched, the observable change and the verification result.""")

# Executed by gen_manifest.py: claim(id, technique, text[, level]) / pending(id, reason)

claim("C01", "lockset + value-provenance (SSA access paths) + channel typestate",
      "Decides, for all schedules and any number of clients at once, the structural facts correlation rests on: the proxy's "
      "pending table and ID generator are only accessed under the proxy mutex (lockset over every access); the table key, the "
      "enqueued ID and the newID() result are one SSA value; the response copied to a client is the one received on that "
      "activation's own unbuffered channel (single receive site, not in a loop); the agent-facing endpoints use the request ID "
      "of their own call; (backend ID, request ID) travel in the right parameter roles from the pending list to the upload "
      "headers. no per-request closure, goroutine-in-loop or pool shares scratch memory or loop variables between activations; the App Engine proxy's GET response cache uses one injective key of (user, URL). session numbers are never given back; App Engine blob parts keep their order; the stand-alone proxy forces chunked framing so one request's response cannot be cut short into the next; an interim 1xx never latches a writer and a superseded upload attempt cannot take bytes of the retry (shared with C03.X, C06.X). no append builds on a slice reachable from a value shared between requests; session-table keys come from the atomic counter on every path. every ResponseWriter hands its slice whole to the underlying writer (no Content-Length guard truncates a body); memcache keys are injective in (backend, request). Not decided: interleavings inside net/http, ID collision probability, payload bytes.")

claim("C02", "who-may-write table over resolved mutation sites + sibling tables + construction-site checks",
      "Byte identity through net/http is not decided. Decides that nothing in this repository's code on the request path alters "
      "the request beyond a frozen, reasoned table (every Header Set/Add/Del/map store, AddCookie and field store on an "
      "*http.Request in the proxy's client path and the agent's handler chain is enumerated), that both hop-by-hop tables equal "
      "the RFC 7230 set, that the backend-facing proxy is httputil.NewSingleHostReverseProxy of a Scheme+Host URL without "
      "Director/Rewrite override, that the request object stored, serialised (Request.Write), parsed (private bufio.Reader) and "
      "served is one chain of custody, that the fetched reply body stays open until the request was forwarded, that no pooled buffers carry request bytes, that no fetch helper defers the cancel of the context its returned response still needs, that the agent never reads the body of the request it forwards, that the live value slices of request header fields are not sorted or overwritten in place (in any function of package agent), that the stored client request's body is touched by Request.Write only in the stand-alone proxy (no peeking reader left behind), that nothing follows the serialised request in the agent's reply, that no worker goroutine shares a loop variable with its siblings, and that no ServeMux/StripPrefix/TimeoutHandler sits on the pass-through route.")

claim("C03", "ownership-transfer rule + taint (tokeniser as sanitiser) + partial evaluation of status comparisons + dominance",
      "Byte identity through Response.Write/ReadResponse is not decided. Decides the repository-specific shapes the statement's "
      "input classes depend on: Header/Trailer maps of the response handed to the serialiser goroutine are private (no aliasing "
      "with the writer's fields, directly or through its accessor); declared-trailer names pass a comma tokeniser before being "
      "used as keys; 1xx statuses never latch a ResponseWriter or get published, all final statuses (incl. 101) do — evaluated "
      "for representative statuses of each class; every header/trailer copy is guarded by the hop-by-hop predicate on the same "
      "key and by no other filter; chunked framing is forced before serialisation; a final status after an interim one is still forwarded (two-call simulation of every ResponseWriter), retries restart through the refusing rewind and replay exactly the retained bytes (shared with C06.R/B), the stand-alone proxy forces chunked framing unconditionally, writer types grow no optional net/http interfaces; wrappers forward their own status and slice; the streaming writer's Close ends the body pipe cleanly on every path and nothing closes its write end with an error of the writer's own making; the stand-alone proxy publishes the trailers on every path that copied the body and the upload handler closes only its own ends; net/http's process-wide defaults are not reconfigured.")

claim("C04", "dominance / must-pass-through + confinement (escape) analysis + call-site uniqueness + channel typestate",
      "Decides for every order and grouping of pending-list replies: the worker start is control-dependent on the miss of the "
      "dedup lookup keyed by the very list element handed to the worker and every path through that branch records the key; the "
      "LRU never leaves the polling goroutine; its window is a constant ≥ 1000; every call site on the chain worker → ReadRequest "
      "→ callback → forwardRequest → ServeHTTP is unique and outside loops; the proxy has one send site for request IDs (not in a "
      "loop, unbuffered channel) and every received ID is appended to the returned reply; the proxy's http.Server arms no read/write deadline. no seen ID is ever taken out of the dedup cache; workers capture only variables of their own iteration; the agent hands every listed ID on (the parsed list is returned whole); Not decided: retries inside "
      "ReverseProxy/Transport, LRU eviction order.")

claim("C05", "deny-list over the static call closure of the response path + structural write-through / single-read rules",
      "Liveness is not decided. Decides that no structural obstacle to streaming exists on the response path: no "
      "accumulate-then-forward call (ReadAll, ReadFull, Buffer.ReadFrom, bufio writers, Copy into buffers) in the static call "
      "closure of the path's entry points; every Write forwards its own slice with one underlying Write outside loops; every "
      "upload-path Reader does one underlying Read per call outside loops; the serialiser does not wrap the body it writes; the "
      "two io.Pipes are wired as designed; chunked framing is forced; FlushInterval is negative or ≤ 1 s; the HTML splice does one "
      "bounded Read; the response is published from WriteHeader; the replay reader returns buffered bytes without first reading the source; no lock is held across a metrics RPC on the response path and the serialiser never blocks on metrics; recording a status code waits for no other goroutine; a writer latches at most once; the pipes of the response path are closed by their owners only (no watchdog or idle timer on the writer).")

claim("C06", "counted-loop evaluation + must-pass-through + truth tables by partial evaluation + lockset + pairing rules",
      "Decides for every fault sequence: at most three attempts (counted loop evaluated; the request is not replayable by net/http itself: no GetBody); every path from one client.Do to the "
      "next passes a rewind whose failure leaves the function; Seek refuses exactly when the retained prefix may be incomplete "
      "(writeHead vs len(buf), offset, whence evaluated on boundary values); the replay state is only touched under its mutex, "
      "each attempt reads through the handle returned by its own rewind and a stale generation never reaches the source; one failed chain of attempts is not restarted by an outer loop; the replay buffer retains exactly p[k:k+n] at writeHead (offset agreement on sample values); both "
      "forwarder goroutines close their pipe end and error channel on every exit, CloseWithError propagates failures, Close() "
      "drains both channels; a RoundTrip of the module sends once (no resend below the retry loop); reader/writer types declare no WriteTo/ReadFrom (io.Copy cannot bypass Read). Not decided: attempt bytes for a given fault offset inside http.Transport.")

claim("C07", "VTA call-graph reachability + lockset + shared-state inventory + channel typestate + nil-through-channel rule",
      "Decides the ways this code base can kill or wedge the whole agent from per-request code: no process-terminating call in "
      "module source is reachable (VTA, through stdlib callbacks) from the per-request worker; agent-side shared state is accessed "
      "under its mutex (exclusive lock, RLock does not count for mutating accessors); every shared map / non-goroutine-safe object "
      "is guarded, per-request or read-only after construction; the dedup LRU is confined to the poller; no unchecked type "
      "assertion on per-request paths; possibly-nil messages are nil-checked across the shim channels; no close of a multi-sender "
      "channel; published response maps are not aliased; JSON-decoded pointer elements are nil-tested; channels are closed only by their sole sender; one worker goroutine per fetched request, started without waiting for earlier ones; offsets found by searching one value only slice that value; no nil result travels with an error that was tested nil; shim sessions are forgotten only by close and failed polls; only reasoned fields of the reverse proxy are set; default 502 error handler. the forwarder never replaces the fetched request object; each shim queue has one sending side. the backend-facing transport dials through stateless hooks (no remembered failure); one garbled ID never fails the whole pending list. an externally supplied slice index has a non-negative lower bound; a response returned with an error is not dereferenced on that error's branch; net/http defaults are not reconfigured. Not decided: panics inside dependencies.")

claim("C08", "interval abstract interpretation over SSA on a complete finite partition + loop-structure rule",
      "The delay function touches its argument through one comparison and one shift, so the 64-bit argument range splits into "
      "T+3 classes; an interval interpreter (exact integers with overflow detection, outward-rounded floats, rand ∈ [0,1]) "
      "evaluates ExponentialBackoffDuration∘addJitter on every class and discharges: no overflow, result > 0, within ±j (j ≤ 0.1) "
      "of the target, targets double from ≈1 ms to the ≈3 s cap. Structurally: every failure path of the polling loop sleeps for "
      "the back-off of a counter that is +1 on failure and 0 on success, and every failure of the list call (non-200, transport "
      "error) surfaces as an error. Not decided: that time.Sleep sleeps that long.", level="proof")

claim("C09", "dominance under flag valuation (partial evaluation) + value provenance + helper inlining (one level)",
      "Decides for every client-supplied header set: the identity header is written with replace semantics (Set, or canonical-key "
      "map store, or Del+Add), its value is the user the proxy reported in its own reply header (App Engine side: the signed-in "
      "user through role-checked parameters), under -forward-user-id / -strip-credentials every path to the handler-chain "
      "invocation passes the write / the Authorization delete on the forwarded request itself (so shim dials are covered), nothing "
      "after the invocation, and the shim dials with stripWSHeader(request header), which only copies keys; no code of the chain (sessions, banner, websockets) writes Authorization or the user-ID header; the stand-alone proxy removes Connection from client requests before storing them (so the identity header cannot be named hop-by-hop).")

claim("C10", "lockset + must-pass-through under status valuation + literal-field provenance + string-equality truth table",
      "Decides for all requests, sessions and schedules: the session LRU is only touched under Cache.mu (exclusive); for every "
      "final status each path to wrapped.WriteHeader first deletes Set-Cookie from the forwarded header, the only Set-Cookie added "
      "is the session cookie literal on the no-session branch, Write cannot reach the wrapped writer before WriteHeader; 1xx does "
      "not latch; cookie literal attributes (HttpOnly, Path=/, Secure=!override, Expires=now+lifetime, name, fresh UUID); the "
      "session cookie is dropped and other client cookies kept (equality truth table), jars and cookie URL are the caller's own; the shim's open endpoint restores r.URL before the session handler runs; the backend-facing client of a session carries that session's jar only; the miss and the insertion of a session's jar happen under one hold of the cache mutex; the shim's open wrapper is the session handler of the configured cache. "
      "The session cache is keyed by the session ID itself. No response header or whole response is kept across requests in package agent or agent/sessions (no replay of another client's Set-Cookie). Not decided: cookiejar matching, LRU eviction, expiry arithmetic.")

claim("C11", "sibling agreement by partial evaluation + channel inventory + provenance of message fields",
      "Exactly-once/in-order over all histories is not decided. Decides the structural facts it rests on: encoder and decoder "
      "agree (same base64 object, same version polarity, same type constants); messages move only through two FIFO channels with "
      "one producer/consumer goroutine each; the data endpoint walks the decoded slice by index synchronously and aborts on the "
      "first error; writer and reader move (Type, Data) of exactly one message / one ReadMessage result; polls return every "
      "received message in receive order; injection parses the whole message, only adds missing keys, keeps the type and falls "
      "back to the original on error; session IDs are unique; a poll never discards messages it already took from the queue and reports an error only when the queue is closed and drained; each queue has one receiving side; the enqueueing select waits only for the queue and the connection's own end; a failed injection never returns before the enqueue; clientMessages is fed from one place (no fast path beside a backlog); the writer goroutine leaves its loop only for the connection's end (the close frame travels through the queue behind the data).")

claim("C12", "channel typestate + every-path-answers (must-pass-through) + status oracle + lifecycle pairing",
      "Decides for every call order and interleaving: no channel with concurrent senders is closed and closes happen once; every "
      "send reachable from an endpoint selects on the connection's done channel, receives have timer/default alternatives; every "
      "CFG path of the five endpoint handlers produces an HTTP answer with constant status in {200,400,408,500}; an unknown "
      "session leads only to 400, failed send/poll to 400, only close and a failed poll forget a session; concurrent opens get distinct IDs; a poll delivers what it received before reporting closed; reader/writer cancel the "
      "connection context on every exit, a goroutine closes the backend socket after Done, Close() makes the writer exit (the close frame is not queued behind a test of the closed channel); session-table keys are of a comparable concrete type. every store into the session table is keyed by the atomic increment on every path (no client-chosen IDs); recording a status code never waits for another goroutine; each queue has one sending side. an http.Error status that is not one constant has only allowed constants among its values; the dial response is not dereferenced where the dial error is set. Not "
      "decided: that gorilla's WriteMessage returns in bounded time on a dead peer.")

claim("C13", "must-assign (definite overwrite) per URL field + who-may-dial table + mounting/dispatch dominance",
      "Decides for every URL a client can submit: the dialled URL is String() of a copy of the request URL whose Scheme, Host, "
      "Opaque and User are each overwritten, on every path before String(), by a constant or the configured host; the shim "
      "package has one dial site whose URL is NewConnection's parameter, one NewConnection call site, no other network client, "
      "and the handshake response is never used (no redirect following); endpoints are mounted under path.Join(shimPath, const) "
      "under a slash-terminated prefix, and non-shim requests reach the wrapped handler with the original writer and request. the open endpoint delegates its own request (Host and headers are the front end's), never one constructed from the body; Not decided: DNS/proxy environment.")

claim("C14", "partial evaluation on predicate results + predicate truth tables + index/slice agreement",
      "The splice arithmetic on run-time strings is not decided. Decides that every alteration is gated: the banner writer is "
      "installed only when isHTMLRequest holds; for not-frameable responses WriteHeader mutates no header, writes no frame, forwards "
      "the status and lets the body pass; framed requests get the original body; frameable ones get the frame and the uncacheable / "
      "sameorigin headers; Write forwards iff writeBytes; 1xx does not latch; predicate truth tables (only GET, only 200, not "
      "attachment, content-type constants); the shim touches nothing (not even the body) unless Content-Type contains html, the new "
      "body is prefix+original (the only body installed; the original is not closed on a served path), and the script is inserted by Replace(…, 1) or by index and slice on the same string; the request URL is never rewritten in place in front of the banner, no append builds on a slice shared between requests; the frame source is targetURL.String() itself (HTML escaping aside); isAlreadyFramed believes Sec-Fetch-Dest/Mode without a Referer; the shim hook fails only on a raw non-EOF read error; rendered pages live in call-owned (not pooled or captured) buffers and the backend-facing proxy gets no Director/Transport override for injection.")

claim("C15", "sibling agreement (encoder/decoder) by partial evaluation + buffer-discipline provenance + pairing",
      "Byte-stream integrity for all sizes is not decided. Decides the codec/structure it rests on: Write sends one TextMessage "
      "carrying hex of its own argument and reports len(argument); Read accepts exactly that type, decodes the payload it just read, "
      "refills only when its buffer is empty and keeps the remainder from the returned count; no websocket read limit exists while "
      "Write is unsegmented; each bridging function copies a→b and b→a over the same pair with matching WaitGroup counts; non-bridge "
      "requests reach the pass-through handler with the original (w, r) and are never upgraded; both ends use one StreamingPath constant; the frontend dials only in the goroutine of an accepted client; no SO_LINGER>=0 on bridge sockets (= C16.A); goroutines started per accepted connection capture only per-iteration variables; the pass-through proxy is the stock single-host proxy; one websocket writer per connection; the dial context is not retained.")

claim("C16", "pairing: copy-loop completion must reach a close of the pair; acquisition/release pairing",
      "Timing is not decided. Decides the structural obstacle the property names: in each bridging function, when either "
      "direction's io.Copy returns that goroutine closes the connections of the pair (directly or via a closure that does), "
      "independently of its sibling — an expired deadline or a conditional close is not accepted — and every acquired connection "
      "(Upgrade, Dial, Accept, DialWebsocket) has a deferred Close; no SO_LINGER≥0 is armed and no raw descriptor is taken from a bridge socket; an acquisition is followed by its deferred Close on every path; a wrapper's Close never takes a lock that is held across blocking I/O; every websocket dial of the bridge is bounded (DefaultDialer, positive HandshakeTimeout or deadline context); the connection types define no ReadFrom/WriteTo of their own (io.Copy returns only when its bytes were written); a wrapper's Close writes nothing unbounded to the websocket; a closing closure closes on every path; no websocket read limit while writes are unsegmented.")

claim("C17", "dominance + provenance (validated value) + sibling agreement of Store implementations + partial evaluation",
      "Identity values come from App Engine. Decides for all callers and orders: in each agent endpoint checkBackendID dominates "
      "every store/helper call, only 401 is reachable from its failure branch, every backendID argument is its result, the check "
      "returns the ID it checked for the OAuth e-mail only when allowed; the store compares with == and denies missing records; "
      "admin CRUD is unreachable for non-admins (403), the cron arm is the only exception and api.yaml restricts it; end users are "
      "looked up by their own e-mail and only EndUser-filtered backends are considered; the caching store is stateless, delegates "
      "with its own parameters (purely for access/routing decisions) and all keys are injective (%q) and role-consistent; the GET response cache key renders the user's e-mail and the URL themselves (no masked or normalised user tag); sentinels of other packages are compared on the raw error (a wrapped ErrNoSuchEntity would answer unknown IDs differently from forbidden ones).")

claim("C18", "dominance (liveness gate) + truth tables by partial evaluation + purity/determinism of the selection function",
      "Full equivalence with a longest-prefix specification is not decided. Decides: every backend ID returned by the lookups "
      "passed hasBackend(<same ID>, 5 min); hasBackend is 'seen and Since < timeout' on boundary values; the shared lookup runs only "
      "when the user has no match; the lookup is keyed by the decoded r.URL.Path; failure is 404 before any store write; a successful registerBackendAsSeen has written the tracker with time.Now(); the store's list call returns only after it ran, under the caller's context; the selection function is pure and deterministic, updates "
      "its best candidate only under HasPrefix(path, p) and only when there is none yet or len(p) > len(best), records ID and prefix "
      "of the same backend, and errors exactly when there is no match; neither loop is left early (every prefix of every backend is compared); no cache or memo sits in front of the routing decision; the store call that records a backend as seen is made by the agent-facing wait loop only; identity fields of backend definitions are stored as registered (no normalisation that changes the allUsers sentinel) and the candidate queries carry no Limit/Offset/cursor; the lookup receives user.Current().Email.")

claim("C19", "provenance of IDs and bytes + sibling key agreement + path-sensitive send counting vs. channel capacity + pairing",
      "Blob arithmetic at the 1 MB boundaries is not decided. Decides: the client path stores and awaits under the same (backend, "
      "request ID) pair and parses the bytes it awaited; nothing parses the form or reads the body of the client request before it is serialised; agent endpoints use the validated backend and the header's request ID; a "
      "response is stored only when the request exists under that pair; datastore keys agree between write and read, blob parts are "
      "read with one ordered GetMulti in the recorded order without goroutines; Completed=true is set on the read request before it "
      "is written back and the pending query filters it; every error channel's capacity covers its possible senders, WaitGroup "
      "counts match, both wait loops are bounded by WithTimeout(constant), no cycle of them avoids the Done select, and a time-out maps to 504 on every path; the caching store delegates with its own parameters (context included); cache keys are injective in (backend ID, request ID); the GET response cache key is injective in (user, URL), components verbatim; every return of postResponse passed the write of the response or an error report; of the goroutines a store function starts at most one assigns a captured result; the wait loops get no context with a caller-made deadline.")

claim("C20", "dominance + who-may-call + partial evaluation of health/threshold comparisons + confinement of the polling context",
      "Exit times are not decided. Decides the ordering and counting structure: waitForHealthy dominates the adapter start and "
      "cannot return while enabled checks fail; only pollForNewRequests ← runAdapter ← main polls; healthCheck is nil only for 200; "
      "the failure counter is +1 on failure, 0 on success, starts at 0, and the terminating call is reachable exactly for counter ≥ "
      "threshold (clamped to ≥ 1); exactly SIGINT/SIGTERM are registered; after the signal main cancels the polling context, sleeps "
      "the grace period, terminates — or returns at once without one (nothing deferred by main waits); every list call is preceded by the non-blocking cancellation "
      "test and performs exactly one proxy round trip; runAdapter gives the polling context to the poller only; the polling context never leaves pollForNewRequests and the shared HTTP client is not modified by the poller; hostProxy's context reaches the shim/banner constructors only (forwarded requests are not bound to it); every path through the failing side of the health loop counts; nothing waits between signal.Notify and the receive from the signal channel.")

# ---- additions of round 9 / round J (appended to the claim texts above)
_R9 = {
    "C01": " Round 9: the HTML splice passes on every byte it read, the stand-alone proxy arms no connection deadline and a worker's request does not end with the polling context (C01.T, shared with C05.M, C14.S, C04.P, C20.W); the response cache stores 200s only.",
    "C02": " Round 9: no agent code gives the replayed request a RemoteAddr (ReverseProxy would rewrite X-Forwarded-For); the stand-alone proxy's start-up code wraps its handler in nothing that rewrites requests (AllowQuerySemicolons, ServeMux, …).",
    "C03": " Round 9: no transport built by the agent caps the response header size, the time to the header or the connections per host.",
    "C04": " Round 9: size caps on the pending list are constants of at least 1 MiB; the dedup cache is created once, by a poller that no loop restarts.",
    "C05": " Round 9: RoundTrip methods of the agent's transports are response-path entry points (no read-ahead of the upload body).",
    "C06": " Round 9: recording a metric never holds up the serialiser or the handler (C06.L = C05.L).",
    "C07": " Round 9: indices into fixed arrays, string indices and indices counted back from the end are in range; SIGPIPE is never a shutdown request.",
    "C10": " Round 9: what the forwarder publishes is what the session writer released, the shim's handshake uses the header the session handler restored, nothing rewrites the request before the session handler (C10.H, shared with C03.H, C09.N, C02.W). Round J: a session ID merged with the constant its extractor returns on the not-ok path is still the caller's own.",
    "C11": " Round 9: shim endpoints read request bodies without a size cap; the handshake header is a filtered copy, so the version header is read from an unedited request.",
    "C12": " Round 9: the handshake with the backend is bounded in time wherever the dialer's time-out is set; indices on the open path (session wrapper included) are in range.",
    "C13": " Round 9: no new writer of Host/URL fields in the session handler or the shim, no mux or redirect on the pass-through route (C13.W, shared with C02.W, C02.T).",
    "C14": " Round 9: the possibly framed or spliced response is serialised with forced chunked framing (C14.F = C03.C).",
    "C15": " Round 9: the bridge backend serves the h2c wrapper around the bridge handler on every path through main.",
    "C16": " Round 9: Close of the bridge's connection type is the promoted Close or closes the embedded connection on every path.",
    "C18": " Round 9: no cache in front of the polls that keep a backend live; every property a backend entity was ever stored with is still a field the datastore codec loads.",
    "C19": " Round 9: stored request/response/blob entities stay loadable; the response cache stores 200s only. Round J: the wait loops accept a configured time-out whose interval is positive and bounded.",
    "C20": " Round 9: signal dispositions change only in ShutdownSignalChan; runAdapter returns nil once polling ended; nothing overwrites the health-interval flag.",
}
for _pid, _t in _R9.items():
    _lvl, _tech, _txt = CHECKS[_pid]
    CHECKS[_pid] = (_lvl, _tech, _txt + _t)

# ---- additions of round 10 / round K
_R10 = {
    "C02": " Round 10: the session handler re-adds the client's own cookies as sent (C10.R restore:* borrowed).",
    "C03": " Round 10: the stand-alone proxy copies the body from the handler's own goroutine with no helper goroutine on the writer (C01.K borrowed).",
    "C04": " Round 10: the backend-facing reverse proxy keeps its stock error handling (no re-serving ErrorHandler).",
    "C05": " Round 10: the replay refusal conditions of C06.R are armed here too.",
    "C06": " Round 10: the source reader is part of the mutex-guarded replay state (no read of it with the lock released).",
    "C07": " Round 10: receives of pointers from shim channels that get closed test ok (or nil) before the dereference.",
    "C08": " Round 10: no step of the list call that failed is answered with a nil error.",
    "C09": " Round 10: injected headers are those of the request that carries the push (C11.J borrowed).",
    "C10": " Round 10: sessions leave the cache only by LRU eviction.",
    "C11": " Round 10: sessions are forgotten only by close or by the poll that delivered what was received (C12.U borrowed); nothing serialised or received is dropped or parked by ReadServerMessages.",
    "C16": " Round 10: Read hands out every decoded byte before it reports the end (C15.E borrowed).",
    "C17": " Round 10: backend definitions are written by AddBackend only; a response is stored only for a request that was found (C17.W).",
    "C18": " Round 10: every successful AddBackend puts the tracker back to 'not seen'.",
    "C19": " Round 10: the caching store caches the very value it writes through.",
}
for _pid, _t in _R10.items():
    _lvl, _tech, _txt = CHECKS[_pid]
    CHECKS[_pid] = (_lvl, _tech, _txt + _t)

# ---- additions of round 11 / round L / F15
_R11 = {
    "C01": " Round 11: the stand-alone proxy relays every value of a repeated response field (C03.H borrowed); shim session IDs do not depend on the request.",
    "C03": " Round 11: the relayed response is parsed from the agent's upload itself (C01.W borrowed).",
    "C04": " Round 11: the URL of the fetch does not depend on the request ID.",
    "C05": " Round 11: the handler chain serves the parsed request itself, not a copy re-bound to a deadline (C02.I borrowed).",
    "C06": " Round 11: waits between upload attempts are bounded by a constant.",
    "C07": " Round 11: arguments of Grow and rand.*n that depend on outside values are provably in range.",
    "C10": " Round 11 / F15: only Scheme and Host of the cookie URL are set; after the wrapped handler returned, Set-Cookie trailers (declared or prefixed) are deleted on every path.",
    "C12": " Round 11: ReadServerMessages returns what it took from the queue (C11.O borrowed); session IDs are the counter only; Grow/index arguments on the open path are in range.",
    "C14": " Round 11: with Sec-Fetch-Dest frame/embed/object/document 'not framed' is never answered before the Referer was examined; ModifyResponse is the function ShimBody returned.",
    "C15": " Round 11: the bridge backend's server keeps net/http's request limits; the frontend never reads a connection itself.",
    "C19": " Round 11: (*blob).read fails only with a datastore error; forwardResponse never copies a field with Header.Set.",
}
for _pid, _t in _R11.items():
    _lvl, _tech, _txt = CHECKS[_pid]
    CHECKS[_pid] = (_lvl, _tech, _txt + _t)

# ---- additions of round 12 / round M
_R12 = {
    "C01": " Round 12 (rule Y, the party that is not changed with this code): fields added to the stored / cached Response never decide (an entity of the deployed build has the zero value there).",
    "C02": " Round 12 (Y): the stored request and blob entities keep the properties they were ever written with; the bridge keeps one hex text frame per write (C15.E borrowed).",
    "C03": " Round 12 (Y): a blob is its inlined first megabyte followed by its parts, for writer and reader; ModifyResponse is only set under the --shim-websockets parameter.",
    "C04": " Round 12 (Y): the backend ID is attached to list, fetch and post calls only — a fourth kind of agent call is a list poll to a stand-alone proxy that was not changed with the agent.",
    "C06": " Round 12 (Y): only list/fetch/post exchanges; the stand-alone proxy answers an upload it could not read to the end with 5xx; client.Timeout = *proxyTimeout dominates the polling loop.",
    "C07": " Round 12 (Y): no branch of cachedCookieJar depends on what the session ID looks like; request IDs keep their per-process random shape (C01.G rule shared).",
    "C09": " Round 12 (Y): the gob-cached Request keeps the names and types of its fields; the stored request keeps its properties.",
    "C11": " Round 12 (Y): fields added to sessionMessage never decide; every iteration over a posted batch passes SendClientMessage; the session ID is decoded from the body only.",
    "C12": " Round 12 (Y): websockets.Proxy is mounted under --shim-path alone. Reply helpers: every status a helper can be handed is an allowed constant.",
    "C13": " Round 12 (Y): the shim is given hostProxy's own host parameter.",
    "C14": " Round 12 (Y): no string of package banner mentions a referrer policy. Truth table extended: a top-level navigation without Referer is not framed; lookups in read-only package tables are evaluated.",
    "C15": " Round 12 (Y): no dialer/upgrader option offers compression or a subprotocol; the h2c transport is installed from the true edge of `if *forceHTTP2`.",
    "C17": " Round 12 (Y): fields added to the Backend record never decide.",
    "C18": " Round 12 (Y): no guard of the proxyHandler call asserts an equality on the service name.",
    "C19": " Round 12 (Y): blob layout; the agent endpoints let only the two ID headers decide; fields added to Request/Response never decide.",
    "C20": " Round 12 (Y): only list/fetch/post exchanges (a shutdown notice is a list poll to an older proxy).",
}
for _pid, _t in _R12.items():
    _lvl, _tech, _txt = CHECKS[_pid]
    CHECKS[_pid] = (_lvl, _tech, _txt + _t)

# ---- additions of round 13 / round N
_R13 = {
    "C03": " Round 13: the frameable-response predicate keeps its substring tests (C14.T borrowed).",
    "C05": " Round 13: an interim 1xx does not use up the header latch of any wrapper (C03.X borrowed).",
    "C06": " Round 13: the serialiser stops waiting for the published response only on Done of the request's own context.",
    "C07": " Round 13: no path from a failed read of the backend websocket leads back to the read; a back-off wait on a drained, re-armed timer is recognised (armedTimerWait).",
    "C08": " Round 13 / N: the back-off wait may be a receive from one reused timer when an arming (NewTimer or Reset, same duration) lies on every path to the receive and the receive on every path between two armings.",
    "C19": " Thorough tier of round 13: the blob field of the entity built in newStoredRequest/newStoredResponse is only ever what newBlob returned in that call.",
    "C11": " Round 13: the close frame goes through the same FIFO as the data (C12.L borrowed).",
    "C15": " Round 13: no deadline-bound AfterFunc hook or timer callback closes a bridged connection (also C16.A); WaitGroup pairing through a go-runner helper.",
    "C16": " Round 13: no deadline-bound AfterFunc hook or timer callback closes a bridged connection.",
}
for _pid, _t in _R13.items():
    _lvl, _tech, _txt = CHECKS[_pid]
    CHECKS[_pid] = (_lvl, _tech, _txt + _t)

# Executed by gen_manifest.py: claim(id, technique, text[, level]) / pending(id, reason)

claim("C01", "lockset + value-provenance (SSA access paths) + channel typestate",
      "Decides, for all schedules and any number of clients at once, the structural facts correlation rests on: the proxy's "
      "pending table and ID generator are only accessed under the proxy mutex (lockset over every access); the table key, the "
      "enqueued ID and the newID() result are one SSA value; the response copied to a client is the one received on that "
      "activation's own unbuffered channel (single receive site, not in a loop); the agent-facing endpoints use the request ID "
      "of their own call; (backend ID, request ID) travel in the right parameter roles from the pending list to the upload "
      "headers. Not decided: interleavings inside net/http, ID collision probability, payload bytes.")

for _pid in ["C02", "C03", "C04", "C05", "C06", "C07", "C08", "C09", "C10", "C11", "C12", "C13", "C14", "C15", "C16",
             "C17", "C18", "C19", "C20"]:
    pending(_pid, "check under construction in this round (designed in DESIGN.md section 3); not claimed until its rules are built and validated")

#!/usr/bin/env python3
"""usage: benign_prompt.py <n> "<files>"  — prompt for an independent sub-agent that produces
property-PRESERVING maintenance changes (behaviour may change, none of the 20 properties may break).
The agent gets the property texts and a scratch worktree; nothing else from /verif."""
import sys, json
n=sys.argv[1]; files=sys.argv[2]; wt='/root/scratch/rfn-%s'%n
props="\n".join("  %s. %s — %s"%(d['id'],d['title'],d['statement']) for d in map(json.loads,open('/verif/properties.jsonl')))
print(f"""You are working in a scratch git worktree of the Go project google/inverting-proxy at {wt} (an HTTP "inverting" reverse proxy: an agent long-polls a proxy for client requests, forwards them to a backend and streams responses back; includes a websocket shim, session-cookie tracking, a banner injector, a TCP-over-websocket bridge and an App Engine variant of the proxy). The sandbox is offline; in every shell call first run:
  export GOFLAGS=-mod=mod GOPROXY=off GOSUMDB=off GOTOOLCHAIN=local; unset GOWORK
Never kill processes by name (no pkill/killall), never use `git stash`, work only inside {wt}.

Users of this project rely on the following 20 properties:
{props}

Your task: produce SIX independent, realistic API MIGRATIONS / MODERNISATIONS DONE RIGHT whose main edits are in: {files} (a change may also touch one or two other files of the repository where that is natural)
These are the commits of a careful engineer who replaces an API, idiom or library facility by its modern equivalent after reading both contracts: every one of the 20 properties above must still hold afterwards (observable behaviour may change in harmless ways). They are used to test a static analyser for false alarms, so the interesting ones are those that touch the code the properties are about without breaking any of them. The standard library and the module's dependencies are available offline in the module cache (net/http, httputil, context, io, sync, sync/atomic, time, errors, strings/bytes, net/url, encoding/json|hex|base64, math/rand, crypto/rand, golang.org/x/net/http2+h2c, github.com/gorilla/websocket, github.com/golang/groupcache/lru, github.com/google/uuid, google.golang.org/appengine/v2 …). Kinds (use six different ones):
  - deprecated-package moves with identical contracts: io/ioutil -> io / os (ReadAll, Discard, NopCloser), strings.Title-free code, errors.Is / errors.As where a sentinel may be wrapped, fmt.Errorf with %w, any for interface{{}}
  - context plumbing where the new context has EXACTLY the lifetime the old code had (e.g. NewRequestWithContext(context.Background(), …) for NewRequest; DialContext with the context the function already received and already used for that purpose)
  - helper functions that exist for this: strings.Cut / CutPrefix / HasPrefix+TrimPrefix pairs, http.Header.Values/Clone where the old code did the same by hand, url.URL methods, http.MethodGet/Status* constants, time.Duration arithmetic, slices/maps helpers only if the toolchain in go.mod allows them (check `go version` and go.mod first; otherwise do not use them)
  - synchronisation modernised without weakening: atomic.Int64/atomic.Bool types for existing atomic or mutex-guarded counters that are only counters, sync.OnceValue/OnceFunc for an existing sync.Once, defer mu.Unlock() introduced where every path already unlocked, a WaitGroup helper — the same happens-before edges as before
  - timers done right: time.After in a loop replaced by a reused time.Timer with correct Stop/Reset/drain, time.NewTicker with Stop, deadlines computed once — the same waits as before
  - encoding helpers with the same alphabet and strictness: json.NewEncoder vs Marshal+Write ONLY where the trailing newline cannot matter (say why), json.Decoder ONLY with the same strictness as Unmarshal (check for trailing data), hex.AppendEncode/EncodeToString, base64 with the SAME encoding value
  - reverse-proxy / server construction tidied with identical fields: a helper that builds the same httputil.ReverseProxy / http.Server / websocket.Dialer with the same field values; http.NewResponseController used only for what the code already did through interface assertions
  - logging / error values: log.Printf -> a small leveled helper with the same output, error strings lower-cased where nothing parses them, errors.Join for independent close errors
Do NOT deliver a change if you are not sure all 20 properties still hold (e.g. never add or alter headers/bytes of proxied requests or responses, never add buffering or waiting on a streaming path, never widen who is authorised, never let shared state escape its lock, never make a per-request failure fatal). Do not change what the property-relevant logic answers, forwards, stores or waits for.

For EACH change k = 1..6:
1. Start from a clean tree (`git checkout -- .` and `git clean -fdq -e out`), make the change, save it with `git diff > {wt}/out/r$k/patch.diff` (create out/r$k first; `git add -N` new files first so they are in the diff; also create the file out/go.mod containing the single line `module refout` once). The diff must apply with `git apply` on the clean worktree.
2. Verify: `go build ./...` and the existing tests pass: `go test -vet=off -count=1 $(go list ./... | grep -v '/agent$')` (package `agent` has 4 tests that already fail in this sandbox and take 2 minutes; skip it unless you changed agent/agent.go, in which case run `go test -vet=off -count=1 -run 'TestWithInMemoryProxyAndBackend$' ./agent/` and accept a sandbox-related failure only if it fails the same way on the clean tree).
3. Write out/r$k/README.md: the kind, the functions touched, what changes observably, and two or three sentences arguing why none of the 20 properties is affected (name the properties that are closest to the change).

Leave the worktree clean at the end (out/ stays, untracked). Your final message must list r1..r6 with kind, functions touched, the observable change and the verification result.""")

package ipc

import (
	"fmt"
	"go/constant"
	"go/types"
	"sort"
	"strings"

	"golang.org/x/tools/go/ssa"
)

func init() {
	register(&PropSpec{
		ID:    "C05",
		Progs: []string{"mod"},
		Explanation: "Liveness under a lock-step producer is a run-time notion and is not decided. Decided: none of the structural obstacles to streaming is present on the response path and the enablers are: " +
			"(B) no accumulate-then-forward call (io.ReadAll, io.ReadFull/ReadAtLeast, Buffer.ReadFrom, bufio writers, io.Copy into a buffer, DumpResponse) in module code on the response path, enumerated over the static call closure of the path's entry points; " +
			"(W) write-through: every ResponseWriter.Write forwards its own slice with exactly one underlying Write, outside any loop and without channel hand-off; every io.Reader on the upload path performs at most one underlying Read per call, outside any loop; " +
			"(P) the body travels through two synchronous io.Pipes whose ends are wired as designed; (C) chunked framing is forced before serialisation; (F) the reverse proxy's FlushInterval is negative or in (0,1s]; " +
			"(M) the HTML shim splice does exactly one bounded Read before it returns; (S) the response is published from WriteHeader (not at Close). " +
			"(T) no buffering/non-transparent stdlib handler (TimeoutHandler, ServeMux, …) is built into the chain and writer types offer no new optional interfaces. " +
			"(R) the replay reader of a retried upload returns buffered bytes without first reading the source (a backend that waits for the client to see the flushed chunk would never produce more); (L) the metrics mutex is not held across an RPC reachable from the response path and the serialiser never waits for metrics.",
		Assumptions: []string{"io.Pipe is synchronous and unbuffered; net/http's chunked writer flushes per write; httputil.ReverseProxy honours FlushInterval"},
		Run:         runC05,
	})
}

var accumulators = map[string]string{
	"io.ReadAll":                       "reads the whole stream before returning",
	"io/ioutil.ReadAll":                "reads the whole stream before returning",
	"io.ReadFull":                      "blocks until the buffer is full",
	"io.ReadAtLeast":                   "blocks until a minimum number of bytes has arrived",
	"(*bytes.Buffer).ReadFrom":         "reads the whole stream into memory",
	"bufio.NewWriter":                  "buffers writes until 4 KiB or Flush",
	"bufio.NewWriterSize":              "buffers writes",
	"bufio.NewReadWriter":              "buffers writes",
	"net/http/httputil.DumpResponse":   "reads the whole body",
	"net/http/httputil.DumpRequestOut": "reads the whole body",
	"(*bufio.Reader).Peek":             "blocks until n bytes are available",
	"(*bufio.Reader).ReadBytes":        "blocks until a delimiter arrives",
	"(*bufio.Reader).ReadString":       "blocks until a delimiter arrives",
	"(*bufio.Scanner).Scan":            "blocks until a full token arrives",
	"io.CopyN":                         "blocks until n bytes have been copied",
	"(*strings.Builder).Write":         "accumulates in memory",
	"(*bytes.Buffer).Write":            "accumulates in memory",
}

// responsePathEntries are the entry points of the response path in module code.
func responsePathEntries(p *Prog) []*ssa.Function {
	var out []*ssa.Function
	add := func(fn *ssa.Function) {
		if fn != nil && len(fn.Blocks) > 0 {
			out = append(out, fn)
		}
	}
	for _, t := range ResponseWriterImpls(p) {
		add(p.MethodOf(t, "Write"))
		add(p.MethodOf(t, "WriteHeader"))
	}
	if f := p.Func("agent/utils.NewResponseForwarder"); f != nil {
		for _, cl := range Closures(f) {
			add(cl)
		}
	}
	for _, n := range []string{
		"agent.forwardRequest", "agent.processOneRequest",
		"agent/utils.postResponseWithRetries",
		"agent/utils.(*bufferedReadSeeker).Read", "agent/utils.(attemptReader).Read", "agent/utils.(*streamedBody).Read",
		"agent/websockets.(*shimmedBody).Read",
		"server.(*proxy).handleAgentPostResponse", "server.(*proxy).ServeHTTP",
	} {
		add(p.Func(n))
	}
	// the transports the agent wraps around its client towards the proxy: the upload of a
	// streamed response is a POST whose body passes through their RoundTrip
	for _, fn := range p.AllFuncsIn("agent/utils") {
		if fn.Name() == "RoundTrip" && fn.Signature.Recv() != nil && fn.Parent() == nil && fn.Synthetic == "" {
			add(fn)
		}
	}
	// functions stored to ReverseProxy.ModifyResponse: ShimBody's closure
	if f := p.Func("agent/websockets.ShimBody"); f != nil {
		for _, cl := range Closures(f) {
			add(cl)
		}
	}
	return out
}

// staticClosure: fns plus the module functions they (transitively) call statically.
func staticClosure(p *Prog, fns []*ssa.Function) []*ssa.Function {
	seen := map[*ssa.Function]bool{}
	var q []*ssa.Function
	for _, f := range fns {
		if !seen[f] {
			seen[f] = true
			q = append(q, f)
		}
	}
	for len(q) > 0 {
		f := q[0]
		q = q[1:]
		EachInstr(f, func(i ssa.Instruction) {
			if cc := CallOf(i); cc != nil {
				if g := StaticFunc(cc); g != nil && p.IsModFunc(g) && len(g.Blocks) > 0 && !seen[g] {
					seen[g] = true
					q = append(q, g)
				}
			}
			if mc, ok := i.(*ssa.MakeClosure); ok {
				if g := mc.Fn.(*ssa.Function); !seen[g] {
					seen[g] = true
					q = append(q, g)
				}
			}
		})
	}
	var out []*ssa.Function
	for f := range seen {
		out = append(out, f)
	}
	sort.Slice(out, func(i, j int) bool { return FuncName(out[i]) < FuncName(out[j]) })
	return out
}

func runC05(c *Ctx) {
	p := c.Progs["mod"]
	c.Rule("C05.B", "no accumulate-then-forward call on the response path", 30)
	c.Rule("C05.W", "write-through writers, single-read readers", 10)
	ruleNoOwnCopyLoop(c, p, "C05.W", "agent/utils", "agent/websockets", "agent/sessions", "agent/banner")
	// an interim 1xx must not use up a wrapper's header latch (= C03.X / C14.X): afterwards the final
	// header is dropped and every chunk the backend writes is acknowledged and discarded
	c.Borrow(runC03, "C03.X", "C05.W", func(k string) bool {
		return strings.Contains(k, "ResponseWriter:") || strings.Contains(k, "responseWriter:")
	})
	c.Rule("C05.P", "the body travels through two synchronous pipes", 6)
	// the handler chain serves the parsed request itself (= C02.I): a copy re-bound to a context
	// with a deadline taken from the proxy's start-time header ends a stream that is still being
	// produced
	c.Borrow(runC02, "C02.I", "C05.P", func(k string) bool { return k == "agent:serves-parsed-request" })
	rulePipeClosers(c, p, "C05.P")
	c.Rule("C05.C", "forced chunked framing (= C03.C)", 1)
	c.Rule("C05.F", "reverse proxy flush interval", 1)
	c.Rule("C05.M", "the HTML shim splice does one bounded read", 2)
	c.Rule("C05.T", "no buffering stdlib handler on the pass-through chain; writer types offer no new optional interfaces; net/http defaults not reconfigured", 6)
	ruleTransparentChain(c, p, "C05.T")
	ruleNoMutationOfHTTPDefaults(c, p, "C05.T")
	ruleWriterMethodSets(c, p, "C05.T")
	c.Rule("C05.R", "a retried upload hands replayed chunks on without waiting for more backend output; it is refused once the prefix cannot be replayed in full (= C06.R)", 9)
	c.Borrow(runC06, "C06.R", "C05.R", func(k string) bool { return strings.HasPrefix(k, "seek:") })
	ruleReplayDoesNotWaitForSource(c, p, "C05.R")
	c.Rule("C05.L", "the metrics mutex is not on the streaming path", 3)
	ruleNoLockAcrossRPC(c, p, "C05.L")
	ruleRecordingDoesNotWait(c, p, "C05.L")
	ruleSerialiserDoesNotBlockOnMetrics(c, p, "C05.L")
	c.Rule("C05.S", "the response is published as soon as the status is set", 1)

	// ---- C05.B
	entries := responsePathEntries(p)
	path := staticClosure(p, entries)
	if len(entries) < 14 {
		c.Bad("C05.B", "entry-points", p, 0, fmt.Sprintf("only %d response-path entry points resolved (≥12 expected: writers, forwarder goroutines, upload readers, splice, proxy endpoints)", len(entries)))
	}
	// these two functions parse small, bounded control messages, not the streamed body
	exemptFn := map[string]string{}
	for _, fn := range path {
		name := FuncName(fn)
		bad := ""
		ncalls := 0
		EachInstr(fn, func(i ssa.Instruction) {
			cc := CallOf(i)
			if cc == nil {
				return
			}
			ncalls++
			n := CalleeName(cc)
			if why, ok := accumulators[n]; ok {
				// bytes.Buffer/strings.Builder writes are fine unless the buffer is a sink of body bytes: only flag when the data argument derives from a Read/param slice
				if n == "(*bytes.Buffer).Write" || n == "(*strings.Builder).Write" {
					return
				}
				bad = fmt.Sprintf("%s at %s (%s)", n, p.Pos(i.Pos()), why)
			}
			if n == "io.Copy" || n == "io.CopyBuffer" {
				dst := PArgs(cc)[0]
				for _, r := range Roots(dst) {
					if mi, ok := r.(*ssa.MakeInterface); ok {
						r = mi.X
					}
					switch NamedType(r.Type()) {
					case "bytes.Buffer", "strings.Builder":
						bad = fmt.Sprintf("%s into an in-memory buffer at %s", n, p.Pos(i.Pos()))
					}
				}
			}
			if n == "(*net/http.Response).Write" {
				for _, r := range Roots(Args(cc)[1]) {
					if NamedType(r.Type()) == "bytes.Buffer" {
						bad = "Response.Write into a bytes.Buffer at " + p.Pos(i.Pos())
					}
				}
			}
		})
		if why, ok := exemptFn[name]; ok {
			c.OK("C05.B", name, p, fn.Pos(), "exempt: "+why)
			continue
		}
		c.Check("C05.B", name, p, fn.Pos(), bad == "", fmt.Sprintf("%d call sites inspected, none accumulates", ncalls), "response-path function "+name+" calls "+bad+": body bytes the backend has flushed wait in the agent for further output")
	}

	// ---- C05.W
	ruleWriteThrough(c, p, "C05.W")
	for _, rn := range []string{"agent/utils.(*bufferedReadSeeker).Read", "agent/utils.(attemptReader).Read", "agent/utils.(*streamedBody).Read", "agent/websockets.(*shimmedBody).Read"} {
		fn := p.Func(rn)
		if fn == nil {
			// Read promoted from an embedded io.Reader: one underlying read by construction
			if promotedRead(p, rn) {
				c.OK("C05.W", rn+":single-read", p, 0, "Read is promoted from an embedded io.Reader: the underlying Read itself")
				continue
			}
			c.Unk("C05.W", rn+":single-read", p, 0, "reader not found (renamed?)")
			continue
		}
		var rd []ssa.Instruction
		EachInstr(fn, func(i ssa.Instruction) {
			if cc := CallOf(i); cc != nil {
				n := CalleeName(cc)
				if strings.HasSuffix(n, ").Read") {
					rd = append(rd, i)
				}
			}
		})
		bad := ""
		if len(rd) == 0 {
			bad = "no underlying Read call"
		}
		for _, a := range rd {
			if InLoop(a.Block()) {
				bad = "the underlying Read is inside a loop: the reader waits for further output before returning what it has"
			}
			// alternative reads on different paths (a fast path) are one read per call; a second
			// read reachable after a first one waits for further output
			for _, b := range rd {
				if a == b {
					continue
				}
				tgt := b
				if h, _ := (&Walk{Target: func(i ssa.Instruction) bool { return i == tgt }, Local: true}).FromInstr(a); h != nil {
					bad = "a second underlying Read at " + p.Pos(b.Pos()) + " follows the one at " + p.Pos(a.Pos()) + ": the reader waits for further output before returning what it has"
				}
			}
		}
		c.Check("C05.W", rn+":single-read", p, fn.Pos(), bad == "", fmt.Sprintf("at most one underlying Read per call (%d site(s), none after another), outside any loop", len(rd)), rn+": "+bad)
	}
	// the handler chain writes straight into the response forwarder (no wrapper in between)
	if f := p.Func("agent.forwardRequest"); f != nil {
		if sv := c.UniqueCall("C05.W", p, f, false, "(net/http.Handler).ServeHTTP"); sv != nil {
			c.ArgIs("C05.W", "forwardRequest:chain-writes-into-forwarder", p, sv, 1, "the writer handed to the handler chain is the response forwarder itself", "result0:"+ModPath+"/agent/utils.NewResponseForwarder")
		}
	}
	// the serialiser writes the response body it received without wrapping it in a buffering reader
	if f := p.Func("agent/utils.NewResponseForwarder"); f != nil {
		if w := c.UniqueCall("C05.W", p, f, true, "(*net/http.Response).Write"); w != nil {
			resp := Args(CallOf(w))[0]
			bad := ""
			EachInstr(w.Parent(), func(i ssa.Instruction) {
				if st, ok := i.(*ssa.Store); ok {
					if base, fld, ok := FieldAddrOf(st.Addr); ok && SameValue(base, resp) {
						switch fld {
						case "TransferEncoding":
						case "Body":
							bad = "the serialiser replaces resp.Body (" + PathOf(st.Val) + ") before writing it: a wrapping reader can hold flushed chunks back"
						case "ContentLength", "Header", "Trailer", "StatusCode", "Status", "Proto", "ProtoMajor", "ProtoMinor", "Close", "Uncompressed", "Request", "TLS":
							bad = "the serialiser overwrites resp." + fld
						}
					}
				}
			})
			c.Check("C05.W", "serialiser:writes-received-response-as-is", p, w.Pos(), bad == "", "apart from forcing chunked framing the serialiser does not touch the response it writes", bad)
		}
	}

	// ---- C05.P
	if f := c.need(p, "C05.P", "agent/utils.NewStreamingResponseWriter"); f != nil {
		as := AllocsOf(f, "agent/utils.streamingResponseWriter")
		if len(as) == 1 {
			for fld, want := range map[string]string{"bodyWriter": "result1:io.Pipe", "bodyReader": "result0:io.Pipe"} {
				if v, ok := LiteralField(as[0], fld); ok {
					c.PathIs("C05.P", "writer:"+fld, p, as[0].Pos(), v, fld+" is an end of a fresh io.Pipe", want)
				} else {
					c.Bad("C05.P", "writer:"+fld, p, as[0].Pos(), fld+" not set")
				}
			}
		} else {
			c.Unk("C05.P", "writer:literal", p, f.Pos(), "expected one streamingResponseWriter literal")
		}
	}
	if wr := c.need(p, "C05.P", "agent/utils.(*streamingResponseWriter).Write"); wr != nil {
		if w := c.UniqueCall("C05.P", p, wr, false, "(*io.PipeWriter).Write"); w != nil {
			c.ArgIs("C05.P", "writer:Write-into-body-pipe", p, w, 0, "Write goes straight into the body pipe", P(wr, 0)+".bodyWriter")
		}
	}
	if f := c.need(p, "C05.P", "agent/utils.NewResponseForwarder"); f != nil {
		if g := c.UniqueCall("C05.P", p, f, true, ModPath+"/agent/utils.postResponseWithRetries"); g != nil {
			c.ArgIs("C05.P", "forwarder:upload-body-is-pipe-reader", p, g, 4, "the upload body is the read end of the upload pipe", "result0:io.Pipe")
		}
		if w := c.UniqueCall("C05.P", p, f, true, "(*net/http.Response).Write"); w != nil {
			c.ArgIs("C05.P", "forwarder:serialise-into-pipe-writer", p, w, 1, "the serialiser writes into the write end of the upload pipe", "result1:io.Pipe")
		}
	}
	// upload body reaches the request through the replay wrapper only
	if f := c.need(p, "C05.P", "agent/utils.postResponseWithRetries"); f != nil {
		if nb := c.UniqueCall("C05.P", p, f, false, ModPath+"/agent/utils.newBufferedReadSeeker"); nb != nil {
			c.ArgIs("C05.P", "upload:replay-wrapper-reads-pipe", p, nb, 0, "the replay wrapper reads the upload pipe directly", P(f, 4))
		}
	}

	// ---- C05.C
	ruleForcedChunked(c, p, "C05.C")

	// ---- C05.F
	if hp := c.need(p, "C05.F", "agent.hostProxy"); hp != nil {
		var sts []*ssa.Store
		EachInstr(hp, func(i ssa.Instruction) {
			if st, ok := i.(*ssa.Store); ok {
				if base, fld, ok := FieldAddrOf(st.Addr); ok && fld == "FlushInterval" && NamedType(base.Type()) == "net/http/httputil.ReverseProxy" {
					sts = append(sts, st)
				}
			}
		})
		if len(sts) != 1 {
			c.Bad("C05.F", "hostProxy:FlushInterval", p, hp.Pos(), fmt.Sprintf("FlushInterval is set %d times (expected once): with the default 0 the reverse proxy only flushes when its 32 KiB copy buffer fills", len(sts)))
		} else {
			n, ok := ConstInt(sts[0].Val)
			c.Check("C05.F", "hostProxy:FlushInterval", p, sts[0].Pos(), ok && (n < 0 || n > 0 && n <= 1_000_000_000) && Dominates(sts[0], lastReturn(hp)), fmt.Sprintf("FlushInterval = %d ns: negative (immediate) or within (0, 1 s]", n), fmt.Sprintf("FlushInterval is %d (constant: %v): not negative and not within (0, 1 s] — chunks flushed by the backend are held in the reverse proxy", n, ok))
		}
	}

	// ---- C05.M
	if sb := c.need(p, "C05.M", "agent/websockets.ShimBody"); sb != nil {
		cls := Closures(sb)
		if len(cls) != 1 {
			c.Unk("C05.M", "splice:closure", p, sb.Pos(), fmt.Sprintf("expected one ModifyResponse closure in ShimBody, found %d", len(cls)))
		} else {
			cl := cls[0]
			var reads []ssa.Instruction
			EachInstr(cl, func(i ssa.Instruction) {
				if cc := CallOf(i); cc != nil && strings.HasSuffix(CalleeName(cc), ").Read") {
					reads = append(reads, i)
				}
			})
			ok := len(reads) == 1 && !InLoop(reads[0].Block())
			c.Check("C05.M", "splice:single-read", p, cl.Pos(), ok, "exactly one Read of the backend body before the splice returns, outside any loop", fmt.Sprintf("the splice performs %d reads (or reads in a loop) before returning: it waits for more output than the backend's first flush", len(reads)))
			if len(reads) == 1 {
				buf := Args(CallOf(reads[0]))[1]
				okb := false
				for _, r := range Roots(buf) {
					if ms, isM := r.(*ssa.MakeSlice); isM {
						if n, isC := ConstInt(ms.Len); isC && n > 0 && n <= 65536 {
							okb = true
						}
					}
					if sl, isS := r.(*ssa.Slice); isS {
						if a, isA := sl.X.(*ssa.Alloc); isA {
							if at, isArr := a.Type().Underlying().(*types.Pointer).Elem().Underlying().(*types.Array); isArr && at.Len() > 0 && at.Len() <= 65536 {
								okb = true
							}
						}
					}
				}
				c.Check("C05.M", "splice:bounded-buffer", p, reads[0].Pos(), okb, "the read buffer has a small constant size", "the splice's read buffer is not a small constant-size slice")
			}
		}
	}

	// ---- C05.S
	if wh := c.need(p, "C05.S", "agent/utils.(*streamingResponseWriter).WriteHeader"); wh != nil {
		isPub := func(i ssa.Instruction) bool {
			if s, ok := i.(*ssa.Select); ok {
				for _, st := range s.States {
					if st.Dir == types.SendOnly && NamedType(st.Send.Type()) == "net/http.Response" {
						return true
					}
				}
			}
			if s, ok := i.(*ssa.Send); ok && NamedType(s.X.Type()) == "net/http.Response" {
				return true
			}
			return false
		}
		bad := ""
		for _, v := range finalSamples {
			w := &Walk{Target: IsReturn, Avoid: isPub, Edge: EdgeUnder(statusEnv(wh, v, "wroteHeader"))}
			if hit, path := w.FromBlock(wh.Blocks[0]); hit != nil {
				bad = fmt.Sprintf("WriteHeader(%d) can return without publishing the response (%s)", v, PathString(p, path))
				break
			}
		}
		c.Check("C05.S", "writer:publish-at-WriteHeader", p, wh.Pos(), bad == "", "for every final status WriteHeader publishes the response before it returns", bad+": the proxy sees nothing until the backend finishes")
	}
	_ = constant.MakeBool
}

func lastReturn(fn *ssa.Function) ssa.Instruction {
	rs := Returns(fn)
	if len(rs) == 0 {
		return fn.Blocks[0].Instrs[0]
	}
	// the return that hands back the handler chain: any return dominated is fine; use the last in block order
	return rs[len(rs)-1]
}

// ruleWriteThrough: every ResponseWriter implementation of the module hands the slice it is
// given to one synchronous underlying Write — whole, once, not in a loop, not through a channel
// or goroutine. A writer that withholds or cuts bytes (a Content-Length guard, a size cap)
// truncates the body the backend produced.
func ruleWriteThrough(c *Ctx, p *Prog, rule string) {
	for _, t := range ResponseWriterImpls(p) {
		tn := NamedTypeRel(t)
		wr := p.MethodOf(t, "Write")
		if wr == nil || len(wr.Blocks) == 0 {
			continue
		}
		var fw []ssa.Instruction
		EachInstr(wr, func(i ssa.Instruction) {
			if IsCall(i, "(net/http.ResponseWriter).Write", "(*io.PipeWriter).Write", "(io.Writer).Write") {
				fw = append(fw, i)
			}
		})
		bad := ""
		if len(fw) != 1 {
			bad = fmt.Sprintf("%d underlying Write calls (expected one)", len(fw))
		} else {
			if InLoop(fw[0].Block()) {
				bad = "the underlying Write is inside a loop"
			}
			if PathOf(Args(CallOf(fw[0]))[1]) != P(wr, 1) {
				bad = "the underlying Write does not receive the method's own slice"
			}
		}
		if len(ChanOpsOf(wr)) > 0 {
			bad = "Write hands data over a channel"
		}
		for _, cl := range Closures(wr) {
			_ = cl
			bad = "Write defers work to a closure/goroutine"
		}
		c.Check(rule, tn+".Write:write-through", p, wr.Pos(), bad == "", "one synchronous underlying Write of the same slice", tn+".Write is not write-through: "+bad)
	}
}

// promotedRead: the method named "pkg.(*T).Read" / "pkg.(T).Read" is not declared, but T embeds
// an interface (io.Reader, io.ReadCloser) that has Read.
func promotedRead(p *Prog, name string) bool {
	i := strings.Index(name, ".(")
	j := strings.LastIndex(name, ").")
	if i < 0 || j < 0 {
		return false
	}
	pkg, tn := name[:i], strings.TrimPrefix(name[i+2:j], "*")
	for _, t := range p.NamedTypesIn(pkg) {
		if objName(t.Obj()) != tn && t.Obj().Name() != tn {
			continue
		}
		st := t.Underlying().(*types.Struct)
		for k := 0; k < st.NumFields(); k++ {
			f := st.Field(k)
			if !f.Embedded() {
				continue
			}
			if it, ok := f.Type().Underlying().(*types.Interface); ok {
				for m := 0; m < it.NumMethods(); m++ {
					if it.Method(m).Name() == "Read" {
						return true
					}
				}
			}
		}
	}
	return false
}

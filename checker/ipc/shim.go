package ipc

import (
	"fmt"

	"golang.org/x/tools/go/ssa"
)

// shimEndpoints resolves the closures registered with the shim's mux in
// createShimChannel by the constant last element of their pattern
// (path.Join(shimPath, "<name>")), plus the inner open handler (the
// HandlerFunc passed to openWebsocketWrapper).
type shimEndpoints struct {
	Create   *ssa.Function
	ByName   map[string]*ssa.Function // open, close, data, poll
	Patterns map[string]ssa.Instruction
	Inner    *ssa.Function // the handler that dials
}

func resolveShimEndpoints(c *Ctx, p *Prog, rule string) *shimEndpoints {
	cr := c.need(p, rule, "agent/websockets.createShimChannel")
	if cr == nil {
		return nil
	}
	se := &shimEndpoints{Create: cr, ByName: map[string]*ssa.Function{}, Patterns: map[string]ssa.Instruction{}}
	for _, call := range Calls(cr, "(*net/http.ServeMux).HandleFunc", "(*net/http.ServeMux).Handle") {
		a := PArgs(CallOf(call))
		pj := CallResult(a[1], 0, "path.Join")
		name := ""
		if pj != nil {
			// variadic: slice of array literal; find constant elements
			for _, r := range Roots(PArgs(&pj.Call)[0]) {
				if sl, ok := r.(*ssa.Slice); ok {
					if arr, ok := sl.X.(*ssa.Alloc); ok {
						for _, u := range Refs(arr) {
							if ia, ok := u.(*ssa.IndexAddr); ok {
								for _, uu := range Refs(ia) {
									if st, ok := uu.(*ssa.Store); ok {
										if s, ok := ConstString(st.Val); ok {
											name = s
										}
									}
								}
							}
						}
					}
				}
			}
		}
		var fn *ssa.Function
		switch v := Peel(a[2]).(type) {
		case *ssa.MakeClosure:
			fn = v.Fn.(*ssa.Function)
		case *ssa.Function:
			fn = v
		}
		if name == "" || fn == nil {
			c.Unk(rule, "shim:endpoint-registration", p, call.Pos(), "a shim endpoint is registered with a pattern/handler this rule cannot resolve (expected path.Join(shimPath, \"<name>\") and a function literal)")
			continue
		}
		se.ByName[name] = fn
		se.Patterns[name] = call
	}
	// inner open handler: the closure that calls NewConnection
	for _, cl := range Closures(cr) {
		if len(Calls(cl, ModPath+"/agent/websockets.NewConnection")) > 0 {
			se.Inner = cl
		}
	}
	for _, n := range []string{"open", "close", "data", "poll"} {
		if se.ByName[n] == nil {
			c.Unk(rule, "shim:endpoint:"+n, p, cr.Pos(), "shim endpoint "+n+" not found among the mux registrations of createShimChannel")
		}
	}
	if se.Inner == nil {
		c.Unk(rule, "shim:endpoint:open-inner", p, cr.Pos(), "no handler in createShimChannel calls NewConnection")
	}
	return se
}

func (se *shimEndpoints) all() map[string]*ssa.Function {
	m := map[string]*ssa.Function{}
	for k, v := range se.ByName {
		m[k] = v
	}
	if se.Inner != nil {
		m["open-inner"] = se.Inner
	}
	return m
}

// producesResponse: i answers the HTTP call on writer w (first parameter of the handler).
func producesResponse(i ssa.Instruction, w ssa.Value) (status int64, ok bool) {
	cc := CallOf(i)
	if cc == nil {
		return 0, false
	}
	same := func(v ssa.Value) bool {
		// roots that are parameters of other functions come from other call sites of a
		// shared helper and cannot flow here
		var rs []ssa.Value
		for _, r := range Roots(v) {
			if prm, isP := r.(*ssa.Parameter); isP {
				if wp, isWP := w.(*ssa.Parameter); isWP && prm.Parent() != wp.Parent() {
					continue
				}
			}
			rs = append(rs, r)
		}
		return len(rs) == 1 && rs[0] == w
	}
	// an answer written by a new helper, e.g. writeError(w, msg, code): the helper must
	// answer on its writer parameter on every path; the status is a constant of the
	// helper or the constant passed at this call site
	if h := syncHelperCallee(i); h != nil {
		rawParam := func(v ssa.Value) int {
			for {
				switch x := v.(type) {
				case *ssa.ChangeType:
					v = x.X
					continue
				case *ssa.MakeInterface:
					v = x.X
					continue
				case *ssa.ChangeInterface:
					v = x.X
					continue
				}
				break
			}
			for k, prm := range h.Params {
				if v == ssa.Value(prm) {
					return k
				}
			}
			return -1
		}
		var st int64
		found := false
		EachInstrRaw(h, func(in ssa.Instruction) {
			hc := CallOf(in)
			if hc == nil || found {
				return
			}
			wIdx, sIdx := -1, -1
			var sVal ssa.Value
			switch CalleeName(hc) {
			case "net/http.Error":
				wIdx, sVal = rawParam(PArgs(hc)[0]), PArgs(hc)[2]
			case "(net/http.ResponseWriter).WriteHeader":
				wIdx, sVal = rawParam(Args(hc)[0]), Args(hc)[1]
			default:
				return
			}
			if wIdx < 0 || wIdx >= len(PArgs(cc)) || !same(PArgs(cc)[wIdx]) || !mustExecute(in) {
				return
			}
			if n, isC := ConstInt(sVal); isC {
				st, found = n, true
				return
			}
			if sIdx = rawParam(sVal); sIdx >= 0 && sIdx < len(PArgs(cc)) {
				if n, isC := ConstInt(PArgs(cc)[sIdx]); isC {
					st, found = n, true
					return
				}
			}
			// the status may pass through a local of the helper (statusCode := code)
			for _, r := range Roots(sVal) {
				if sIdx = rawParam(r); sIdx >= 0 && sIdx < len(PArgs(cc)) {
					if n, isC := ConstInt(PArgs(cc)[sIdx]); isC {
						st, found = n, true
					}
				}
			}
		})
		if found {
			return st, true
		}
	}
	switch CalleeName(cc) {
	case "net/http.Error":
		if same(PArgs(cc)[0]) {
			n, _ := ConstInt(PArgs(cc)[2])
			return n, true
		}
	case "net/http.NotFound":
		if same(PArgs(cc)[0]) {
			return 404, true
		}
	case "(net/http.ResponseWriter).WriteHeader":
		if same(Args(cc)[0]) {
			n, _ := ConstInt(Args(cc)[1])
			return n, true
		}
	case "(net/http.ResponseWriter).Write":
		if same(Args(cc)[0]) {
			return 200, true
		}
	case "(net/http.Handler).ServeHTTP":
		if same(Args(cc)[1]) {
			return -1, true // delegation: the delegate answers
		}
	}
	return 0, false
}

func fmtStatuses(m map[int64]bool) string {
	s := ""
	for k := range m {
		s += fmt.Sprintf(" %d", k)
	}
	return s
}

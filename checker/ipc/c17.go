package ipc

import (
	"fmt"
	"go/constant"
	"go/token"
	"go/types"
	"os"
	"path/filepath"
	"regexp"
	"strings"

	"golang.org/x/tools/go/ssa"
)

func init() {
	register(&PropSpec{
		ID:    "C17",
		Progs: []string{"mod"},
		Explanation: "Identity values come from App Engine; what the repository owns is that every sensitive operation is behind the right check with the right value — a dominance + provenance property decided for all callers, backends, IDs and call orders at once: " +
			"(A) in each agent endpoint the call of checkBackendID dominates every store call and helper call, and nothing but the 401 answer is reachable from its failure branch; (B) every argument in a backendID parameter position of those calls is result 0 of that checkBackendID call; inside checkBackendID the ID returned is the one checked, the user checked is the OAuth e-mail, and the success return is dominated by err==nil (twice) and allowed==true; the store compares the record's BackendUser with == and answers false for a missing record; " +
			"(C) failure answers 401 and nothing else; (D) admin CRUD handlers are unreachable when isAdminRequest is false (partial evaluation), the cron arm is the only exception and api.yaml restricts /cron/.* to login: admin; (E) end users: nil user ⇒ 401 before any store call, LookupBackend gets the signed-in e-mail, later store calls use the backend it returned, the store filters backends by EndUser = parameter / allUsers; " +
			"(S) the caching store is the persistent store's sibling: one field, every method delegates with its own parameters in the same positions, access decisions and routing are pure delegations (no cache, no memo), memcache keys are built by the same key function from the same roles on read and write; (R) service routing by module name; (K) the GET response cache cannot serve one user another user's answer: its key renders the user's e-mail and the URL themselves, both with %q.",
		Assumptions: []string{"App Engine user.CurrentOAuth / user.Current / user.IsAdmin return the caller's verified identity", "datastore Get/Query semantics"},
		Run:         runC17,
	})
}

const appPkg = ModPath + "/app"
const storeIface = "(" + ModPath + "/app/types.Store)"

// isStoreCall: i invokes a method of types.Store.
func isStoreCall(i ssa.Instruction) bool {
	cc := CallOf(i)
	return cc != nil && cc.IsInvoke() && strings.HasPrefix(cc.Method.FullName(), storeIface+".")
}

// isAppHelperCall: i calls a function of package app (not logging / http).
func isAppHelperCall(i ssa.Instruction) bool {
	cc := CallOf(i)
	if cc == nil {
		return false
	}
	if syncHelperCallee(i) != nil {
		return false // a new helper: its body is analysed as part of the caller
	}
	n := CalleeName(cc)
	return strings.HasPrefix(n, appPkg+".") || n == ModPath+"/app/types.NewRequest"
}

// paramNamed returns the index (receiver first) of the parameter with the given name in the callee signature.
func paramNamed(cc *ssa.CallCommon, name string) int {
	sig := cc.Signature()
	off := 0
	if cc.IsInvoke() || sig.Recv() != nil {
		off = 1
	}
	// position by the pinned declaration first: a parameter rename does not move the role
	var callee *types.Func
	if cc.IsInvoke() {
		callee = cc.Method
	} else if f := cc.StaticCallee(); f != nil {
		callee, _ = f.Object().(*types.Func)
	}
	if k := PinnedParamIndex(callee, name); k >= 0 && k < sig.Params().Len() {
		return k + off
	}
	for k := 0; k < sig.Params().Len(); k++ {
		if sig.Params().At(k).Name() == name {
			return k + off
		}
	}
	return -1
}

func runC17(c *Ctx) {
	p := c.Progs["mod"]
	c.Rule("C17.Y", "compatibility with the party that is not changed with this code: backend records registered by the deployed build: new fields decide nothing", 1)
	ruleNewWireFieldNotDecisive(c, p, "C17.Y", "a backend registered through the deployed build has the zero value there; a caller whose own value is also the zero value (or anything the comparison accepts for it) passes the check for every such backend", "app/types.Backend")
	c.Rule("C17.A", "every store access of an agent endpoint is dominated by a successful backend check", 9)
	c.Rule("C17.B", "the backend ID used is the validated one; the check itself is sound", 14)
	ruleSentinelComparedRaw(c, p, "C17.B", "app", "app/store", "app/cache")
	c.Rule("C17.C", "401 and nothing else on a failed check; no answer before the check", 6)
	c.Rule("C17.D", "admin gate", 5)
	c.Rule("C17.E", "end users only reach their own or shared backends", 7)
	c.Rule("C17.W", "who-may-write registrations: backend definitions are written by AddBackend only (an agent-side bookkeeping path that re-writes the record it read can restore a registration an administrator has just changed); a response is stored only for a request that was found", 2)
	ruleBackendDefinitionWriters(c, p, "C17.W")
	c.Borrow(runC19, "C19.I", "C17.W", func(k string) bool { return k == "respond:stored-only-for-matching-request" })
	c.Rule("C17.S", "sibling agreement of the two Store implementations; injective keys", 18)
	c.Rule("C17.R", "routing of service names", 4)
	c.Rule("C17.K", "the GET response cache cannot serve one user another user's answer: injective key of (user e-mail, URL), components verbatim (= C01.C, C19.R)", 6)
	ruleAppResponseCacheKey(c, p, "C17.K")
	cbName := appPkg + ".checkBackendID"

	for _, ep := range []string{"pendingHandler", "requestHandler", "responseHandler"} {
		f := c.need(p, "C17.A", "app."+ep)
		if f == nil {
			continue
		}
		cb := c.UniqueCall("C17.A", p, f, false, cbName)
		if cb == nil {
			continue
		}
		c.ArgIs("C17.A", ep+":check-on-own-request", p, cb, 2, "the check reads this call's request", P(f, 3))
		c.ArgIs("C17.A", ep+":check-against-own-store", p, cb, 1, "the check consults the store the endpoint uses", P(f, 1))
		var ifi *ssa.If
		fail := 0
		EachInstr(f, func(i ssa.Instruction) {
			if x, ok := i.(*ssa.If); ok {
				if v, s, ok := ErrNilTest(x); ok && CallResult(v, 1, cbName) != nil {
					ifi, fail = x, s
				}
			}
		})
		if ifi == nil {
			c.Bad("C17.A", ep+":check-result-tested", p, cb.Pos(), "the error of checkBackendID is not tested: the endpoint serves unauthenticated callers")
			continue
		}
		// sensitive calls
		bad := ""
		n := 0
		EachInstr(f, func(i ssa.Instruction) {
			if i == cb || !(isStoreCall(i) || isAppHelperCall(i)) {
				return
			}
			n++
			if !Dominates(ifi, i) && !Dominates(cb, i) {
				bad = CalleeName(CallOf(i)) + " at " + p.Pos(i.Pos()) + " is not dominated by the backend check"
			}
		})
		isSens := func(i ssa.Instruction) bool { return i != cb && (isStoreCall(i) || isAppHelperCall(i)) }
		if hit, _ := (&Walk{Target: isSens, Ctx: f}).FromBlock(ifi.Block().Succs[fail]); hit != nil {
			bad = CalleeName(CallOf(hit)) + " at " + p.Pos(hit.Pos()) + " is reachable after the check failed"
		}
		// nothing sensitive before the check
		if hit, _ := (&Walk{Target: isSens, Avoid: func(i ssa.Instruction) bool { return i == cb }}).FromBlock(f.Blocks[0]); hit != nil {
			bad = CalleeName(CallOf(hit)) + " at " + p.Pos(hit.Pos()) + " runs before checkBackendID"
		}
		c.Check("C17.A", ep+":store-access-behind-check", p, f.Pos(), bad == "" && n > 0, fmt.Sprintf("all %d store/helper calls run only after checkBackendID succeeded", n), "agent endpoint "+ep+": "+bad+": a caller that is not the registered backend user reaches the store")
		// ---- C17.C
		w := ssa.Value(ParamAt(f, 2))
		is401 := func(i ssa.Instruction) bool { st, ok := producesResponse(i, w); return ok && st == 401 }
		hit, _ := (&Walk{Target: IsReturn, Avoid: is401, Ctx: f}).FromBlock(ifi.Block().Succs[fail])
		other, _ := (&Walk{Target: func(i ssa.Instruction) bool { st, ok := producesResponse(i, w); return ok && st != 401 }, Ctx: f}).FromBlock(ifi.Block().Succs[fail])
		c.Check("C17.C", ep+":401-only", p, ifi.Pos(), hit == nil && other == nil, "a failed check is answered 401 on every path and nothing else is written", "a failed backend check in "+ep+" is not answered with exactly 401 (other status, or a path without answer)")
		early, _ := (&Walk{Target: func(i ssa.Instruction) bool {
			if r, isR := i.(*ssa.Return); isR {
				return r.Parent() == f
			}
			_, ok := producesResponse(i, w)
			return ok
		}, Avoid: func(i ssa.Instruction) bool { return i == cb }}).FromBlock(f.Blocks[0])
		where := ""
		if early != nil {
			where = p.Pos(early.Pos())
		}
		c.Check("C17.C", ep+":no-answer-before-check", p, cb.Pos(), early == nil, "no status is written and the endpoint does not return before checkBackendID has run", "agent endpoint "+ep+" answers (or returns) at "+where+" before the caller was authorised: an unauthorised caller gets a status other than 401 (request validation runs before authorisation)")
		// ---- C17.B: backendID roles
		EachInstr(f, func(i ssa.Instruction) {
			if !isSens(i) {
				return
			}
			cc := CallOf(i)
			if k := paramNamed(cc, "backendID"); k >= 0 {
				a := Args(cc)
				key := fmt.Sprintf("%s:%s:backendID", ep, shortCallee(CalleeName(cc)))
				c.PathIs("C17.B", key, p, i.Pos(), a[k], "the backend ID passed is the validated one", "result0:"+cbName)
			}
		})
	}
	// parseResponse / postResponse carry the validated ID through the Response value
	if f := c.need(p, "C17.B", "app.parseResponse"); f != nil {
		as := AllocsOf(f, "app/types.Response")
		if len(as) == 1 {
			if v, ok := LiteralField(as[0], "BackendID"); ok {
				c.PathIs("C17.B", "parseResponse:BackendID", p, as[0].Pos(), v, "Response.BackendID is the validated backend ID", P(f, 0))
			} else {
				c.Bad("C17.B", "parseResponse:BackendID", p, as[0].Pos(), "Response.BackendID not set")
			}
		}
	}
	if f := c.need(p, "C17.B", "app.postResponse"); f != nil {
		if rr := c.UniqueCall("C17.B", p, f, false, storeIface+".ReadRequest"); rr != nil {
			c.ArgIs("C17.B", "postResponse:reads-under-validated-backend", p, rr, 2, "the request is looked up under the response's (validated) backend ID", P(f, 2)+".BackendID")
			c.ArgIs("C17.B", "postResponse:reads-posted-request-id", p, rr, 3, "…and the posted request ID", P(f, 2)+".RequestID")
		}
	}
	// checkBackendID itself
	if f := c.need(p, "C17.B", "app.checkBackendID"); f != nil {
		al := c.UniqueCall("C17.B", p, f, false, storeIface+".IsBackendUserAllowed")
		oa := c.UniqueCall("C17.B", p, f, false, "google.golang.org/appengine/v2/user.CurrentOAuth")
		if al != nil && oa != nil {
			a := Args(CallOf(al))
			c.PathIs("C17.B", "check:user-is-oauth-email", p, al.Pos(), a[2], "the user checked is the caller's OAuth e-mail", "result0:google.golang.org/appengine/v2/user.CurrentOAuth.Email")
			idv := a[3]
			okID := false
			if g := CallResult(idv, 0, "(net/http.Header).Get"); g != nil {
				k, _ := ConstString(PArgs(&g.Call)[1])
				okID = PathOf(PArgs(&g.Call)[0]) == P(f, 2)+".Header" && k == hdrBackendID
			}
			c.Check("C17.B", "check:id-from-own-header", p, al.Pos(), okID, "the ID checked is the "+hdrBackendID+" header of this call", "the backend ID checked is "+PathOf(idv))
			nOK := 0
			for _, r := range Returns(f) {
				if !IsNilConst(ReturnValue(r, 1)) {
					continue
				}
				nOK++
				c.Check("C17.B", "check:returns-checked-id", p, r.Pos(), SameValue(ReturnValue(r, 0), idv), "the ID returned on success is the one that was checked", "checkBackendID returns "+PathOf(ReturnValue(r, 0))+" on success, not the ID it checked")
				// guards
				gErr1, gErr2, gAllowed := false, false, false
				for _, g := range GuardingIfs(r) {
					if v, s, ok := ErrNilTest(g.If); ok && g.Succ != s {
						if CallResult(v, 1, "google.golang.org/appengine/v2/user.CurrentOAuth") != nil {
							gErr1 = true
						}
						if CallResult(v, 1, storeIface+".IsBackendUserAllowed") != nil {
							gErr2 = true
						}
					}
					cond, ts := BoolTest(g.If)
					if CallResult(cond, 0, storeIface+".IsBackendUserAllowed") != nil && g.Succ == ts {
						gAllowed = true
					}
				}
				c.Check("C17.B", "check:success-needs-allowed", p, r.Pos(), gErr1 && gErr2 && gAllowed, "success is returned only when OAuth succeeded, the lookup succeeded and allowed == true", fmt.Sprintf("the success return of checkBackendID is not guarded by all of: OAuth ok (%v), lookup ok (%v), allowed (%v)", gErr1, gErr2, gAllowed))
			}
			if nOK != 1 {
				c.Bad("C17.B", "check:single-success-return", p, f.Pos(), fmt.Sprintf("checkBackendID has %d success returns (expected 1)", nOK))
			}
		}
	}
	if f := c.need(p, "C17.B", "app/store.(*persistentStore).IsBackendUserAllowed"); f != nil {
		okCmp, okKey, okMissing := false, false, false
		for _, r := range Returns(f) {
			if bo, ok := ReturnValue(r, 0).(*ssa.BinOp); ok && bo.Op == token.EQL && IsNilConst(ReturnValue(r, 1)) {
				_, fld, ok1 := FieldLoad(bo.X)
				if ok1 && fld == "BackendUser" && PathOf(bo.Y) == P(f, 2) {
					okCmp = true
				}
				if _, fld2, ok2 := FieldLoad(bo.Y); ok2 && fld2 == "BackendUser" && PathOf(bo.X) == P(f, 2) {
					okCmp = true
				}
			}
			if cv, ok := ReturnValue(r, 0).(*ssa.Const); ok && cv.Value != nil && !constant.BoolVal(cv.Value) {
				okMissing = true
			}
			if cv, ok := ReturnValue(r, 0).(*ssa.Const); ok && cv.Value != nil && constant.BoolVal(cv.Value) {
				okCmp = false
			}
		}
		if nk := c.UniqueCall("C17.B", p, f, false, "google.golang.org/appengine/v2/datastore.NewKey"); nk != nil {
			a := PArgs(CallOf(nk))
			k, _ := ConstString(a[1])
			okKey = k == "backend" && PathOf(a[2]) == P(f, 3)
		}
		c.Check("C17.B", "store:allowed-is-equality", p, f.Pos(), okCmp, "allowed = (record.BackendUser == backendUser), never a constant true", "IsBackendUserAllowed does not return record.BackendUser == backendUser")
		c.Check("C17.B", "store:record-of-named-backend", p, f.Pos(), okKey, "the record is fetched by a key built from the backendID parameter in the backend kind", "the backend record is not fetched by datastore.NewKey(ctx, \"backend\", backendID, …)")
		c.Check("C17.B", "store:missing-record-denies", p, f.Pos(), okMissing, "a missing record / an error yields false", "no path of IsBackendUserAllowed returns false")
	}

	// ---- C17.D
	if f := c.need(p, "C17.D", "app.handleAPIRequest"); f != nil {
		adm := c.UniqueCall("C17.D", p, f, false, appPkg+".isAdminRequest")
		if adm != nil {
			env := func(admin bool, path string) Env {
				return func(v ssa.Value) (constant.Value, bool) {
					if v == adm.(ssa.Value) {
						return constant.MakeBool(admin), true
					}
					if _, fld, ok := FieldLoad(v); ok && fld == "Path" {
						return constant.MakeString(path), true
					}
					return nil, false
				}
			}
			crud := func(i ssa.Instruction) bool {
				return IsCall(i, appPkg+".listBackendsHandler", appPkg+".addBackendHandler", appPkg+".deleteBackendHandler") || isStoreCall(i)
			}
			bad := ""
			for _, path := range []string{"/api/backends", "/api/backends/x", "/other"} {
				if hit, _ := (&Walk{Target: crud, Edge: EdgeUnder(env(false, path))}).FromBlock(f.Blocks[0]); hit != nil {
					bad = "path " + path + " reaches " + CalleeName(CallOf(hit)) + " for a non-admin"
				}
				w := ssa.Value(ParamAt(f, 2))
				if hit, _ := (&Walk{Target: IsReturn, Avoid: func(i ssa.Instruction) bool { st, ok := producesResponse(i, w); return ok && st == 403 }, Edge: EdgeUnder(env(false, path))}).FromBlock(f.Blocks[0]); hit != nil {
					bad = "path " + path + " is not answered 403 for a non-admin"
				}
			}
			c.Check("C17.D", "api:non-admin-gets-403-only", p, f.Pos(), bad == "", "for a non-admin no backend CRUD handler / store call is reachable and every path answers 403", "admin API: "+bad)
			hit, _ := (&Walk{Target: crud, Edge: EdgeUnder(env(true, "/api/backends"))}).FromBlock(f.Blocks[0])
			c.Check("C17.D", "api:admin-is-served", p, f.Pos(), hit != nil, "administrators reach the CRUD handlers", "administrators no longer reach the CRUD handlers")
			// the only ungated arm is the cron path
			gateFree := ""
			EachInstr(f, func(i ssa.Instruction) {
				if cc := CallOf(i); cc != nil && isAppHelperCall(i) && i != adm && !Dominates(adm, i) {
					if CalleeName(cc) != appPkg+".deleteHandler" {
						gateFree = CalleeName(cc)
					} else {
						ok := false
						for _, g := range GuardingIfs(i) {
							if bo, isB := g.If.Cond.(*ssa.BinOp); isB && bo.Op == token.EQL && g.Succ == 0 {
								if s, isC := ConstString(bo.Y); isC && s == "/cron/delete" {
									ok = true
								}
							}
						}
						if !ok {
							gateFree = "deleteHandler outside the /cron/delete arm"
						}
					}
				}
			})
			c.Check("C17.D", "api:only-cron-arm-is-ungated", p, f.Pos(), gateFree == "", "the only handler reachable without the admin test is deleteHandler under path == /cron/delete", "handler "+gateFree+" is reachable without the admin test")
		}
		// api.yaml: /cron/.* has login: admin
		yb, err := os.ReadFile(filepath.Join(p.Opts.Dir, "app", "api.yaml"))
		okY := false
		if err == nil {
			re := regexp.MustCompile(`(?s)-\s*url:\s*/cron/\.\*.*?login:\s*admin`)
			seg := string(yb)
			if m := re.FindString(seg); m != "" && strings.Count(m, "- url:") == 1 {
				okY = true
			}
		}
		c.Check("C17.D", "api.yaml:cron-restricted-to-admin", p, 0, okY, "app/api.yaml: url /cron/.* carries login: admin (the frozen exception of the cron arm)", "app/api.yaml no longer restricts /cron/.* to login: admin: the ungated cron arm is open to anyone")
	}
	if f := c.need(p, "C17.D", "app.isAdminRequest"); f != nil {
		ok := true
		nTrue := 0
		for _, r := range Returns(f) {
			v := ReturnValue(r, 0)
			if cv, isC := v.(*ssa.Const); isC && cv.Value != nil {
				if constant.BoolVal(cv.Value) {
					nTrue++
					// must be guarded by user.IsAdmin true
					g := false
					for _, gi := range GuardingIfs(r) {
						cond, ts := BoolTest(gi.If)
						if CallResult(cond, 0, "google.golang.org/appengine/v2/user.IsAdmin") != nil && gi.Succ == ts {
							g = true
						}
					}
					if !g {
						ok = false
					}
				}
				continue
			}
			if PathOf(v) != "result0:google.golang.org/appengine/v2/user.CurrentOAuth.Admin" {
				ok = false
			}
		}
		c.Check("C17.D", "isAdminRequest:sources", p, f.Pos(), ok && nTrue <= 1, "true only from user.IsAdmin(ctx) or the OAuth user's Admin flag", "isAdminRequest can return true from another source")
	}

	// ---- C17.E
	if f := c.need(p, "C17.E", "app.proxyHandler"); f != nil {
		lb := c.UniqueCall("C17.E", p, f, false, storeIface+".LookupBackend")
		uc := c.UniqueCall("C17.E", p, f, false, "google.golang.org/appengine/v2/user.Current")
		if lb != nil && uc != nil {
			c.ArgIs("C17.E", "proxy:lookup-by-signed-in-user", p, lb, 2, "LookupBackend receives the signed-in user's e-mail", "result:google.golang.org/appengine/v2/user.Current.Email")
			c.ArgIs("C17.E", "proxy:lookup-by-request-path", p, lb, 3, "…and this request's path", P(f, 4)+".URL.Path")
			// nil user => 401 before any store call
			var nilIf *ssa.If
			nilSucc := 0
			EachInstr(f, func(i ssa.Instruction) {
				if x, ok := i.(*ssa.If); ok {
					if bo, isB := x.Cond.(*ssa.BinOp); isB && (IsNilConst(bo.Y) && bo.X == uc.(ssa.Value)) {
						nilIf = x
						if bo.Op == token.EQL {
							nilSucc = 0
						} else {
							nilSucc = 1
						}
					}
				}
			})
			ok := false
			if nilIf != nil {
				w := ssa.Value(ParamAt(f, 3))
				h1, _ := (&Walk{Target: func(i ssa.Instruction) bool { return isStoreCall(i) || isAppHelperCall(i) }}).FromBlock(nilIf.Block().Succs[nilSucc])
				h2, _ := (&Walk{Target: IsReturn, Avoid: func(i ssa.Instruction) bool { st, k := producesResponse(i, w); return k && st == 401 }}).FromBlock(nilIf.Block().Succs[nilSucc])
				ok = h1 == nil && h2 == nil && Dominates(nilIf, lb)
			}
			c.Check("C17.E", "proxy:anonymous-gets-401", p, f.Pos(), ok, "without a signed-in user the handler answers 401 and touches nothing", "an anonymous request is not answered 401 before any store access")
			// later store/helper calls use the looked-up backend
			EachInstr(f, func(i ssa.Instruction) {
				if i == lb || !(isStoreCall(i) || isAppHelperCall(i)) {
					return
				}
				cc := CallOf(i)
				if k := paramNamed(cc, "backendID"); k >= 0 {
					c.PathIs("C17.E", "proxy:"+shortCallee(CalleeName(cc))+":backendID", p, i.Pos(), Args(cc)[k], "the backend used is the one LookupBackend returned for this user", "result0:"+storeIface+".LookupBackend")
				}
			})
		}
	}
	for fn, want := range map[string]string{"app/store.(*persistentStore).LookupBackend": "param", "app/store.(*persistentStore).lookupSharedBackend": "allUsers"} {
		f := c.need(p, "C17.E", fn)
		if f == nil {
			continue
		}
		ok := false
		nq := 0
		for _, call := range Calls(f, "(*google.golang.org/appengine/v2/datastore.Query).Filter") {
			nq++
			a := PArgs(CallOf(call))
			k, _ := ConstString(a[1])
			if strings.ReplaceAll(k, " ", "") != "EndUser=" {
				continue
			}
			v := a[2]
			if mi, isM := v.(*ssa.MakeInterface); isM {
				v = mi.X
			}
			if want == "param" {
				ok = PathOf(v) == P(f, 2)
			} else {
				s, isC := ConstString(v)
				ok = isC && s == "allUsers"
			}
		}
		// the candidates handed to the selection come from that query
		okFlow := false
		if ms := c.UniqueCall("C17.E", p, f, false, ModPath+"/app/store.mostSpecificMatchingBackend"); ms != nil {
			okFlow = len(Calls(f, "(*google.golang.org/appengine/v2/datastore.Query).GetAll")) == 1
		}
		c.Check("C17.E", fn+":filtered-by-end-user", p, f.Pos(), ok && okFlow && nq == 1, "the candidate backends come from one query filtered by EndUser = "+want, "the backends considered in "+fn+" are not exactly those whose EndUser equals "+want+": users can be routed to other users' backends")
	}

	// ---- C17.S
	c17Sibling(c, p, "C17.S")

	// ---- C17.R
	for fn, want := range map[string]string{"app.isAgentRequest": "agent", "app.isAPIRequest": "api"} {
		if f := c.need(p, "C17.R", fn); f != nil {
			ok := false
			for _, r := range Returns(f) {
				if bo, isB := ReturnValue(r, 0).(*ssa.BinOp); isB && bo.Op == token.EQL {
					s, isC := ConstString(bo.Y)
					if isC && s == want && CallResult(bo.X, 0, "google.golang.org/appengine/v2.ModuleName") != nil {
						ok = true
					}
				}
			}
			c.Check("C17.R", fn, p, f.Pos(), ok, "ModuleName(ctx) == \""+want+"\"", fn+" no longer compares the module name with \""+want+"\"")
		}
	}
	if f := c.need(p, "C17.R", "app.handleAgentRequest"); f != nil {
		got := map[string]string{}
		EachInstr(f, func(i ssa.Instruction) {
			if !isAppHelperCall(i) {
				return
			}
			for _, g := range GuardingIfs(i) {
				cond, ts := BoolTest(g.If)
				if hp := CallResult(cond, 0, "strings.HasPrefix"); hp != nil && g.Succ == ts {
					s, _ := ConstString(PArgs(&hp.Call)[1])
					got[s] = shortCallee(CalleeName(CallOf(i)))
					break
				}
			}
		})
		ok := got["/agent/pending"] == "app.pendingHandler" && got["/agent/request"] == "app.requestHandler" && got["/agent/response"] == "app.responseHandler" && len(got) == 3
		c.Check("C17.R", "agent-dispatch", p, f.Pos(), ok, "the three agent paths dispatch to the three endpoints that start with checkBackendID", fmt.Sprintf("agent path dispatch is %v", got))
	}
	if f := p.Func("app.init#1"); f != nil {
		var h *ssa.Function
		for _, cl := range Closures(f) {
			if len(Calls(cl, appPkg+".handleAgentRequest")) == 1 {
				h = cl
			}
		}
		ok := false
		if h != nil {
			ar := Calls(h, appPkg+".isAgentRequest")
			if len(ar) == 1 {
				env := func(agent bool) Env {
					return func(v ssa.Value) (constant.Value, bool) {
						if v == ar[0].(ssa.Value) {
							return constant.MakeBool(agent), true
						}
						return nil, false
					}
				}
				h1, _ := (&Walk{Target: func(i ssa.Instruction) bool { return IsCall(i, appPkg+".handleAgentRequest") }, Edge: EdgeUnder(env(false))}).FromBlock(h.Blocks[0])
				h2, _ := (&Walk{Target: func(i ssa.Instruction) bool { return IsCall(i, appPkg+".proxyHandler", appPkg+".handleAPIRequest") }, Edge: EdgeUnder(env(true))}).FromBlock(h.Blocks[0])
				ok = h1 == nil && h2 == nil
			}
		}
		c.Check("C17.R", "service-dispatch", p, f.Pos(), ok, "agent endpoints are only served on the agent service, which serves nothing else", "the root handler does not dispatch agent calls exactly when isAgentRequest(ctx) holds")
	}
}

// c17Sibling checks cachingStore against the Store interface.
func c17Sibling(c *Ctx, p *Prog, rule string) {
	pk := p.ModPkgs[ModPath+"/app/cache"]
	tp := p.ModPkgs[ModPath+"/app/types"]
	if pk == nil || tp == nil {
		c.Unk(rule, "packages", p, 0, "app/cache or app/types not loaded")
		return
	}
	obj := pk.Types.Scope().Lookup("cachingStore")
	if obj == nil {
		c.Unk(rule, "cachingStore", p, 0, "type cachingStore not found")
		return
	}
	named := obj.Type().(*types.Named)
	st := named.Underlying().(*types.Struct)
	// the store it wraps, plus at most plain configuration values (numbers, strings, booleans, time stamps)
	// that only its constructor writes: nothing that can remember an answer
	stateful := ""
	hasBacking := false
	for k := 0; k < st.NumFields(); k++ {
		f := st.Field(k)
		if objName(f) == "BackingStore" {
			hasBacking = true
			continue
		}
		// (a time.Time is a plain value as well: a creation stamp that only the constructor writes)
		if _, isBasic := f.Type().Underlying().(*types.Basic); !isBasic && f.Type().String() != "time.Time" {
			stateful = "field " + f.Name() + " of type " + f.Type().String() + " can hold state"
			continue
		}
		for _, fn := range p.AllFuncsIn("app/cache") {
			EachInstrRaw(fn, func(i ssa.Instruction) {
				if stt, isSt := i.(*ssa.Store); isSt {
					if fa, isFA := stt.Addr.(*ssa.FieldAddr); isFA && NamedTypeRel(fa.X.Type()) == "app/cache.cachingStore" && fieldName(fa.X.Type(), fa.Field) == objName(f) {
						if al, isAl := fa.X.(*ssa.Alloc); !isAl || al.Parent() != fn || fn.Signature.Recv() != nil {
							stateful = "field " + f.Name() + " is written at " + p.Pos(stt.Pos()) + ", outside the literal that creates the store"
						}
					}
				}
			})
		}
	}
	c.Check(rule, "cachingStore:stateless", p, obj.Pos(), hasBacking && stateful == "", "cachingStore holds the store it wraps and at most constant configuration: no in-process state (memo, map) can shadow the authoritative store", fmt.Sprintf("cachingStore has %d fields (%s): in-process state can return stale access/routing decisions", st.NumFields(), stateful))
	iface := tp.Types.Scope().Lookup("Store").Type().Underlying().(*types.Interface)
	pure := map[string]bool{"IsBackendUserAllowed": true, "LookupBackend": true, "AddBackend": true, "ListBackends": true, "DeleteBackend": true, "DeleteOldBackends": true, "DeleteOldRequests": true, "ListPendingRequests": true}
	for k := 0; k < iface.NumMethods(); k++ {
		m := iface.Method(k)
		fn := p.Func("app/cache.(*cachingStore)." + objName(m))
		if fn == nil {
			// promoted from the embedded backing store: the purest form of delegation (same
			// receiver, same arguments, no code in between) — only for the methods that must be pure
			promoted := false
			for k2 := 0; k2 < st.NumFields(); k2++ {
				f := st.Field(k2)
				if f.Embedded() && objName(f) == "BackingStore" && types.Identical(f.Type().Underlying(), iface) {
					promoted = true
				}
			}
			if promoted && pure[objName(m)] {
				c.OK(rule, "cachingStore."+objName(m), p, obj.Pos(), "promoted from the embedded backing store: delegation with the caller's own arguments by construction")
				continue
			}
			c.Bad(rule, "cachingStore."+objName(m), p, 0, "method missing")
			continue
		}
		var del []ssa.Instruction
		others := 0
		EachInstr(fn, func(i ssa.Instruction) {
			cc := CallOf(i)
			if cc == nil {
				return
			}
			if cc.IsInvoke() && cc.Method.FullName() == storeIface+"."+objName(m) {
				del = append(del, i)
			} else {
				others++
			}
		})
		bad := ""
		if len(del) != 1 {
			bad = fmt.Sprintf("%d delegating calls to BackingStore.%s", len(del), objName(m))
		} else {
			a := Args(CallOf(del[0]))
			if PathOf(a[0]) != P(fn, 0)+".BackingStore" {
				bad = "does not delegate to its BackingStore"
			}
			for j := 1; j < len(a); j++ {
				if PathOf(a[j]) != P(fn, j) {
					bad = fmt.Sprintf("argument %d of the delegating call is %s, not the method's own parameter %d", j, PathOf(a[j]), j)
				}
			}
			if pure[objName(m)] {
				if others > 0 || len(fn.Blocks) != 1 {
					bad = "is not a pure delegation (other calls or branches): an access/routing/listing decision must not be cached or altered in front of the authoritative store"
				}
				// result returned as is
				for _, r := range Returns(fn) {
					for ri := range r.Results {
						v := ReturnValue(r, ri)
						if e, ok := v.(*ssa.Extract); ok && e.Tuple == del[0].(ssa.Value) {
							continue
						}
						if v == del[0].(ssa.Value) {
							continue
						}
						bad = "does not return the backing store's result unchanged"
					}
				}
			}
		}
		c.Check(rule, "cachingStore."+objName(m), p, fn.Pos(), bad == "", "delegates to BackingStore."+objName(m)+" with its own parameters in the same positions"+map[bool]string{true: " (pure delegation)", false: ""}[pure[objName(m)]], "cachingStore."+objName(m)+" "+bad)
	}
	ruleStoreKeys(c, p, rule)
}

// ruleStoreKeys: cache/datastore keys are injective encodings of (backend ID,
// request ID) and are built from the same roles on the write and read side.
func ruleStoreKeys(c *Ctx, p *Prog, rule string) {
	// key constructors are injective encodings of their components
	for _, kf := range []struct {
		fn string
		n  int
	}{{"app/store.requestKind", 1}} {
		f := p.Func(kf.fn)
		if f == nil {
			c.Unk(rule, "key-injective:"+kf.fn, p, 0, "key constructor not found")
			continue
		}
		ok := false
		why := "it is not a single fmt.Sprintf with a constant format"
		rs := Returns(f)
		if len(rs) == 1 {
			if call := CallResult(ReturnValue(rs[0], 0), 0, "fmt.Sprintf"); call != nil {
				format, isC := ConstString(PArgs(&call.Call)[0])
				if isC {
					nq := strings.Count(format, "%q")
					nverbs := strings.Count(format, "%") - 2*strings.Count(format, "%%")
					// every string parameter must be rendered with %q (quoted, hence delimiter-safe)
					nparams := 0
					SliceBack(PArgs(&call.Call)[1], func(v ssa.Value) bool {
						if pr, isP := v.(*ssa.Parameter); isP && pr.Parent() == f {
							nparams++
						}
						return true
					})
					ok = nq == kf.n && nparams == kf.n && nverbs-nq <= 1
					why = fmt.Sprintf("format %q renders %d of its %d components with %%q", format, nq, kf.n)
				}
			}
		}
		if !ok && len(rs) == 1 {
			// … or a concatenation of constants and strconv.Quote(<component>): %q is strconv.Quote
			nparams, fine := 0, true
			var walk func(v ssa.Value, d int)
			walk = func(v ssa.Value, d int) {
				if d > 8 {
					fine = false
					return
				}
				if bo, isB := v.(*ssa.BinOp); isB && bo.Op == token.ADD {
					walk(bo.X, d+1)
					walk(bo.Y, d+1)
					return
				}
				if _, isC := ConstString(v); isC {
					return
				}
				if q := CallResult(v, 0, "strconv.Quote"); q != nil {
					if pr, isP := q.Call.Args[0].(*ssa.Parameter); isP && pr.Parent() == f {
						nparams++
						return
					}
				}
				fine = false
			}
			walk(ReturnValue(rs[0], 0), 0)
			if fine && nparams == kf.n {
				ok = true
			}
		}
		c.Check(rule, "key-injective:"+kf.fn, p, f.Pos(), ok, "the key is fmt.Sprintf with every component quoted (%q): distinct (backend ID, request ID) pairs give distinct keys", "key constructor "+kf.fn+": "+why+": components containing the delimiter make different (backend ID, request ID) pairs collide, so one backend's agent can read or answer another backend's requests")
	}
	ruleCacheKeysByUse(c, p, rule)
}

// ruleBackendDefinitionWriters: a backend definition (who may act as the backend, whose
// requests it gets) is put into the datastore by AddBackend and by nothing else. A read-modify-
// write of the record on a path that agents drive (a last-used stamp kept on the record, say)
// runs outside any transaction: it can put back the definition it read after an administrator
// replaced or deleted it.
func ruleBackendDefinitionWriters(c *Ctx, p *Prog, rule string) {
	bad := ""
	n := 0
	for _, fn := range p.AllFuncsIn("app/store") {
		EachInstrRaw(fn, func(i ssa.Instruction) {
			cc := CallOf(i)
			if cc == nil {
				return
			}
			name := CalleeName(cc)
			if name != "google.golang.org/appengine/v2/datastore.Put" && name != "google.golang.org/appengine/v2/datastore.PutMulti" {
				return
			}
			n++
			a := PArgs(cc)
			src := a[len(a)-1]
			if mi, isMI := src.(*ssa.MakeInterface); isMI {
				src = mi.X
			}
			t := src.Type()
			for k := 0; k < 3; k++ {
				switch u := t.Underlying().(type) {
				case *types.Pointer:
					t = u.Elem()
				case *types.Slice:
					t = u.Elem()
				}
			}
			if NamedTypeRel(t) != "app/types.Backend" {
				return
			}
			top := TopFunc(fn)
			if FuncName(top) != "app/store.(*persistentStore).AddBackend" && !(IsNewHelper(top) && helperCalledFrom(top, p.Func("app/store.(*persistentStore).AddBackend"))) {
				bad = FuncName(fn) + " at " + p.Pos(i.Pos())
			}
		})
	}
	c.Check(rule, "store:backend-definitions-written-by-AddBackend-only", p, 0, bad == "" && n > 0, fmt.Sprintf("%d datastore writes in app/store: backend definitions are put by AddBackend only", n), "a backend definition is also written in "+bad+": a write of the record read earlier (outside a transaction) restores the old BackendUser/EndUser/PathPrefixes after an administrator changed or deleted the registration — the old agent stays accepted and the old user keeps being routed to the backend")
}

package ipc

import (
	"fmt"
	"go/types"
	"sort"
	"strings"

	"golang.org/x/tools/go/ssa"
)

func init() {
	register(&PropSpec{
		ID:    "C07",
		Progs: []string{"agent", "mod"},
		Explanation: "Decides the ways this code base can kill or wedge the whole agent from per-request code, for every fault sequence: " +
			"(F) no process-terminating call (log.Fatal*, log.Panic*, os.Exit, panic, runtime.Goexit) in module source is reachable (VTA call graph of the agent binary, through stdlib callbacks) from the per-request worker; " +
			"(L) agent-side shared state is only accessed under its mutex (lockset); (S) inventory of shared mutable maps / non-goroutine-safe objects: each is guarded, per-request, or read-only after construction; " +
			"(A) no unchecked type assertion in per-request module code; (E) the polling loop waits on nothing a worker owns; (G) the reverse proxy keeps its default 502 error handler (or a custom one writes 502 on every path); " +
			"(P) response maps handed to the serialiser goroutine are not aliased with maps the handler keeps mutating; (C) no channel with concurrent senders is closed, no unguarded blocking send in shim endpoints. " +
			"Not decided: panics inside dependencies, resource exhaustion, latency of neighbours. " +
			"(N, second part) elements of pointer collections filled by encoding/json are nil-tested before use; (C, second part) a channel is only closed by its sole sending goroutine (or after WaitGroup.Wait). " +
			"(I) an offset found by searching one string/slice only slices that same value, and possibly-nil pointers are tested before use; (Q) per-request functions never return (nil, nil); (R) the fetch helper's error belongs to the response it returns; (O) the dedup LRU is confined to the poller; (E, second part) one worker goroutine is started per fetched request without waiting for earlier ones." +
			" (Q, second part) no function, new helpers included, returns a nil result together with an error variable that was tested nil on a path reaching that return; (C, third part) shim sessions are forgotten only by close and failed polls (shared with C12.U); (G, second part) only the reasoned fields of the reverse proxy are set (a custom ErrorLog/ErrorHandler can block or skip the 502).",
		Assumptions: []string{
			"VTA call graph is sound for this module (no reflect/unsafe dispatch)",
			"dependencies do not call os.Exit/log.Fatal on per-request paths (only module source is scanned for exit calls)",
		},
		Run: runC07,
	})
}

var agentGuards = []*Guard{
	{Type: "agent/sessions.Cache", Field: "cache", Lock: "agent/sessions.Cache.mu", Why: `groupcache lru.Cache is documented "not safe for concurrent access" (Get reorders the list and reads the map); the session handler runs concurrently for every request`},
	{Type: "", Field: "agent/metrics.codeCount", Lock: "agent/metrics.MetricHandler.mu", Why: "package-level map written by every request goroutine (WriteResponseCodeMetric) and iterated/replaced by the periodic emitter; concurrent map iteration and write is a fatal error that kills the agent",
		Exempt: map[string]string{"agent/metrics.newMetricHandlerHelper": "constructor: runs before the handler exists and before any request goroutine is started"}},
	{Type: "agent/utils.vmTransport", Field: "currID", Lock: "agent/utils.vmTransport.Mutex", Why: `comment "Protects the currID field"; written by the refresh goroutine, read by every RoundTrip`},
}

// sharedViaRegistry: types allocated in per-request code but shared between
// requests through a registry; their map fields (none today) count as shared.
var sharedViaRegistry = map[string]string{
	"agent/websockets.Connection": "stored in the shim's session table (sync.Map) and used by later data/poll/close requests",
}

var exitCallees = processExitCallees

// exitSites lists process-terminating sites in module source.
func exitSites(p *Prog) []ssa.Instruction {
	var out []ssa.Instruction
	for _, fn := range p.Funcs {
		EachInstr(fn, func(i ssa.Instruction) {
			if IsCall(i, exitCallees...) {
				out = append(out, i)
				return
			}
			if pn, ok := i.(*ssa.Panic); ok {
				if mi, ok := pn.X.(*ssa.MakeInterface); ok {
					if s, ok := ConstString(mi.X); ok && strings.HasPrefix(s, "blocking select matched no case") {
						return // synthetic
					}
				}
				out = append(out, i)
			}
		})
	}
	return out
}

func exitName(i ssa.Instruction) string {
	if _, ok := i.(*ssa.Panic); ok {
		return "panic"
	}
	return CalleeName(CallOf(i))
}

func runC07(c *Ctx) {
	p := c.Progs["agent"]
	c.Rule("C07.Y", "compatibility with the party that is not changed with this code: session cookies of the previous build still get a jar; request IDs do not repeat across proxy restarts (= C01.G)", 3)
	if pm := c.Progs["mod"]; pm != nil {
		ruleEverySessionIDGetsAJar(c, pm, "C07.Y")
		ruleNewIDShape(c, pm, "C07.Y")
		ruleReaderEndsOnEveryReadError(c, pm, "C07.Y")
	} else {
		c.Unk("C07.Y", "program:mod", p, 0, "whole-module program not loaded")
	}

	// ---- C07.F
	c.Rule("C07.F", "no process-terminating call in module source is reachable from the per-request worker (VTA reachability); no I/O-fault signal is treated as a shutdown request", 3)
	root := c.need(p, "C07.F", "agent.processOneRequest")
	var reach map[*ssa.Function][]*ssa.Function
	if root != nil {
		reach = p.Reachable(root)
		nmod := 0
		for f := range reach {
			if p.IsModFunc(f) {
				nmod++
			}
		}
		c.Infof("per-request code: %d module functions (of %d functions) reachable from agent.processOneRequest", nmod, len(reach))
		if nmod < 40 {
			c.Bad("C07.F", "reachability-sanity", p, root.Pos(), fmt.Sprintf("only %d module functions reachable from processOneRequest (expected ≥40: worker, response writers, session handler, shim endpoints, …): the call graph lost the handler chain", nmod))
		}
		cnt := map[string]int{}
		for _, s := range exitSites(p) {
			fn := s.Parent()
			base := fmt.Sprintf("%s in %s", exitName(s), FuncName(fn))
			cnt[base]++
			key := fmt.Sprintf("%s #%d", base, cnt[base])
			if chain, ok := reach[fn]; ok {
				c.Bad("C07.F", key, p, s.Pos(), "process-terminating call reachable from per-request code: "+p.ChainString(chain)+" — one failing request would end the agent and every other request in flight")
			} else {
				c.OK("C07.F", key, p, s.Pos(), "not reachable from agent.processOneRequest (start-up / lifecycle code)")
			}
		}
	}

	// the shutdown channel is not closed by a signal that an I/O fault raises: once a program
	// asks for SIGPIPE with signal.Notify, a write to any broken pipe or socket delivers it, so a
	// single client or backend that hangs up would start the agent's shutdown
	for _, fn := range p.AllFuncs {
		if !p.IsModFunc(fn) {
			continue
		}
		if pk := fnPkg(fn); pk == nil || !(Rel(pk.Pkg.Path()) == "agent" || strings.HasPrefix(Rel(pk.Pkg.Path()), "agent/")) {
			continue
		}
		for _, sn := range Calls(fn, "os/signal.Notify") {
			sigs := notifiedSignals(p, sn)
			c.Check("C07.F", "signals:none-raised-by-io-faults@"+FuncName(fn), p, sn.Pos(), len(sigs) > 0 && !sigs[13], fmt.Sprintf("signal.Notify registers %v: no SIGPIPE(13), and not every signal", sigs), fmt.Sprintf("signal.Notify in %s registers %v (an empty set means every signal): SIGPIPE(13) is raised by a write to a connection its peer has closed, so one broken connection makes the agent shut down with all its other requests", FuncName(fn), sigs))
		}
	}

	// ---- C07.L
	c.Rule("C07.L", "lockset: agent-side shared state is only accessed under its mutex", 6)
	checkGuards(c, p, "C07.L", agentGuards)

	// ---- C07.S
	c.Rule("C07.S", "inventory of shared mutable state (maps, *rand.Rand, *lru.Cache in package variables and struct fields): guarded, per-request, or never mutated after construction", 8)
	sharedStateInventory(c, p, "C07.S", agentGuards, reach)

	// ---- C07.A
	c.Rule("C07.A", "no unchecked type assertion in per-request module code", 8)
	if reach != nil {
		var fs []*ssa.Function
		for f := range reach {
			if p.IsModFunc(f) {
				fs = append(fs, f)
			}
		}
		sort.Slice(fs, func(i, j int) bool { return FuncName(fs[i]) < FuncName(fs[j]) })
		for _, f := range fs {
			n := 0
			EachInstr(f, func(i ssa.Instruction) {
				ta, ok := i.(*ssa.TypeAssert)
				if !ok {
					return
				}
				if types.Identical(ta.X.Type(), ta.AssertedType) {
					return // go/ssa's nil check for an interface method value (ctx.Done), not a source assertion
				}
				n++
				key := fmt.Sprintf("%s assert#%d to %s", FuncName(f), n, NamedTypeRel(ta.AssertedType))
				c.Check("C07.A", key, p, i.Pos(), ta.CommaOk, "comma-ok form", "unchecked type assertion x.("+NamedTypeRel(ta.AssertedType)+") on a per-request path ("+p.ChainString(reach[f])+") panics on unexpected input and kills the agent (workers have no recover)")
			})
		}
	}

	// ---- C07.E
	c.Rule("C07.E", "the polling loop shares no wait with its workers; one goroutine per request; one garbled ID does not fail the list", 4)
	ruleListNotRejectedForOneElement(c, p, "C07.E")
	ruleWorkerPerRequest(c, p, "C07.E")
	c.Rule("C07.I", "offsets are applied to the value they were found in; possibly-nil pointers are tested before use; externally supplied indices are bounded below; a response returned with an error is not dereferenced", 6)
	ruleExternalIndexInBounds(c, p, "C07.I", "agent/websockets", "agent/utils", "agent/sessions", "agent/banner", "agent/metrics", "agent")
	ruleSizesFromOutsideAreSane(c, p, "C07.I", "agent/websockets", "agent/utils", "agent/sessions", "agent/banner", "agent/metrics", "agent")
	ruleResponseDerefOnErrorPath(c, p, "C07.I", "agent/websockets", "agent/utils", "agent", "agent/sessions", "agent/banner")
	ruleIndexSliceAgreement(c, p, "C07.I", "agent/websockets", "agent/banner", "agent/utils", "agent/sessions")
	ruleMayNilDeref(c, p, "C07.I", "agent/websockets.(*Connection).SendClientMessage", "agent/websockets.(*Connection).ReadServerMessages", "agent/websockets.NewConnection")
	if f := c.need(p, "C07.E", "agent.pollForNewRequests"); f != nil {
		bad := ""
		for _, op := range ChanOpsOf(f) {
			if op.Kind == "recv" && op.InSelect && op.HasDefault {
				continue // non-blocking check of the polling context
			}
			// a bounded wait: a select whose arms are a fresh timer (the back-off delay) and the
			// polling context's Done — it waits for no worker
			if op.Kind == "recv" && op.InSelect && op.Select != nil {
				timer, other := false, false
				for _, st := range op.Select.States {
					switch {
					case st.Dir == types.RecvOnly && isTimerChan(st.Chan):
						timer = true
					case st.Dir == types.RecvOnly && isDoneChan(st.Chan):
					default:
						other = true
					}
				}
				if timer && !other {
					continue
				}
			}
			// … or a receive from a timer that is armed on every path to it (= C08.L): it waits for no worker either
			if op.Kind == "recv" && !op.InSelect {
				if rv, _, okT := armedTimerWait(f); okT && rv == op.Instr {
					continue
				}
			}
			bad = fmt.Sprintf("%s on %s at %s", op.Kind, PathOf(op.Chan), p.Pos(op.Instr.Pos()))
		}
		for _, w := range Calls(f, "(*sync.WaitGroup).Wait") {
			bad = "WaitGroup.Wait at " + p.Pos(w.Pos())
		}
		c.Check("C07.E", "poll-loop:no-blocking-wait", p, f.Pos(), bad == "", "the polling loop performs no blocking channel operation and no WaitGroup.Wait", "the polling loop blocks on "+bad+": a worker that never finishes would stop all polling")
		gos := 0
		EachInstr(f, func(i ssa.Instruction) {
			if g, ok := i.(*ssa.Go); ok {
				gos++
				okArgs := true
				for _, a := range PArgs(&g.Call) {
					if a == nil {
						continue
					}
					switch a.Type().Underlying().(type) {
					case *types.Chan:
						okArgs = false
					}
					if NamedType(a.Type()) == "sync.WaitGroup" {
						okArgs = false
					}
				}
				c.Check("C07.E", "poll-loop:worker-args", p, i.Pos(), okArgs, "workers are started fire-and-forget (no channel / WaitGroup argument)", "a channel or WaitGroup is handed to the worker goroutine")
			}
		})
		if gos == 0 {
			c.Unk("C07.E", "poll-loop:worker-args", p, f.Pos(), "no go statement found in pollForNewRequests")
		}
	}

	// ---- C07.G
	c.Rule("C07.G", "unreachable backend is answered 502: default ReverseProxy error handler, or a custom one that writes 502 on every path", 1)
	{
		var stores []*ssa.Store
		for _, fn := range p.Funcs {
			EachInstr(fn, func(i ssa.Instruction) {
				if st, ok := i.(*ssa.Store); ok {
					if base, f, ok := FieldAddrOf(st.Addr); ok && f == "ErrorHandler" && NamedType(base.Type()) == "net/http/httputil.ReverseProxy" {
						stores = append(stores, st)
					}
				}
			})
		}
		if len(stores) == 0 {
			c.OK("C07.G", "ReverseProxy.ErrorHandler", p, 0, "no module code sets ReverseProxy.ErrorHandler: the default handler answers 502 Bad Gateway")
		}
		for _, st := range stores {
			var fn *ssa.Function
			switch v := Peel(st.Val).(type) {
			case *ssa.Function:
				fn = v
			case *ssa.MakeClosure:
				fn = v.Fn.(*ssa.Function)
			}
			if fn == nil || len(fn.Blocks) == 0 {
				c.Unk("C07.G", "ReverseProxy.ErrorHandler", p, st.Pos(), "custom ErrorHandler whose function cannot be resolved")
				continue
			}
			w := &Walk{Target: IsReturn, Avoid: func(i ssa.Instruction) bool { return writesStatus(i, 502) }}
			hit, path := w.FromBlock(fn.Blocks[0])
			c.Check("C07.G", "ReverseProxy.ErrorHandler", p, st.Pos(), hit == nil, "custom ErrorHandler writes 502 on every path", "custom ErrorHandler "+FuncName(fn)+" has a path that returns without writing 502: "+PathString(p, path))
		}
		// the chain ends in a ReverseProxy
		if f := c.need(p, "C07.G", "agent.hostProxy"); f != nil {
			n := len(Calls(f, "net/http/httputil.NewSingleHostReverseProxy"))
			c.Check("C07.G", "hostProxy:reverse-proxy", p, f.Pos(), n == 1, "the handler chain is built around one httputil.NewSingleHostReverseProxy", fmt.Sprintf("hostProxy builds %d single-host reverse proxies (expected 1)", n))
		}
	}

	// ---- C07.R: a failed fetch surfaces as an error, never as (nil response, nil error)
	c.Rule("C07.R", "fetch helper: the error returned with a possibly-nil response comes from the same client.Do call; the forwarder is bound to the uncancellable fetched request", 3)
	if f := c.need(p, "C07.R", "agent/utils.getRequestWithRetries"); f != nil {
		do := c.UniqueCall("C07.R", p, f, false, "(*net/http.Client).Do")
		if do != nil {
			bad := ""
			for _, r := range Returns(f) {
				v0, v1 := ReturnValue(r, 0), ReturnValue(r, 1)
				mayNilResp, errFromDo, errConstNil := false, false, false
				for _, x := range Roots(v0) {
					if IsNilConst(x) {
						mayNilResp = true
					}
				}
				for _, x := range Roots(v1) {
					if e, ok := x.(*ssa.Extract); ok && e.Tuple == do.(ssa.Value) && e.Index == 1 {
						errFromDo = true
					}
					if IsNilConst(x) {
						errConstNil = true
					}
				}
				_ = errConstNil
				if mayNilResp && !errFromDo {
					// allowed only if the error is definitely non-nil: the early return of the NewRequest error
					guarded := false
					for _, g := range GuardingIfs(r) {
						if v, s, ok := ErrNilTest(g.If); ok && g.Succ == s && SameValue(v, v1) {
							guarded = true
						}
					}
					// … or an error made on the spot (fmt.Errorf/errors.New never return nil)
					made := true
					for _, x := range Roots(v1) {
						if CallResult(x, 0, "fmt.Errorf", "errors.New") == nil {
							made = false
						}
					}
					if made && len(Roots(v1)) > 0 {
						guarded = true
					}
					if !guarded {
						bad = "the return at " + p.Pos(r.Pos()) + " can hand back a nil response together with an error value that does not come from the client.Do call (" + PathOf(v1) + ")"
					}
				}
			}
			c.Check("C07.R", "fetch:nil-response-implies-do-error", p, f.Pos(), bad == "", "whenever the returned response may be nil, the returned error is the one of the same client.Do call (or a tested non-nil error)", "getRequestWithRetries: "+bad+": when every attempt fails without an HTTP response the caller gets (nil, nil), dereferences the nil response in the worker goroutine (no recover) and the whole agent dies")
		}
	}
	if f := c.need(p, "C07.R", "agent.forwardRequest"); f != nil {
		if g := c.UniqueCall("C07.R", p, f, false, ModPath+"/agent/utils.NewResponseForwarder"); g != nil {
			c.ArgIs("C07.R", "forwarder:bound-to-fetched-request", p, g, 4, "the response forwarder watches the context of the fetched request itself (never cancelled by the agent), so an error answer (502) produced after a backend failure is still published", P(f, 2)+".Contents")
			// … and that field still holds the fetched request: forwardRequest does not replace it
			// (request.Contents = request.Contents.WithContext(<a context with a deadline>) would make the
			// serialiser give up when the deadline fires, before the 502 of a stuck backend is published)
			repl := ""
			for _, st := range StoresToField(WithClosures(f), "agent/utils.ForwardedRequest", "Contents") {
				repl = p.Pos(st.Pos())
			}
			c.Check("C07.R", "forwarder:fetched-request-not-replaced", p, g.Pos(), repl == "", "forwardRequest does not overwrite request.Contents", "forwardRequest overwrites request.Contents at "+repl+" (e.g. with a copy that carries a deadline): the response forwarder is bound to that object, stops serialising when its context ends and the 502 of an unreachable backend is never uploaded")
		}
	}

	// ---- C07.Q: no (nil, nil) from per-request helpers whose callers dereference the result after the error test
	c.Rule("C07.Q", "per-request module functions returning (pointer|interface, error) never return a possibly-nil value together with a definitely-nil error", 4)
	if reach != nil {
		var fs []*ssa.Function
		for f := range reach {
			if p.IsModFunc(f) {
				fs = append(fs, f)
			}
		}
		sort.Slice(fs, func(i, j int) bool { return FuncName(fs[i]) < FuncName(fs[j]) })
		for _, f := range fs {
			res := f.Signature.Results()
			if res.Len() != 2 || res.At(1).Type().String() != "error" {
				continue
			}
			isHelper := IsNewHelper(f)
			switch res.At(0).Type().Underlying().(type) {
			case *types.Pointer, *types.Interface:
			default:
				continue
			}
			bad := ""
			for _, r := range Returns(f) {
				v0, v1 := ReturnValue(r, 0), ReturnValue(r, 1)
				mayNil := false
				for _, x := range Roots(v0) {
					if IsNilConst(x) {
						mayNil = true
					}
				}
				if !mayNil {
					continue
				}
				// `return nil, err` where err was tested and the function carried on with err == nil
				// (a retry loop that gives up after a 5xx answer: the last error is nil)
				allNil := true
				for _, x := range Roots(v0) {
					if !IsNilConst(x) {
						allNil = false
					}
				}
				if allNil {
					for _, x := range Roots(v1) {
						for _, u := range Refs(x) {
							bo, ok := u.(*ssa.BinOp)
							if !ok || !(IsNilConst(bo.X) || IsNilConst(bo.Y)) {
								continue
							}
							for _, uu := range Refs(bo) {
								ifi, ok := uu.(*ssa.If)
								if !ok {
									continue
								}
								if _, nonNilSucc, ok := ErrNilTest(ifi); ok {
									nilBlk := ifi.Block().Succs[1-nonNilSucc]
									if nilBlk != r.Block() && !nilBlk.Dominates(r.Block()) && blockReaches(nilBlk, r.Block()) && len(Roots(v1)) > 1 {
										bad = "the return at " + p.Pos(r.Pos()) + " yields a nil result with an error variable that is nil on the path through " + p.Pos(ifi.Pos()) + " (tested, found nil, carried on, e.g. to give up after a 5xx answer)"
									}
								}
							}
						}
					}
				}
				if isHelper {
					continue // the definite (nil, nil) pairs of a helper are followed in its caller
				}
				defNil := true
				for _, x := range Roots(v1) {
					if IsNilConst(x) {
						continue
					}
					// a value that was tested against nil with the function continuing only on the nil branch
					tested := false
					for _, u := range Refs(x) {
						if bo, ok := u.(*ssa.BinOp); ok && (IsNilConst(bo.X) || IsNilConst(bo.Y)) {
							for _, uu := range Refs(bo) {
								if ifi, ok := uu.(*ssa.If); ok {
									if _, nonNilSucc, ok := ErrNilTest(ifi); ok {
										nilBlk := ifi.Block().Succs[1-nonNilSucc]
										if nilBlk == r.Block() || nilBlk.Dominates(r.Block()) {
											tested = true
										}
									}
								}
							}
						}
					}
					if !tested {
						defNil = false
					}
				}
				if defNil {
					bad = "the return at " + p.Pos(r.Pos()) + " can yield a nil result with a nil error (error value: " + PathOf(v1) + ")"
				}
			}
			c.Check("C07.Q", FuncName(f), p, f.Pos(), bad == "", "no return pairs a possibly-nil result with a definitely-nil error", FuncName(f)+": "+bad+": its caller tests only the error and then dereferences the result in a worker goroutine without recover — a nil-pointer panic there kills the whole agent")
		}
	}

	// ---- C07.O: the dedup LRU stays in the polling goroutine (= C04.O)
	c.Rule("C07.O", "the (not goroutine-safe) dedup LRU is confined to the polling goroutine (= C04.O)", 1)
	if f := c.need(p, "C07.O", "agent.pollForNewRequests"); f != nil {
		if newc := c.UniqueCall("C07.O", p, f, false, "github.com/golang/groupcache/lru.New"); newc != nil {
			checkLRUConfined(c, p, "C07.O", newc)
		}
	}
	// ---- C07.N: nil messages crossing the shim's channels
	c.Rule("C07.N", "a possibly-nil message sent on a shim channel is nil-checked by the receiving goroutine before it is dereferenced; receives from a channel that gets closed test ok", 4)
	ruleShimNilMessages(c, p, "C07.N")
	ruleDecodedPointersChecked(c, p, "C07.N", "agent/websockets", "agent/utils", "agent")

	// ---- C07.P / C07.C: shared obligations
	c.Rule("C07.P", "published response maps are not aliased with maps the handler goroutine keeps mutating (= C03.P)", 2)
	rulePublishedMaps(c, p, "C07.P")
	c.Rule("C07.C", "channel typestate in the websocket shim: no close of a multi-sender channel, sends select on done (= C12.C/B)", 3)
	ruleShimChannels(c, p, "C07.C", "C07.C")
	ruleNoCloseUnderOtherSenders(c, p, "C07.C", "agent/utils", "agent/websockets", "agent")
	// malformed shim input does not take a healthy session away from later calls (= C12.U)
	if se := resolveShimEndpoints(c, p, "C07.C"); se != nil {
		ruleForgetSites(c, p, "C07.C", se)
	}
	// the 502 is written by the reverse proxy's own error path: no field of the proxy other
	// than the reasoned ones is set (a custom ErrorLog/ErrorHandler can block or skip it) (= C14.P)
	ruleReverseProxyFields(c, p, "C07.G")
	ruleNoMutationOfHTTPDefaults(c, p, "C07.G")
}

// writesStatus: i writes HTTP status `code` (WriteHeader(code) or http.Error(..., code)).
func writesStatus(i ssa.Instruction, code int64) bool {
	cc := CallOf(i)
	if cc == nil {
		return false
	}
	switch CalleeName(cc) {
	case "(net/http.ResponseWriter).WriteHeader":
		n, ok := ConstInt(Args(cc)[1])
		return ok && n == code
	case "net/http.Error":
		n, ok := ConstInt(PArgs(cc)[2])
		return ok && n == code
	}
	return false
}

// sharedStateInventory enumerates package variables and struct fields of
// module packages (outside testing/) whose type is a map, *map,
// *math/rand.Rand or *lru.Cache, and classifies each.
func sharedStateInventory(c *Ctx, p *Prog, rule string, guards []*Guard, reach map[*ssa.Function][]*ssa.Function) {
	owned := map[string]string{}
	guarded := map[string]*Guard{}
	for _, g := range guards {
		if g.Type == "" {
			guarded[g.Field] = g
		} else {
			guarded[g.Type+"."+g.Field] = g
		}
	}
	isRisky := func(t types.Type) string {
		switch u := t.Underlying().(type) {
		case *types.Map:
			return "map"
		case *types.Pointer:
			if _, ok := u.Elem().Underlying().(*types.Map); ok {
				return "*map"
			}
		}
		switch NamedType(t) {
		case "math/rand.Rand":
			return "*rand.Rand (not goroutine-safe)"
		case "github.com/golang/groupcache/lru.Cache":
			return "*lru.Cache (not goroutine-safe)"
		}
		return ""
	}
	var paths []string
	for ip := range p.ModPkgs {
		paths = append(paths, ip)
	}
	sort.Strings(paths)
	for _, ip := range paths {
		rel := Rel(ip)
		if strings.HasPrefix(rel, "testing") {
			continue
		}
		pk := p.ModPkgs[ip]
		scope := pk.Types.Scope()
		for _, name := range scope.Names() {
			switch o := scope.Lookup(name).(type) {
			case *types.Var:
				kind := isRisky(o.Type())
				if kind == "" {
					continue
				}
				id := rel + "." + name
				classifyState(c, p, rule, id, kind, "", id, guarded, owned)
			case *types.TypeName:
				st, ok := o.Type().Underlying().(*types.Struct)
				if !ok {
					continue
				}
				for k := 0; k < st.NumFields(); k++ {
					f := st.Field(k)
					kind := isRisky(f.Type())
					if kind == "" {
						continue
					}
					id := rel + "." + name + "." + objName(f)
					if why := perRequestType(p, rel+"."+name, reach); why != "" {
						owned[id] = why
					}
					classifyState(c, p, rule, id, kind, rel+"."+name, objName(f), guarded, owned)
				}
			}
		}
	}
}

func classifyState(c *Ctx, p *Prog, rule, id, kind, typ, field string, guarded map[string]*Guard, owned map[string]string) {
	if g, ok := guarded[id]; ok {
		c.OK(rule, id, p, 0, kind+": in the guard table (must hold "+g.Lock+"; checked by the lockset rule)")
		return
	}
	if why, ok := owned[id]; ok {
		c.OK(rule, id, p, 0, kind+": "+why)
		return
	}
	// mutation sites outside constructors
	g := &Guard{Type: typ, Field: field}
	var muts []string
	for _, a := range GuardedAccesses(p, g) {
		if isMutation(a.Instr, kind) {
			fn := a.Fn
			if fn.Name() == "init" || strings.HasPrefix(fn.Name(), "init#") {
				continue
			}
			muts = append(muts, fmt.Sprintf("%s (%s)", p.Pos(a.Instr.Pos()), FuncName(fn)))
		}
	}
	if len(muts) == 0 {
		c.OK(rule, id, p, 0, kind+": never mutated outside its constructor/initialiser — read-only shared state")
		return
	}
	// a cache wrapped in a new type whose every instance holds an LRU that never leaves the
	// goroutine that made it (the poller's dedup cache behind a small seen-IDs type)
	if strings.Contains(kind, "lru.Cache") {
		nst, conf := 0, true
		for _, fn := range p.AllFuncs {
			if !p.IsModFunc(fn) {
				continue
			}
			EachInstrRaw(fn, func(i ssa.Instruction) {
				st, isSt := i.(*ssa.Store)
				if !isSt {
					return
				}
				fa, isFA := st.Addr.(*ssa.FieldAddr)
				if !isFA || NamedTypeRel(fa.X.Type()) != typ || objName(structOf(fa.X.Type()).Field(fa.Field)) != field {
					return
				}
				nst++
				call, isC := st.Val.(*ssa.Call)
				if !isC || CalleeName(call.Common()) != "github.com/golang/groupcache/lru.New" || !IsNewType(fa.X.Type()) || lruConfinement(p, call) != "" {
					conf = false
				}
			})
		}
		if nst > 0 && conf {
			c.OK(rule, id, p, 0, kind+": every instance wraps an LRU that never leaves the goroutine that created it (confinement followed through the wrapper type)")
			return
		}
	}
	c.Bad(rule, id, p, 0, kind+" mutated at "+strings.Join(muts, ", ")+" but neither in the guard table nor per-request: unguarded shared mutable state can crash the agent (concurrent map access is a fatal error)")
}

func isMutation(i ssa.Instruction, kind string) bool {
	switch x := i.(type) {
	case *ssa.MapUpdate:
		return true
	case *ssa.Store:
		// store to the variable/field itself (re-assignment)
		_ = x
		return true
	case *ssa.Call:
		if b, ok := x.Call.Value.(*ssa.Builtin); ok && (b.Name() == "delete" || b.Name() == "clear") {
			return true
		}
		if !strings.HasPrefix(kind, "map") && !strings.HasPrefix(kind, "*map") {
			// any method call on a non-goroutine-safe object counts
			return x.Call.Signature().Recv() != nil || x.Call.IsInvoke()
		}
	}
	return false
}

// perRequestType: every allocation site of the struct type lies in a function
// reachable from the per-request worker, and the type is not shared through a
// registry. Returns the reason, or "" if the type is (possibly) shared.
func perRequestType(p *Prog, typ string, reach map[*ssa.Function][]*ssa.Function) string {
	if reach == nil {
		return ""
	}
	if _, ok := sharedViaRegistry[typ]; ok {
		return ""
	}
	var sites []string
	for _, fn := range p.Funcs {
		for _, a := range AllocsOf(fn, typ) {
			if _, ok := reach[fn]; !ok {
				return ""
			}
			sites = append(sites, FuncName(Owner(a)))
		}
	}
	if len(sites) == 0 {
		return ""
	}
	sort.Strings(sites)
	return "allocated only in per-request code (" + strings.Join(sites, ", ") + "): one instance per request; its cross-goroutine hand-off is the subject of the ownership rule P"
}

// blockReaches: a CFG path leads from a to b.
func blockReaches(a, b *ssa.BasicBlock) bool {
	seen := map[*ssa.BasicBlock]bool{}
	q := []*ssa.BasicBlock{a}
	for len(q) > 0 {
		x := q[0]
		q = q[1:]
		if x == b {
			return true
		}
		if seen[x] {
			continue
		}
		seen[x] = true
		q = append(q, x.Succs...)
	}
	return false
}

// ruleListNotRejectedForOneElement: parsing the pending list fails only for the
// reply as a whole (status, read error, JSON decode). An error return from inside
// a loop over the decoded IDs rejects every request of that poll — and of every
// later poll while the offending request stays pending — for the sake of one.
func ruleListNotRejectedForOneElement(c *Ctx, p *Prog, rule string) {
	f := c.need(p, rule, "agent/utils.parseRequestIDs")
	if f == nil {
		return
	}
	bad := ""
	n := 0
	for _, fn := range p.AllFuncsIn("agent/utils") {
		if fn != f && TopFunc(fn) != f && !(IsNewHelper(fn) && helperCalledFrom(fn, f)) {
			continue
		}
		EachInstrRaw(fn, func(i ssa.Instruction) {
			r, ok := i.(*ssa.Return)
			if !ok || len(r.Results) == 0 {
				return
			}
			last := r.Results[len(r.Results)-1]
			if NamedType(last.Type()) != "error" || IsNilConst(last) {
				return
			}
			n++
			if fn == f && InLoop(r.Block()) {
				bad = "the error return at " + p.Pos(r.Pos()) + " is inside a loop over the listed IDs"
			}
		})
		// a validation helper called per element whose failure leaves parseRequestIDs
		if fn == f {
			EachInstrRaw(fn, func(i ssa.Instruction) {
				cc := CallOf(i)
				if cc == nil || !InLoop(i.Block()) {
					return
				}
				g := StaticFunc(cc)
				if g == nil || !p.IsModFunc(g) {
					return
				}
				call, isCall := i.(*ssa.Call)
				if !isCall || NamedType(call.Type()) != "error" {
					return
				}
				// the element's error decides a return of the whole function
				for _, ref := range Refs(call) {
					if bo, isB := ref.(*ssa.BinOp); isB {
						for _, rr := range Refs(bo) {
							if ifi, isIf := rr.(*ssa.If); isIf {
								for _, succ := range ifi.Block().Succs {
									for _, j := range succ.Instrs {
										if _, isRet := j.(*ssa.Return); isRet {
											bad = "the result of " + FuncName(g) + " for one ID decides a return of the whole list at " + p.Pos(j.Pos())
										}
									}
								}
							}
						}
					}
				}
			})
		}
	}
	c.Check(rule, "list:not-rejected-for-one-element", p, f.Pos(), bad == "" && n >= 1, fmt.Sprintf("%d error returns of parseRequestIDs: none depends on a single listed ID", n), "parseRequestIDs rejects the whole pending list because of one element ("+bad+"): healthy requests listed next to a garbled ID are never served, and the garbled one keeps every later poll failing")
}

// helperCalledFrom: fn has a static call site in top (or in a function spliced into it).
func helperCalledFrom(fn, top *ssa.Function) bool {
	found := false
	EachInstr(top, func(i ssa.Instruction) {
		if cc := CallOf(i); cc != nil && StaticFunc(cc) == fn {
			found = true
		}
	})
	return found
}

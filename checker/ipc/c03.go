package ipc

import (
	"fmt"
	"go/constant"
	"go/token"
	"go/types"
	"strings"

	"golang.org/x/tools/go/ssa"
)

func init() {
	register(&PropSpec{
		ID:    "C03",
		Progs: []string{"mod"},
		Explanation: "Decides the repository-specific shapes the response path depends on (byte identity through net/http serialisation is not decided): " +
			"(P) header/trailer maps of the response handed to the serialiser goroutine are not shared with the handler goroutine; " +
			"(T) every use of a declared-trailer name as a map key passes a comma tokeniser (ReverseProxy announces trailers as one joined value); " +
			"(X) 1xx interim statuses never latch a ResponseWriter nor get published as the final status, every final status (incl. 101) does latch — decided by partial evaluation of the status comparisons for representative statuses of each class; " +
			"(H) every header/trailer copy on the response side is guarded by the hop-by-hop predicate on the same key, and the two hop-by-hop tables equal the RFC 7230 set (+Proxy-Connection); " +
			"(C) chunked framing is forced on the very response that is serialised, before serialisation; " +
			"(S) the wrappers forward their own status parameter and their own byte slice; the proxy copies status/body/trailers of the received response. " +
			"(X, second part) for every ResponseWriter implementation WriteHeader(103) followed by WriteHeader(404) is simulated by partial evaluation (field stores of the first call feed the second): the final status must still be forwarded/published, whatever the type of the latch; (R) a retried upload restarts through the refusing rewind (shared with C06.S); (M) no pooled buffers on the response path. " +
			"(C, proxy side) the stand-alone proxy sets Transfer-Encoding: chunked before WriteHeader(resp.StatusCode) independently of any field of the response; (W) writer types and the response forwarder grow no exported methods beyond their pinned method sets (net/http type-asserts optional interfaces)." +
			" (R, second part) what a retry replays is what was sent before: the rewind refuses when the retained prefix may be incomplete and the buffer retains exactly the bytes it handed out (shared with C06.R/B).",
		Assumptions: []string{
			"net/http Response.Write / ReadResponse / ReverseProxy preserve status, header values, body bytes and trailers (stdlib behaviour on run-time values is not analysed)",
			"statuses are classified by the representative values 100,102,103,150,199 (interim) and 101,200,204,301,304,404,500,599 (final); a comparison against any other constant inside a class is not distinguished",
		},
		Run: runC03,
	})
}

var interimSamples = []int64{100, 102, 103, 150, 199}
var finalSamples = []int64{101, 200, 204, 301, 304, 404, 500, 599}

// hop-by-hop oracle: RFC 7230 §6.1 + RFC 2616 §13.5.1 (canonical form)
var hopOracle = []string{"Connection", "Keep-Alive", "Proxy-Authenticate", "Proxy-Authorization", "Te", "Trailer", "Transfer-Encoding", "Upgrade"}
var hopExtraAllowed = map[string]string{"Proxy-Connection": "non-standard, sent by libcurl; reasoned in the source comment"}

func runC03(c *Ctx) {
	p := c.Progs["mod"]
	c.Rule("C03.Y", "compatibility with the party that is not changed with this code: blob layout of stored responses; the shim code is only injected under its flag", 2)
	ruleBlobLayout(c, p, "C03.Y")
	ruleHostProxyFlagRoles(c, p, "C03.Y", "inject")
	c.Borrow(runC14, "C14.T", "C03.S", func(k string) bool { return strings.HasPrefix(k, "isFrameable:") })
	c.Rule("C03.P", "ownership transfer of the published response's Header/Trailer maps", 2)
	rulePublishedMaps(c, p, "C03.P")
	c.Rule("C03.T", "declared-trailer names are tokenised on ',' before they are used as keys", 3)
	ruleTrailerTokenised(c, p, "C03.T")
	c.Rule("C03.X", "1xx interim responses do not latch / are not published as final; final statuses do latch; a final status after an interim one is still forwarded", 9)
	ruleInterimNoLatch(c, p, "C03.X")
	ruleInterimThenFinal(c, p, "C03.X")
	c.Rule("C03.R", "a retried upload of the response restarts at the first byte through the refusing rewind and replays exactly the bytes sent before (= C06.S, C06.R, C06.B)", 3)
	if f := c.need(p, "C03.R", "agent/utils.postResponseWithRetries"); f != nil {
		if do := c.UniqueCall("C03.R", p, f, false, "(*net/http.Client).Do"); do != nil {
			c06Rewind(c, p, "C03.R", f, do)
			// … and what a retry replays is what was sent before: the rewind refuses when the
			// retained prefix may be incomplete, the buffer retains exactly what it handed out
			c06Refusal(c, p, "C03.R")
			c06Retain(c, p, "C03.R")
		}
	}
	c.Rule("C03.M", "response bytes live in call-owned buffers (no pooled memory on the response path)", 1)
	rulePooledMemory(c, p, "C03.M", "agent/utils", "server", "agent")
	c.Rule("C03.H", "hop-by-hop tables exact; every response-side header/trailer copy guarded by the predicate on the same key", 14)
	ruleHopTables(c, p, "C03.H")
	ruleHopGuardsResponse(c, p, "C03.H")
	c.Rule("C03.C", "forced chunked framing dominates serialisation of the same response (agent and stand-alone proxy)", 2)
	ruleForcedChunked(c, p, "C03.C")
	// the stand-alone proxy forces chunked framing towards the client before the status is written
	if f := c.need(p, "C03.C", "server.(*proxy).ServeHTTP"); f != nil {
		var add, wh ssa.Instruction
		EachInstr(f, func(i ssa.Instruction) {
			if IsCall(i, "(net/http.Header).Add", "(net/http.Header).Set") {
				k, _ := ConstString(PArgs(CallOf(i))[1])
				v, _ := ConstString(PArgs(CallOf(i))[2])
				if strings.EqualFold(k, "transfer-encoding") && v == "chunked" {
					add = i
				}
			}
			if IsCall(i, "(net/http.ResponseWriter).WriteHeader") && PathOf(Args(CallOf(i))[0]) == P(f, 1) {
				if _, isC := ConstInt(Args(CallOf(i))[1]); !isC {
					wh = i
				}
			}
		})
		okc := add != nil && wh != nil && Dominates(add, wh)
		if okc {
			// unconditional with respect to the response: no guard between receiving the response and the Add
			for _, g := range GuardingIfs(add) {
				if !Dominates(g.If, wh) {
					continue
				}
				cond, _ := BoolTest(g.If)
				if ex, isE := cond.(*ssa.Extract); isE {
					if _, isNext := ex.Tuple.(*ssa.Next); isNext {
						continue // the exit test of a preceding range loop
					}
				}
				if bo, isB := cond.(*ssa.BinOp); isB {
					if ph, isP := bo.X.(*ssa.Phi); isP && ph.Comment == "rangeindex" {
						continue
					}
				}
				derives := false
				SliceBack(cond, func(v ssa.Value) bool {
					if base, fld, ok := FieldLoad(v); ok && NamedType(base.Type()) == "net/http.Response" && (fld == "Trailer" || fld == "ContentLength" || fld == "TransferEncoding" || fld == "Header" || fld == "Body") {
						derives = true
					}
					return true
				})
				if derives {
					okc = false
				}
			}
		}
		c.Check("C03.C", "proxy:forced-chunked-before-status", p, f.Pos(), okc, "Transfer-Encoding: chunked is set on every relayed response before its status is written: trailers that appear only at the end of the body can still be sent", "the stand-alone proxy does not unconditionally force chunked framing before WriteHeader(resp.StatusCode): with a Content-Length computed by net/http (short bodies) trailers that were not announced are silently dropped")
	}
	c.Rule("C03.W", "writer types do not grow optional net/http interfaces", 4)
	ruleWriterMethodSets(c, p, "C03.W")
	c.Rule("C03.S", "status and body pass through the wrappers and the proxy unchanged; the backend-facing transport accepts any response", 17)
	ruleStatusBodyPassThrough(c, p, "C03.S")
	// the stand-alone proxy copies the body to its client from the handler's own goroutine, with
	// nothing else writing or flushing the ResponseWriter (= C01.K): a helper goroutine that
	// flushes on a ticker, or copies, can still be inside the writer when the handler returns
	c.Borrow(runC01, "C01.K", "C03.S", func(k string) bool { return k == "ServeHTTP:body-to-own-writer" })
	// the response the stand-alone proxy relays is parsed from the agent's upload itself (= C01.W):
	// a size limit wrapped around that reader "for the head" also caps the body
	c.Borrow(runC01, "C01.W", "C03.S", func(k string) bool { return k == "post:parsed-from-own-body" })
	ruleBodyStreamEndsCleanly(c, p, "C03.S")
	ruleServerTrailersAfterBody(c, p, "C03.S")
	ruleNoMutationOfHTTPDefaults(c, p, "C03.S")
	ruleBackendTransportAcceptsAnyResponse(c, p, "C03.S")
}

// ---- C03.T

func ruleTrailerTokenised(c *Ctx, p *Prog, rule string) {
	isSource := func(v ssa.Value) bool {
		if call, ok := v.(*ssa.Call); ok {
			n := CalleeName(call.Common())
			if n == "(net/http.Header).Values" || n == "(net/http.Header).Get" || n == "(net/textproto.MIMEHeader).Values" {
				k, _ := ConstString(PArgs(&call.Call)[1])
				return strings.EqualFold(k, "Trailer")
			}
		}
		if lk, ok := v.(*ssa.Lookup); ok && NamedType(lk.X.Type()) == "net/http.Header" {
			k, _ := ConstString(lk.Index)
			return strings.EqualFold(k, "Trailer")
		}
		return false
	}
	isTokenizer := func(v ssa.Value) bool {
		call, ok := v.(*ssa.Call)
		if !ok {
			return false
		}
		switch CalleeName(call.Common()) {
		case "strings.Split", "strings.SplitN", "strings.SplitAfter", "strings.FieldsFunc", "strings.Cut":
			if len(PArgs(&call.Call)) >= 2 {
				sep, ok := ConstString(PArgs(&call.Call)[1])
				return ok && sep == "," || CalleeName(call.Common()) == "strings.FieldsFunc"
			}
		case "golang.org/x/net/http/httpguts.HeaderValuesContainsToken":
			return true
		}
		return false
	}
	n := 0
	for _, fn := range p.FuncsIn("agent/utils") {
		EachInstr(fn, func(i ssa.Instruction) {
			var key ssa.Value
			what := ""
			switch x := i.(type) {
			case *ssa.MapUpdate:
				key, what = x.Key, "map store key"
			case *ssa.Lookup:
				if _, isMap := x.X.Type().Underlying().(*types.Map); isMap {
					key, what = x.Index, "map lookup key"
				}
			case *ssa.Call:
				switch CalleeName(x.Common()) {
				case "(net/http.Header).Add", "(net/http.Header).Set", "(net/http.Header).Get", "(net/http.Header).Del", "(net/http.Header).Values":
					key, what = PArgs(&x.Call)[1], "header key argument"
				}
			}
			if key == nil {
				return
			}
			reaches, unsan := DerivesFrom(key, isSource, isTokenizer)
			if !reaches {
				return
			}
			n++
			k := fmt.Sprintf("%s:%s#%d", FuncName(fn), what, n)
			c.Check(rule, k, p, i.Pos(), !unsan, "the declared-trailer name used as "+what+" passed strings.Split(…, \",\")", "a value of the Trailer header is used as "+what+" without being split on ',': ReverseProxy and backends declare several trailers in one comma-joined value, so every declared trailer is lost as soon as two are declared")
		})
	}
	if n == 0 {
		c.Unk(rule, "sinks", p, 0, "no use of a Trailer header value as a key found in agent/utils: the trailer pre-declaration was rewritten into a shape this rule cannot read")
	}
}

// ---- C03.X

// latchStores: stores of constant true to a bool field of the receiver.
func latchStores(fn *ssa.Function) []*ssa.Store {
	var out []*ssa.Store
	if len(fn.Params) == 0 {
		return nil
	}
	EachInstr(fn, func(i ssa.Instruction) {
		st, ok := i.(*ssa.Store)
		if !ok {
			return
		}
		base, _, ok := FieldAddrOf(st.Addr)
		if !ok || !rootIs(base, ParamAt(fn, 0)) {
			return
		}
		if cv, ok := st.Val.(*ssa.Const); ok && cv.Value != nil && cv.Value.Kind() == constant.Bool && constant.BoolVal(cv.Value) {
			out = append(out, st)
		}
	})
	return out
}

// statusEnv: the status parameter has value v; loads of receiver bool fields named like the latch are false.
func statusEnv(fn *ssa.Function, v int64, latchField string) Env {
	return func(x ssa.Value) (constant.Value, bool) {
		if len(fn.Params) >= 2 && x == ssa.Value(ParamAt(fn, 1)) {
			return IntC(v), true
		}
		if base, f, ok := FieldLoad(x); ok && f == latchField && rootIs(base, ParamAt(fn, 0)) {
			return constant.MakeBool(false), true
		}
		return nil, false
	}
}

func ruleInterimNoLatch(c *Ctx, p *Prog, rule string) {
	impls := ResponseWriterImpls(p)
	if len(impls) < 3 {
		c.Unk(rule, "implementations", p, 0, fmt.Sprintf("found %d ResponseWriter implementations in module packages, expected ≥3", len(impls)))
	}
	for _, t := range impls {
		tn := NamedTypeRel(t)
		fn := p.MethodOf(t, "WriteHeader")
		if fn == nil || len(fn.Blocks) == 0 || len(fn.Params) < 2 {
			c.Unk(rule, tn+":WriteHeader", p, 0, "WriteHeader method has no body")
			continue
		}
		latches := latchStores(fn)
		if len(latches) == 0 {
			c.OK(rule, tn+":no-latch", p, fn.Pos(), "WriteHeader keeps no 'header written' latch")
			continue
		}
		_, latchField, _ := FieldAddrOf(latches[0].Addr)
		isLatch := func(i ssa.Instruction) bool {
			for _, l := range latches {
				if i == ssa.Instruction(l) {
					return true
				}
			}
			return false
		}
		// "published as final": send of a response on a channel
		isPublish := func(i ssa.Instruction) bool {
			switch x := i.(type) {
			case *ssa.Send:
				return true
			case *ssa.Select:
				for _, s := range x.States {
					if s.Dir == types.SendOnly {
						return true
					}
				}
			}
			return false
		}
		bad := ""
		for _, v := range interimSamples {
			w := &Walk{Target: func(i ssa.Instruction) bool { return isLatch(i) || isPublish(i) }, Edge: EdgeUnder(statusEnv(fn, v, latchField))}
			if hit, path := w.FromBlock(fn.Blocks[0]); hit != nil {
				bad = fmt.Sprintf("WriteHeader(%d) reaches %s at %s via %s", v, describeInstr(hit), p.Pos(hit.Pos()), PathString(p, path))
				break
			}
		}
		c.Check(rule, tn+":interim-does-not-latch", p, fn.Pos(), bad == "", "for statuses 100,102,103,150,199 neither the latch store nor a publication is reachable", bad+": the interim status relayed by httputil.ReverseProxy becomes the final one and the real final header is dropped")
		bad = ""
		for _, v := range finalSamples {
			w := &Walk{Target: IsReturn, Avoid: isLatch, Edge: EdgeUnder(statusEnv(fn, v, latchField))}
			if hit, path := w.FromBlock(fn.Blocks[0]); hit != nil {
				bad = fmt.Sprintf("WriteHeader(%d) can return at %s without latching (path %s)", v, p.Pos(hit.Pos()), PathString(p, path))
				break
			}
		}
		c.Check(rule, tn+":final-latches", p, fn.Pos(), bad == "", "for statuses 101,200,204,301,304,404,500,599 every path to a return sets the latch", bad+": a final status is treated as interim and never delivered")
	}
}

func describeInstr(i ssa.Instruction) string {
	switch i.(type) {
	case *ssa.Store:
		return "the latch store"
	case *ssa.Send, *ssa.Select:
		return "the publication of the response"
	}
	return i.String()
}

// ---- C03.H

// hopTableKeys extracts the key set of utils.hopHeaders (composite literal
// in the package initialiser) and of server.isHopByHopHeader (switch cases).
func hopTableKeys(p *Prog) (utilsKeys, serverKeys []string, ok1, ok2 bool) {
	if init := p.Func("agent/utils.init"); init != nil {
		EachInstr(init, func(i ssa.Instruction) {
			mu, ok := i.(*ssa.MapUpdate)
			if !ok {
				return
			}
			st := false
			for _, r := range Refs(mu.Map) {
				if s, ok := r.(*ssa.Store); ok {
					if g, ok := s.Addr.(*ssa.Global); ok && GlobalName(g) == "hopHeaders" {
						st = true
					}
				}
			}
			if !st {
				return
			}
			if k, ok := ConstString(mu.Key); ok {
				// membership table: map[string]bool with true, or a set (map[string]struct{})
				if v, isC := mu.Value.(*ssa.Const); isC && v.Value != nil && v.Value.Kind() == constant.Bool && !constant.BoolVal(v.Value) {
					return // an explicit false entry is not a member
				}
				utilsKeys = append(utilsKeys, k)
				ok1 = true
			}
		})
	}
	if fn := p.Func("server.isHopByHopHeader"); fn != nil {
		// true is returned on the branches `lower(name) == "const"`
		EachInstr(fn, func(i ssa.Instruction) {
			bo, ok := i.(*ssa.BinOp)
			if !ok {
				return
			}
			if k, ok := ConstString(bo.Y); ok {
				serverKeys = append(serverKeys, k)
				ok2 = true
			}
		})
		// or a membership test in a package-level set built once by the initialiser
		if !ok2 {
			var tbl *ssa.Global
			EachInstr(fn, func(i ssa.Instruction) {
				if lk, ok := i.(*ssa.Lookup); ok {
					if ld, ok := lk.X.(*ssa.UnOp); ok {
						if g, ok := ld.X.(*ssa.Global); ok {
							tbl = g
						}
					}
				}
			})
			if tbl != nil && globalWrittenOnlyByInit(p, tbl) {
				if init := p.Func("server.init"); init != nil {
					EachInstr(init, func(i ssa.Instruction) {
						mu, ok := i.(*ssa.MapUpdate)
						if !ok {
							return
						}
						for _, r := range Refs(mu.Map) {
							if s, ok := r.(*ssa.Store); ok && s.Addr == ssa.Value(tbl) {
								if k, ok := ConstString(mu.Key); ok {
									if v, isC := mu.Value.(*ssa.Const); isC && v.Value != nil && v.Value.Kind() == constant.Bool && !constant.BoolVal(v.Value) {
										continue
									}
									serverKeys = append(serverKeys, k)
									ok2 = true
								}
							}
						}
					})
				}
			}
		}
	}
	return
}

func ruleHopTables(c *Ctx, p *Prog, rule string) {
	uk, sk, ok1, ok2 := hopTableKeys(p)
	if !ok1 {
		c.Unk(rule, "table:utils.hopHeaders", p, 0, "cannot read the literal of agent/utils.hopHeaders")
	} else {
		have := map[string]bool{}
		bad := ""
		for _, k := range uk {
			have[k] = true
			if canonicalHeaderKey(k) != k {
				bad = "entry " + k + " is not in canonical form: lookups use canonical keys, so the entry is dead"
			}
		}
		for _, k := range hopOracle {
			if !have[k] {
				bad = "missing hop-by-hop field " + k + ": it would be forwarded"
			}
		}
		for k := range have {
			if !contains(hopOracle, k) && hopExtraAllowed[k] == "" {
				bad = "end-to-end field " + k + " is listed as hop-by-hop: it would be dropped"
			}
		}
		c.Check(rule, "table:utils.hopHeaders", p, 0, bad == "", fmt.Sprintf("%d entries = RFC 7230 §6.1 set + allowed extras, all canonical", len(uk)), "agent/utils.hopHeaders: "+bad)
	}
	if !ok2 {
		c.Unk(rule, "table:server.isHopByHopHeader", p, 0, "cannot read the cases of server.isHopByHopHeader")
	} else {
		have := map[string]bool{}
		for _, k := range sk {
			have[canonicalHeaderKey(k)] = true
		}
		bad := ""
		for _, k := range hopOracle {
			if !have[k] {
				bad = "missing hop-by-hop field " + k + ": it would be forwarded"
			}
		}
		for k := range have {
			if !contains(hopOracle, k) && hopExtraAllowed[k] == "" {
				bad = "end-to-end field " + k + " is treated as hop-by-hop: it would be dropped"
			}
		}
		for _, k := range sk {
			if strings.ToLower(k) != k {
				bad = "case " + k + " is compared with a lower-cased name and can never match"
			}
		}
		if fn := p.Func("server.isHopByHopHeader"); fn != nil && len(Calls(fn, "strings.ToLower")) == 0 {
			bad = "the name is no longer lower-cased before it is compared with the lower-case cases"
		}
		c.Check(rule, "table:server.isHopByHopHeader", p, 0, bad == "", fmt.Sprintf("%d cases = RFC 7230 §6.1 set, compared case-insensitively", len(sk)), "server.isHopByHopHeader: "+bad)
	}
}

func contains(xs []string, x string) bool {
	for _, y := range xs {
		if x == y {
			return true
		}
	}
	return false
}

func canonicalHeaderKey(s string) string {
	// textproto.CanonicalMIMEHeaderKey for plain token names
	b := []byte(strings.ToLower(s))
	up := true
	for i, ch := range b {
		if up && 'a' <= ch && ch <= 'z' {
			b[i] = ch - 32
		}
		up = ch == '-'
	}
	return string(b)
}

// hopGuard reports whether instruction i only executes when `key` is NOT a
// hop-by-hop name (want=false) or only when it IS one (want=true), judged by
// a dominating comma-ok lookup in utils.hopHeaders or call of
// server.isHopByHopHeader with the same key.
func hopGuard(i ssa.Instruction, key ssa.Value, want bool) bool {
	if !want && keyFromFilteredList(key) {
		return true
	}
	for _, g := range GuardingIfs(i) {
		cond, trueSucc := BoolTest(g.If)
		tested, isHop := hopPredicate(cond, 0)
		if !isHop || !sameKey(tested, key) {
			continue
		}
		taken := g.Succ == trueSucc // instruction is on the "is hop-by-hop" side
		if taken == want {
			return true
		}
	}
	return false
}

// keyFromFilteredList: the copied key is an element of a list that a new helper built, and
// every element that helper appends to the list it returns is on the not-hop-by-hop side of
// the predicate there (for _, k := range declaredTrailerNames(values) { trailer[k] = … }).
func keyFromFilteredList(key ssa.Value) bool {
	var list ssa.Value
	switch x := key.(type) {
	case *ssa.UnOp:
		if ia, ok := x.X.(*ssa.IndexAddr); ok && x.Op == token.MUL {
			list = ia.X
		}
	case *ssa.Extract:
		if nx, ok := x.Tuple.(*ssa.Next); ok {
			if rg, ok := nx.Iter.(*ssa.Range); ok {
				list = rg.X
			}
		}
	}
	if list == nil {
		return false
	}
	call, ok := list.(*ssa.Call)
	if !ok {
		return false
	}
	h := StaticFunc(call.Common())
	if h == nil || !IsNewHelper(h) || len(h.Blocks) == 0 {
		return false
	}
	napp, okAll := 0, true
	EachInstrRaw(h, func(i ssa.Instruction) {
		ap, isCall := i.(*ssa.Call)
		if !isCall {
			return
		}
		b, isB := ap.Call.Value.(*ssa.Builtin)
		if !isB || b.Name() != "append" || len(ap.Call.Args) != 2 {
			return
		}
		if _, isStr := ap.Type().Underlying().(*types.Slice).Elem().Underlying().(*types.Basic); !isStr {
			return
		}
		napp++
		// the appended element(s): stores into the variadic backing array
		sl, isSl := ap.Call.Args[1].(*ssa.Slice)
		if !isSl {
			okAll = false
			return
		}
		found := false
		for _, r := range Refs(sl.X) {
			ia, isIA := r.(*ssa.IndexAddr)
			if !isIA {
				continue
			}
			for _, u := range Refs(ia) {
				if st, isSt := u.(*ssa.Store); isSt && st.Addr == ssa.Value(ia) {
					found = true
					guarded := false
					for _, g := range GuardingIfs(ap) {
						cond, trueSucc := BoolTest(g.If)
						tested, isHop := hopPredicate(cond, 0)
						if isHop && sameKey(tested, st.Val) && g.Succ != trueSucc {
							guarded = true
						}
					}
					if !guarded {
						okAll = false
					}
				}
			}
		}
		if !found {
			okAll = false
		}
	})
	return napp > 0 && okAll
}

// hopPredicate recognises a hop-by-hop membership test and returns the key
// it tests: hopHeaders[k] (plain or comma-ok), server.isHopByHopHeader(k), or
// a call of a new helper whose result is such a test on one of its parameters
// (then the key is the argument at this call site).
func hopPredicate(cond ssa.Value, depth int) (ssa.Value, bool) {
	switch x := cond.(type) {
	case *ssa.Extract:
		if lk, ok := x.Tuple.(*ssa.Lookup); ok && x.Index == 1 && PathOf(lk.X) == "*global:hopHeaders" {
			return lk.Index, true
		}
	case *ssa.Lookup:
		if PathOf(x.X) == "*global:hopHeaders" {
			return x.Index, true
		}
	case *ssa.Call:
		if strings.HasSuffix(CalleeName(x.Common()), "/server.isHopByHopHeader") {
			return PArgs(&x.Call)[0], true
		}
		if h, ok := calleeFn(x.Call.Value); ok && IsNewHelper(h) && depth < 3 {
			if rs := helperResults(x, 0); len(rs) == 1 {
				if inner, ok := hopPredicate(rs[0], depth+1); ok {
					v := inner
					for {
						if ct, isCT := v.(*ssa.ChangeType); isCT {
							v = ct.X
							continue
						}
						break
					}
					for k, prm := range h.Params {
						if v == ssa.Value(prm) && k < len(PArgs(&x.Call)) {
							return PArgs(&x.Call)[k], true
						}
					}
				}
			}
		}
	}
	return nil, false
}

// sameKey: the same SSA value, or the key is derived from it by prefixing a
// constant (http.TrailerPrefix+name).
func sameKey(a, b ssa.Value) bool {
	if SameValue(a, b) {
		return true
	}
	// the canonical spelling of a field name is the same field (Header.Add/Set/Get
	// canonicalise too)
	for _, v := range []*ssa.Value{&a, &b} {
		if cl, ok := Peel(*v).(*ssa.Call); ok {
			switch CalleeName(cl.Common()) {
			case "net/http.CanonicalHeaderKey", "net/textproto.CanonicalMIMEHeaderKey":
				*v = PArgs(&cl.Call)[0]
			}
		}
	}
	if SameValue(a, b) {
		return true
	}
	if bo, ok := Peel(b).(*ssa.BinOp); ok {
		if _, isC := ConstString(bo.X); isC && SameValue(a, bo.Y) {
			return true
		}
	}
	return false
}

func ruleHopGuardsResponse(c *Ctx, p *Prog, rule string) {
	// every store into a response-side header map inside a loop over another header map
	check := func(fnName string, wantMin int) {
		fn := p.Func(fnName)
		if fn == nil {
			c.Unk(rule, "anchor:"+fnName, p, 0, "function not found")
			return
		}
		n := 0
		EachInstr(fn, func(i ssa.Instruction) {
			var key, dest ssa.Value
			isSet := false
			switch x := i.(type) {
			case *ssa.MapUpdate:
				if NamedType(x.Map.Type()) == "net/http.Header" {
					key, dest = x.Key, x.Map
				}
			case *ssa.Call:
				if n := CalleeName(x.Common()); n == "(net/http.Header).Add" || n == "(net/http.Header).Set" {
					key, dest = PArgs(&x.Call)[1], PArgs(&x.Call)[0]
					isSet = n == "(net/http.Header).Set"
				}
			}
			if key == nil {
				return
			}
			if PathOf(key) == "rangekey("+PathOf(dest)+")" {
				return // filling in values for keys the destination already has: no new field is introduced
			}
			if _, isConst := ConstString(key); isConst {
				return // constant keys (transfer-encoding: chunked etc.) are not copies
			}
			if !InLoop(i.Block()) {
				return
			}
			n++
			k := fmt.Sprintf("%s:copy#%d", fnName, n)
			c.Check(rule, k, p, i.Pos(), hopGuard(i, key, false), "copy of header/trailer field guarded by the hop-by-hop predicate on the same key", "header/trailer field "+PathOf(key)+" is copied to the response without the hop-by-hop test on that key: hop-by-hop fields would reach the client")
			if isSet {
				c.Bad(rule, k+":keeps-all-values", p, i.Pos(), "the field "+PathOf(key)+" is copied with Header.Set: only one value per field survives, repeated fields (Set-Cookie, Via, repeated trailers) lose all but the last value")
			} else {
				c.OK(rule, k+":keeps-all-values", p, i.Pos(), "copied with Add / whole-slice store: every value of a repeated field is kept, in order")
			}
			// no other filter: every condition the copy depends on is of a known kind
			if extra := unknownGuards(p, i, fn); extra != "" {
				c.Bad(rule, k+":no-extra-filter", p, i.Pos(), "the copy of header/trailer field "+PathOf(key)+" additionally depends on "+extra+": a filter other than the hop-by-hop predicate drops end-to-end fields or trailers for some responses")
			} else {
				c.OK(rule, k+":no-extra-filter", p, i.Pos(), "the copy depends only on loop conditions, the hop-by-hop predicate, the trailer-prefix test, emptiness tests and the writer's latch/status tests")
			}
		})
		if n < wantMin {
			c.Bad(rule, fnName+":copy-sites", p, fn.Pos(), fmt.Sprintf("found %d header/trailer copy loops, expected at least %d", n, wantMin))
		}
	}
	check("agent/utils.(*streamingResponseWriter).WriteHeader", 3)
	check("agent/utils.(*streamingResponseWriter).Close", 1)
	check("server.(*proxy).ServeHTTP", 2)
}

// ---- C03.C

func ruleForcedChunked(c *Ctx, p *Prog, rule string) {
	f := c.need(p, rule, "agent/utils.NewResponseForwarder")
	if f == nil {
		return
	}
	w := c.UniqueCall(rule, p, f, true, "(*net/http.Response).Write")
	if w == nil {
		return
	}
	resp := Args(CallOf(w))[0]
	fn := w.Parent()
	var store *ssa.Store
	EachInstr(fn, func(i ssa.Instruction) {
		st, ok := i.(*ssa.Store)
		if !ok {
			return
		}
		base, field, ok := FieldAddrOf(st.Addr)
		if !ok || field != "TransferEncoding" || !SameValue(base, resp) {
			return
		}
		// value: slice of an array literal whose only element is "chunked"
		sl, ok := Peel(st.Val).(*ssa.Slice)
		if !ok {
			return
		}
		arr, ok := sl.X.(*ssa.Alloc)
		if !ok {
			return
		}
		at, ok := arr.Type().Underlying().(*types.Pointer).Elem().Underlying().(*types.Array)
		if !ok || at.Len() != 1 {
			return
		}
		for _, r := range Refs(arr) {
			if ia, ok := r.(*ssa.IndexAddr); ok {
				for _, u := range Refs(ia) {
					if s2, ok := u.(*ssa.Store); ok {
						if v, ok := ConstString(s2.Val); ok && v == "chunked" {
							store = st
						}
					}
				}
			}
		}
	})
	ok := store != nil && Dominates(store, w)
	c.Check(rule, "serialiser:chunked-before-write", p, w.Pos(), ok, `resp.TransferEncoding = []string{"chunked"} on the received response dominates resp.Write`, "the serialiser no longer forces TransferEncoding=[chunked] on the response it writes (before writing it): the upload is length-delimited/buffered instead of incremental")
}

// ---- C03.S

func ruleStatusBodyPassThrough(c *Ctx, p *Prog, rule string) {
	for _, t := range ResponseWriterImpls(p) {
		tn := NamedTypeRel(t)
		wh := p.MethodOf(t, "WriteHeader")
		wr := p.MethodOf(t, "Write")
		if wh == nil || wr == nil || len(wh.Blocks) == 0 || len(wr.Blocks) == 0 {
			continue
		}
		// wrappers: forward to a `wrapped` ResponseWriter field
		n := 0
		for _, call := range Calls(wh, "(net/http.ResponseWriter).WriteHeader") {
			a := Args(CallOf(call))
			if _, f, ok := FieldLoad(Roots(a[0])[0]); !ok || f != "wrapped" {
				continue
			}
			n++
			c.PathIs(rule, fmt.Sprintf("%s.WriteHeader:forward#%d", tn, n), p, call.Pos(), a[1], "status forwarded to the wrapped writer is the method's own status parameter", P(wh, 1))
		}
		m := 0
		for _, call := range Calls(wr, "(net/http.ResponseWriter).Write", "(*io.PipeWriter).Write", "(io.Writer).Write") {
			a := Args(CallOf(call))
			m++
			c.PathIs(rule, fmt.Sprintf("%s.Write:forward#%d", tn, m), p, call.Pos(), a[1], "bytes forwarded are the method's own slice", P(wr, 1))
			// and the result of that call is what is returned
		}
		if m == 0 {
			c.Bad(rule, tn+".Write:forward", p, wr.Pos(), "Write does not forward to an underlying writer")
		}
	}
	// streaming writer publishes its own status
	if fn := p.Func("agent/utils.(*streamingResponseWriter).WriteHeader"); fn != nil {
		as := AllocsOf(fn, "net/http.Response")
		if len(as) == 1 {
			if v, ok := LiteralField(as[0], "StatusCode"); ok {
				c.PathIs(rule, "streamingResponseWriter:published-status", p, as[0].Pos(), v, "published StatusCode is the status parameter", P(fn, 1))
			} else {
				c.Bad(rule, "streamingResponseWriter:published-status", p, as[0].Pos(), "StatusCode not set in the published response")
			}
			if v, ok := LiteralField(as[0], "Body"); ok {
				okb := false
				for _, r := range Roots(v) {
					if a, isA := r.(*ssa.Alloc); isA {
						if pr, ok := LiteralField(a, "PipeReader"); ok && PathOf(pr) == P(fn, 0)+".bodyReader" {
							okb = true
						}
					}
					if PathOf(r) == P(fn, 0)+".bodyReader" {
						okb = true
					}
				}
				c.Check(rule, "streamingResponseWriter:published-body", p, as[0].Pos(), okb, "published Body reads the writer's own pipe", "published Body ("+PathOf(v)+") is not (a wrapper of) the writer's own pipe reader")
			}
		} else {
			c.Unk(rule, "streamingResponseWriter:published-status", p, fn.Pos(), "expected one http.Response literal in WriteHeader")
		}
	} else {
		c.Unk(rule, "anchor:streamingResponseWriter.WriteHeader", p, 0, "not found")
	}
}

// unknownGuards classifies every branch condition instruction i is
// control-dependent on; it returns a description of the first one that is
// not of a known, harmless kind.
func unknownGuards(p *Prog, i ssa.Instruction, fn *ssa.Function) string {
	for _, g := range GuardingIfs(i) {
		cond, _ := BoolTest(g.If)
		if knownGuard(cond, fn) {
			continue
		}
		return fmt.Sprintf("the condition at %s (%s)", p.Pos(g.If.Pos()), cond.String())
	}
	return ""
}

func knownGuard(cond ssa.Value, fn *ssa.Function) bool {
	if _, isHop := hopPredicate(cond, 0); isHop {
		return true
	}
	switch x := cond.(type) {
	case *ssa.Extract:
		switch t := x.Tuple.(type) {
		case *ssa.Next:
			return x.Index == 0
		case *ssa.Lookup: // comma-ok lookup in the hop table
			return x.Index == 1 && PathOf(t.X) == "*global:hopHeaders"
		case *ssa.Call:
			n := CalleeName(t.Common())
			return n == "strings.CutPrefix" && x.Index == 1
		}
	case *ssa.Lookup:
		return PathOf(x.X) == "*global:hopHeaders"
	case *ssa.Call:
		n := CalleeName(x.Common())
		if strings.HasSuffix(n, "/server.isHopByHopHeader") || n == "strings.HasPrefix" {
			return true
		}
		// a predicate over the status parameter alone (isInterimStatus(status)): the same kind of
		// test as an inline comparison of the status with constants
		if h, ok := calleeFn(x.Call.Value); ok && IsNewHelper(h) && len(fn.Params) >= 2 && len(x.Call.Args) > 0 {
			onlyStatus := true
			for _, a := range x.Call.Args {
				if _, isC := a.(*ssa.Const); isC {
					continue
				}
				if a != ssa.Value(ParamAt(fn, 1)) {
					onlyStatus = false
				}
			}
			if onlyStatus {
				return true
			}
		}
		// a select moved into a new helper that reports which arm was taken: every return is a
		// boolean constant reached under select-arm tests only
		if h, ok := calleeFn(x.Call.Value); ok && IsNewHelper(h) && len(h.Blocks) > 0 {
			okAll, nret := true, 0
			for _, r := range Returns(h) {
				if r.Parent() != h {
					continue
				}
				nret++
				if len(r.Results) != 1 {
					okAll = false
					continue
				}
				if cv, isC := r.Results[0].(*ssa.Const); !isC || cv.Value == nil || cv.Value.Kind() != constant.Bool {
					okAll = false
				}
				for _, g := range GuardingIfs(r) {
					if g.If.Parent() != h {
						continue
					}
					gc, _ := BoolTest(g.If)
					bo, isB := gc.(*ssa.BinOp)
					if !isB {
						okAll = false
						continue
					}
					e, isE := bo.X.(*ssa.Extract)
					if !isE {
						okAll = false
						continue
					}
					if _, isSel := e.Tuple.(*ssa.Select); !isSel || e.Index != 0 {
						okAll = false
					}
				}
			}
			return okAll && nret > 0
		}
		return false
	case *ssa.BinOp:
		// range index < len
		if ph, ok := x.X.(*ssa.BinOp); ok && strings.Contains(ph.X.Name(), "") {
			if phi, ok := ph.X.(*ssa.Phi); ok && phi.Comment == "rangeindex" {
				return true
			}
		}
		// select arm index
		if e, ok := x.X.(*ssa.Extract); ok {
			if _, ok := e.Tuple.(*ssa.Select); ok && e.Index == 0 {
				return true
			}
		}
		// emptiness test of the value list of the field being copied (len(vs) == 0): a field
		// without values is not transmitted either way
		for _, pair := range [][2]ssa.Value{{x.X, x.Y}, {x.Y, x.X}} {
			if n, isC := ConstInt(pair[1]); isC && n == 0 {
				if cl, isCall := pair[0].(*ssa.Call); isCall {
					if b, isB := cl.Call.Value.(*ssa.Builtin); isB && b.Name() == "len" && len(PArgs(&cl.Call)) == 1 {
						if e, isE := PArgs(&cl.Call)[0].(*ssa.Extract); isE && e.Index == 2 {
							if _, isNext := e.Tuple.(*ssa.Next); isNext {
								return true
							}
						}
					}
				}
			}
		}
		// emptiness test of a string
		if s, ok := ConstString(x.Y); ok && s == "" {
			return true
		}
		if s, ok := ConstString(x.X); ok && s == "" {
			return true
		}
		// comparisons of the status parameter with constants
		if len(fn.Params) >= 2 {
			if x.X == ssa.Value(ParamAt(fn, 1)) || x.Y == ssa.Value(ParamAt(fn, 1)) {
				return true
			}
		}
		// nil tests
		if IsNilConst(x.X) || IsNilConst(x.Y) {
			return true
		}
	case *ssa.UnOp:
		// the writer's latch (bool field of the receiver)
		if _, _, ok := FieldLoad(x); ok {
			if b, isB := x.Type().Underlying().(*types.Basic); isB && b.Kind() == types.Bool {
				return true
			}
		}
	}
	return false
}

// globalWrittenOnlyByInit: the package-level map is assigned once, by the
// package initialiser, and no function stores into it, updates or deletes
// from it afterwards.
func globalWrittenOnlyByInit(p *Prog, g *ssa.Global) bool {
	ok := true
	for _, fn := range p.AllFuncs {
		isInit := fn.Name() == "init" && fn.Pkg == g.Pkg
		EachInstrRaw(fn, func(i ssa.Instruction) {
			switch x := i.(type) {
			case *ssa.Store:
				if x.Addr == ssa.Value(g) && !isInit {
					ok = false
				}
			case *ssa.UnOp:
				if x.Op == token.MUL && x.X == ssa.Value(g) && !isInit {
					for _, r := range Refs(x) {
						switch u := r.(type) {
						case *ssa.MapUpdate:
							ok = false
						case *ssa.Call:
							if b, isB := u.Call.Value.(*ssa.Builtin); isB && (b.Name() == "delete" || b.Name() == "clear") {
								ok = false
							}
						}
					}
				}
			}
		})
	}
	return ok
}

// ruleBodyStreamEndsCleanly: the streaming writer ends the body it relays exactly as the
// handler ended it. Close closes the write end of the body pipe on every path, and nothing
// in agent/utils closes that end with an error of its own making: a writer that second-guesses
// the response (a Content-Length it thinks was not met, a size it thinks is too large) turns a
// complete backend response — a 304 with Content-Length, a HEAD-like answer — into an aborted
// upload, and the client never sees its status and headers.
func ruleBodyStreamEndsCleanly(c *Ctx, p *Prog, rule string) {
	f := c.need(p, rule, "agent/utils.(*streamingResponseWriter).Close")
	if f == nil {
		return
	}
	isBodyWriter := func(v ssa.Value) bool {
		_, fld, ok := FieldLoad(v)
		return ok && fld == "bodyWriter"
	}
	cleanClose := func(i ssa.Instruction) bool {
		cc := CallOf(i)
		if cc == nil {
			return false
		}
		switch CalleeName(cc) {
		case "(*io.PipeWriter).Close":
			return isBodyWriter(PArgs(cc)[0])
		case "(*io.PipeWriter).CloseWithError":
			return isBodyWriter(PArgs(cc)[0]) && IsNilConst(PArgs(cc)[1])
		}
		return false
	}
	hit, path := (&Walk{Target: IsReturn, Avoid: cleanClose, Ctx: f}).FromBlock(f.Blocks[0])
	c.Check(rule, "streaming-writer:Close-ends-the-body", p, f.Pos(), hit == nil, "every path of Close closes the write end of the body pipe without an error", "a path of streamingResponseWriter.Close returns without closing the body pipe cleanly ("+PathString(p, path)+"): the serialiser never sees the end of the body, or sees an error the handler did not produce")
	bad := ""
	n := 0
	for _, fn := range p.AllFuncsIn("agent/utils") {
		EachInstrRaw(fn, func(i ssa.Instruction) {
			cc := CallOf(i)
			if cc == nil || CalleeName(cc) != "(*io.PipeWriter).CloseWithError" {
				return
			}
			n++
			if isBodyWriter(PArgs(cc)[0]) && !IsNilConst(PArgs(cc)[1]) {
				bad = FuncName(fn) + " at " + p.Pos(i.Pos())
			}
		})
	}
	c.Check(rule, "streaming-writer:no-self-made-body-error", p, f.Pos(), bad == "", fmt.Sprintf("%d PipeWriter.CloseWithError call(s) in agent/utils: none aborts the relayed body with an error of the writer's own", n), "the write end of the relayed body is closed with an error by "+bad+": a response the backend completed (e.g. 304 or HEAD-like with Content-Length, a short body) reaches the proxy as an aborted upload and the client gets no status, headers or body")
}

// ruleServerTrailersAfterBody: the stand-alone proxy publishes the trailers of the response on
// every path that copied its body — an early return after a failed or "failed" copy (a pipe
// closed a moment early reports io.ErrClosedPipe, not EOF) silently drops them — and the
// agent-facing upload handler closes only its own ends: the original body it saved before the
// reassignment and the pipe's write end, never whatever resp.Body holds when the handler returns
// (by then the pipe's read end, which the client-facing handler is still draining).
func ruleServerTrailersAfterBody(c *Ctx, p *Prog, rule string) {
	if sv := c.need(p, rule, "server.(*proxy).ServeHTTP"); sv != nil {
		var cp ssa.Instruction
		EachInstr(sv, func(i ssa.Instruction) {
			if IsCall(i, "io.Copy", "io.CopyBuffer", "io.CopyN") {
				for _, r := range Roots(PArgs(CallOf(i))[1]) {
					if _, fld, ok := FieldLoad(r); ok && fld == "Body" {
						cp = i
					}
				}
			}
		})
		if cp == nil {
			c.Unk(rule, "proxy:trailers-follow-the-body-on-every-path", p, sv.Pos(), "no io.Copy of the response body found in the proxy's ServeHTTP")
		} else {
			isTrailerLoop := func(i ssa.Instruction) bool {
				rg, ok := i.(*ssa.Range)
				if !ok {
					return false
				}
				_, fld, isF := FieldLoad(rg.X)
				return isF && fld == "Trailer"
			}
			hit, path := (&Walk{Target: IsReturn, Avoid: isTrailerLoop, Ctx: sv}).FromInstr(cp)
			c.Check(rule, "proxy:trailers-follow-the-body-on-every-path", p, cp.Pos(), hit == nil, "every path from the body copy to a return passes the loop over resp.Trailer", "a path from the body copy returns without publishing the trailers ("+PathString(p, path)+"): status, headers and body arrive, the trailer fields are silently lost")
		}
	}
	if f := c.need(p, rule, "server.(*proxy).handleAgentPostResponse"); f != nil {
		bad := ""
		n := 0
		var bodyStore ssa.Instruction
		EachInstr(f, func(i ssa.Instruction) {
			if st, ok := i.(*ssa.Store); ok {
				if base, fld, ok2 := FieldAddrOf(st.Addr); ok2 && fld == "Body" && NamedType(base.Type()) == "net/http.Response" {
					bodyStore = st
				}
			}
		})
		for _, fn := range WithClosures(f) {
			EachInstrRaw(fn, func(i ssa.Instruction) {
				cc := CallOf(i)
				if cc == nil || !cc.IsInvoke() || cc.Method.Name() != "Close" {
					return
				}
				n++
				if base, fld, ok := FieldLoad(cc.Value); ok && fld == "Body" && NamedType(base.Type()) == "net/http.Response" {
					ld, _ := cc.Value.(ssa.Instruction)
					if fn != f || bodyStore == nil || ld == nil || !Dominates(ld, bodyStore) {
						bad = "resp.Body is closed at " + p.Pos(i.Pos()) + " (read when the call runs, i.e. after it was replaced by the pipe's read end)"
					}
				}
			})
		}
		c.Check(rule, "proxy:upload-handler-closes-its-own-ends-only", p, f.Pos(), bad == "" && n >= 1, fmt.Sprintf("%d Close call(s) in the upload handler: the saved original body and the pipe's write end", n), "in handleAgentPostResponse "+bad+": the client-facing handler's pending Read then fails with io.ErrClosedPipe instead of EOF — with an error check on that copy the trailers (or more) are dropped")
	}
}

package ipc

// Rename tolerance. The rules name functions, types, fields and package-level
// variables of the pinned tree. So that a pure rename does not make every
// rule that mentions the identifier fail closed, the identifiers of the
// pinned tree are recorded with a fingerprint (pinned.json, embedded); when a
// pinned identifier is missing from the analysed tree and exactly one *new*
// identifier of the same kind in the same package (or struct / method set)
// has the same fingerprint, the new object is given the pinned name as its
// canonical name. All name-producing helpers (FuncName, CalleeName,
// NamedType, fieldName, global paths) return canonical names, so rules keep
// speaking the pinned vocabulary and judge the renamed construct itself. A
// missing identifier with no or several candidates stays missing (the rules
// that need it fail closed as before).

import (
	_ "embed"
	"encoding/json"
	"fmt"
	"go/constant"
	"go/types"
	"sort"
	"strings"
	"sync"

	"golang.org/x/tools/go/ssa"
)

//go:embed pinned.json
var pinnedJSON []byte

type FuncFP struct {
	Params  []string `json:"params,omitempty"` // parameter names (without receiver) of the pinned tree
	PTypes  []string `json:"ptypes,omitempty"` // their types
	RTypes  []string `json:"rtypes,omitempty"` // result types
	Sig     string   `json:"sig"`
	Callees []string `json:"callees"`
	N       int      `json:"n"`             // number of SSA instructions
	Ptr     bool     `json:"ptr,omitempty"` // method with pointer receiver
}

type TypeFP struct {
	Kind    string   `json:"kind"`
	Fields  []string `json:"fields,omitempty"` // "name type" in order
	Methods []string `json:"methods,omitempty"`
}

type VarFP struct {
	Kind string `json:"kind"` // var | const
	Type string `json:"type"`
	Init string `json:"init,omitempty"` // constant value, or "callee(first string literal)" of the initialiser
}

type PinnedPkg struct {
	Funcs map[string]FuncFP `json:"funcs"` // "Name" or "T.Name"
	Types map[string]TypeFP `json:"types"`
	Vars  map[string]VarFP  `json:"vars"`
	// Ifaces: "I.Method" -> parameter names of the interface method
	Ifaces map[string][]string `json:"ifaces,omitempty"`
}

type Pinned struct {
	Pkgs map[string]*PinnedPkg `json:"pkgs"` // relative package path
}

var (
	canonMu   sync.RWMutex
	canonName = map[types.Object]string{}
	// canonKey: a function that plays the role of a pinned function/method although its
	// receiver changed (method -> plain function, function -> method, another receiver
	// type): the pinned key "T.Name" / "Name" it stands for.
	canonKey = map[*types.Func]string{}
)

func keyOverride(f *types.Func) (string, bool) {
	canonMu.RLock()
	k, ok := canonKey[f]
	canonMu.RUnlock()
	return k, ok
}

func objName(o types.Object) string {
	if o == nil {
		return ""
	}
	canonMu.RLock()
	n, ok := canonName[o]
	canonMu.RUnlock()
	if ok {
		return n
	}
	return o.Name()
}

func setAlias(p *Prog, o types.Object, pinned, what string) {
	canonMu.Lock()
	if _, dup := canonName[o]; !dup {
		canonName[o] = pinned
		p.regObjs = append(p.regObjs, o)
		p.Aliases = append(p.Aliases, fmt.Sprintf("%s: %s is the pinned %s (matched by fingerprint)", what, o.Name(), pinned))
	}
	canonMu.Unlock()
}

func isModObj(o types.Object) bool {
	return o != nil && o.Pkg() != nil && (o.Pkg().Path() == ModPath || strings.HasPrefix(o.Pkg().Path(), ModPath+"/"))
}

func typeStr(t types.Type) string {
	var b strings.Builder
	writeType(&b, t, 0)
	return b.String()
}

func writeType(b *strings.Builder, t types.Type, depth int) {
	if depth > 8 {
		b.WriteString("…")
		return
	}
	switch x := t.(type) {
	case *types.Named:
		o := x.Obj()
		if o.Pkg() != nil {
			b.WriteString(o.Pkg().Path())
			b.WriteString(".")
		}
		b.WriteString(objName(o))
		if ta := x.TypeArgs(); ta != nil && ta.Len() > 0 {
			b.WriteString("[")
			for i := 0; i < ta.Len(); i++ {
				if i > 0 {
					b.WriteString(",")
				}
				writeType(b, ta.At(i), depth+1)
			}
			b.WriteString("]")
		}
	case *types.Pointer:
		b.WriteString("*")
		writeType(b, x.Elem(), depth+1)
	case *types.Slice:
		b.WriteString("[]")
		writeType(b, x.Elem(), depth+1)
	case *types.Array:
		fmt.Fprintf(b, "[%d]", x.Len())
		writeType(b, x.Elem(), depth+1)
	case *types.Map:
		b.WriteString("map[")
		writeType(b, x.Key(), depth+1)
		b.WriteString("]")
		writeType(b, x.Elem(), depth+1)
	case *types.Chan:
		switch x.Dir() {
		case types.SendOnly:
			b.WriteString("chan<- ")
		case types.RecvOnly:
			b.WriteString("<-chan ")
		default:
			b.WriteString("chan ")
		}
		writeType(b, x.Elem(), depth+1)
	case *types.Signature:
		b.WriteString("func(")
		for i := 0; i < x.Params().Len(); i++ {
			if i > 0 {
				b.WriteString(",")
			}
			if x.Variadic() && i == x.Params().Len()-1 {
				b.WriteString("...")
			}
			writeType(b, x.Params().At(i).Type(), depth+1)
		}
		b.WriteString(")(")
		for i := 0; i < x.Results().Len(); i++ {
			if i > 0 {
				b.WriteString(",")
			}
			writeType(b, x.Results().At(i).Type(), depth+1)
		}
		b.WriteString(")")
	case *types.Struct:
		b.WriteString("struct{")
		for i := 0; i < x.NumFields(); i++ {
			if i > 0 {
				b.WriteString(";")
			}
			writeType(b, x.Field(i).Type(), depth+1)
		}
		b.WriteString("}")
	case *types.Tuple:
		b.WriteString("(")
		for i := 0; i < x.Len(); i++ {
			if i > 0 {
				b.WriteString(",")
			}
			writeType(b, x.At(i).Type(), depth+1)
		}
		b.WriteString(")")
	case *types.Alias:
		// `any` and other aliases are their target (interface{} and any are one type)
		writeType(b, types.Unalias(x), depth+1)
	case *types.Interface:
		if x.Empty() {
			b.WriteString("interface{}")
		} else {
			b.WriteString(t.String())
		}
	default:
		b.WriteString(t.String())
	}
}

// canonFuncKey: "Name" or "T.Name" (receiver type by canonical name).
func canonFuncKey(f *types.Func) string {
	if k, ok := keyOverride(f); ok {
		return k
	}
	sig := f.Type().(*types.Signature)
	if r := sig.Recv(); r != nil {
		rt := r.Type()
		if p, ok := rt.(*types.Pointer); ok {
			rt = p.Elem()
		}
		if n, ok := rt.(*types.Named); ok {
			return objName(n.Obj()) + "." + objName(f)
		}
	}
	return objName(f)
}

// canonFullName is types.Func.FullName with canonical names for module objects.
func canonFullName(f *types.Func) string {
	if !isModObj(f) {
		return f.FullName()
	}
	if k, ok := keyOverride(f); ok {
		pk := f.Pkg().Path()
		if i := strings.Index(k, "."); i >= 0 {
			ptr := ""
			if pn := pinnedTable(); pn.Pkgs != nil {
				if pp := pn.Pkgs[Rel(pk)]; pp != nil && pp.Funcs[k].Ptr {
					ptr = "*"
				}
			}
			return "(" + ptr + pk + "." + k[:i] + ")." + k[i+1:]
		}
		return pk + "." + k
	}
	sig := f.Type().(*types.Signature)
	if r := sig.Recv(); r != nil {
		rt := r.Type()
		ptr := ""
		if p, ok := rt.(*types.Pointer); ok {
			rt = p.Elem()
			ptr = "*"
		}
		if n, ok := rt.(*types.Named); ok {
			pk := ""
			if n.Obj().Pkg() != nil {
				pk = n.Obj().Pkg().Path() + "."
			}
			// a method whose receiver changed between value and pointer keeps its pinned spelling
			if pn := pinnedTable(); pn.Pkgs != nil {
				if pp := pn.Pkgs[Rel(f.Pkg().Path())]; pp != nil {
					if fp, ok := pp.Funcs[objName(n.Obj())+"."+objName(f)]; ok {
						if fp.Ptr {
							ptr = "*"
						} else {
							ptr = ""
						}
					}
				}
			}
			return "(" + ptr + pk + objName(n.Obj()) + ")." + objName(f)
		}
		return f.FullName()
	}
	return f.Pkg().Path() + "." + objName(f)
}

func funcFP(fn *ssa.Function) FuncFP {
	fp := FuncFP{}
	sig := fn.Signature
	if r := sig.Recv(); r != nil {
		_, fp.Ptr = r.Type().(*types.Pointer)
	}
	for k := 0; k < sig.Params().Len(); k++ {
		fp.Params = append(fp.Params, sig.Params().At(k).Name())
		fp.PTypes = append(fp.PTypes, typeStr(sig.Params().At(k).Type()))
	}
	for k := 0; k < sig.Results().Len(); k++ {
		fp.RTypes = append(fp.RTypes, typeStr(sig.Results().At(k).Type()))
	}
	fp.Sig = typeStr(types.NewSignatureType(nil, nil, nil, sig.Params(), sig.Results(), sig.Variadic()))
	set := map[string]bool{}
	var visit func(f *ssa.Function)
	visit = func(f *ssa.Function) {
		for _, b := range f.Blocks {
			for _, in := range b.Instrs {
				fp.N++
				if cc := CallOf(in); cc != nil {
					n := CalleeName(cc)
					if n != "" && !strings.HasPrefix(n, "builtin:") && !strings.HasPrefix(n, "closure:") {
						set[n] = true
					}
				}
				if fa, ok := in.(*ssa.FieldAddr); ok {
					set["field:"+NamedType(fa.X.Type())+"."+fieldName(fa.X.Type(), fa.Field)] = true
				}
			}
		}
		for _, a := range f.AnonFuncs {
			visit(a)
		}
	}
	visit(fn)
	for k := range set {
		fp.Callees = append(fp.Callees, k)
	}
	sort.Strings(fp.Callees)
	return fp
}

func typeFP(named *types.Named) TypeFP {
	fp := TypeFP{}
	switch u := named.Underlying().(type) {
	case *types.Struct:
		fp.Kind = "struct"
		for i := 0; i < u.NumFields(); i++ {
			fp.Fields = append(fp.Fields, objName(u.Field(i))+" "+typeStr(u.Field(i).Type()))
		}
	case *types.Interface:
		fp.Kind = "interface"
	default:
		fp.Kind = typeStr(u)
	}
	for i := 0; i < named.NumMethods(); i++ {
		fp.Methods = append(fp.Methods, objName(named.Method(i)))
	}
	sort.Strings(fp.Methods)
	return fp
}

// initFP fingerprints the initialiser of a package-level variable:
// "callee(first string literal argument)".
func initFP(p *Prog, g *ssa.Global) string {
	init := g.Pkg.Func("init")
	if init == nil {
		return ""
	}
	out := ""
	EachInstr(init, func(i ssa.Instruction) {
		st, ok := i.(*ssa.Store)
		if !ok || st.Addr != ssa.Value(g) {
			return
		}
		switch v := st.Val.(type) {
		case *ssa.Call:
			out = CalleeName(v.Common())
			for _, a := range v.Call.Args {
				if s, ok := ConstString(a); ok {
					out += "(" + s + ")"
					break
				}
			}
		case *ssa.Const:
			out = v.String()
		default:
			out = fmt.Sprintf("%T", v)
		}
	})
	return out
}

// ComputePinned fingerprints every package-level identifier of the module.
func ComputePinned(p *Prog) *Pinned {
	out := &Pinned{Pkgs: map[string]*PinnedPkg{}}
	for ip, pk := range p.ModPkgs {
		pp := &PinnedPkg{Funcs: map[string]FuncFP{}, Types: map[string]TypeFP{}, Vars: map[string]VarFP{}, Ifaces: map[string][]string{}}
		out.Pkgs[Rel(ip)] = pp
		scope := pk.Types.Scope()
		sp := p.SSA.Package(pk.Types)
		for _, name := range scope.Names() {
			switch o := scope.Lookup(name).(type) {
			case *types.Func:
				if fn := p.SSA.FuncValue(o); fn != nil && fn.Blocks != nil {
					pp.Funcs[canonFuncKey(o)] = funcFP(fn)
				}
			case *types.TypeName:
				if named, ok := o.Type().(*types.Named); ok {
					if it, isI := named.Underlying().(*types.Interface); isI {
						for i := 0; i < it.NumExplicitMethods(); i++ {
							m := it.ExplicitMethod(i)
							var names []string
							ms := m.Type().(*types.Signature)
							for k := 0; k < ms.Params().Len(); k++ {
								names = append(names, ms.Params().At(k).Name())
							}
							pp.Ifaces[objName(o)+"."+objName(m)] = names
						}
					}
					pp.Types[objName(o)] = typeFP(named)
					for i := 0; i < named.NumMethods(); i++ {
						m := named.Method(i)
						if fn := p.SSA.FuncValue(m); fn != nil && fn.Blocks != nil {
							pp.Funcs[canonFuncKey(m)] = funcFP(fn)
						}
					}
				}
			case *types.Var:
				fp := VarFP{Kind: "var", Type: typeStr(o.Type())}
				if sp != nil {
					if g, ok := sp.Members[name].(*ssa.Global); ok {
						fp.Init = initFP(p, g)
					}
				}
				pp.Vars[objName(o)] = fp
			case *types.Const:
				pp.Vars[objName(o)] = VarFP{Kind: "const", Type: typeStr(o.Type()), Init: o.Val().ExactString()}
			}
		}
	}
	return out
}

func (pn *Pinned) JSON() []byte {
	b, _ := json.MarshalIndent(pn, "", " ")
	return append(b, '\n')
}

func jaccard(a, b []string) float64 {
	if len(a) == 0 && len(b) == 0 {
		return 1
	}
	set := map[string]bool{}
	for _, x := range a {
		set[x] = true
	}
	inter := 0
	union := len(set)
	seen := map[string]bool{}
	for _, x := range b {
		if seen[x] {
			continue
		}
		seen[x] = true
		if set[x] {
			inter++
		} else {
			union++
		}
	}
	return float64(inter) / float64(union)
}

// fieldTypes strips the names from "name type" entries.
func fieldTypes(fs []string) []string {
	out := make([]string, len(fs))
	for i, f := range fs {
		if k := strings.Index(f, " "); k >= 0 {
			out[i] = f[k+1:]
		}
	}
	return out
}

// subseqStrings: a is a subsequence of b.
func subseqStrings(a, b []string) bool {
	k := 0
	for _, x := range b {
		if k < len(a) && a[k] == x {
			k++
		}
	}
	return k == len(a)
}

func eqStrings(a, b []string) bool {
	if len(a) != len(b) {
		return false
	}
	for i := range a {
		if a[i] != b[i] {
			return false
		}
	}
	return true
}

// BuildAliases matches missing pinned identifiers against new identifiers of
// the loaded program and records canonical names. Must run after SSA build
// and before functions are indexed by name.
func BuildAliases(p *Prog) {
	var pinned Pinned
	if err := json.Unmarshal(pinnedJSON, &pinned); err != nil || pinned.Pkgs == nil {
		return
	}
	for ip, pk := range p.ModPkgs {
		pp := pinned.Pkgs[Rel(ip)]
		if pp == nil {
			continue
		}
		scope := pk.Types.Scope()
		sp := p.SSA.Package(pk.Types)
		// ---- types
		var newTypes []*types.TypeName
		for _, name := range scope.Names() {
			if tn, ok := scope.Lookup(name).(*types.TypeName); ok {
				if _, pinnedName := pp.Types[name]; !pinnedName {
					newTypes = append(newTypes, tn)
				}
			}
		}
		for name, fp := range pp.Types {
			if scope.Lookup(name) != nil {
				continue
			}
			var best *types.TypeName
			n := 0
			for _, tn := range newTypes {
				named, ok := tn.Type().(*types.Named)
				if !ok {
					continue
				}
				cur := typeFP(named)
				if cur.Kind != fp.Kind {
					continue
				}
				same := false
				if fp.Kind == "struct" {
					same = eqStrings(fieldTypes(cur.Fields), fieldTypes(fp.Fields)) && jaccard(cur.Methods, fp.Methods) >= 0.5
				} else {
					same = jaccard(cur.Methods, fp.Methods) >= 0.5
				}
				if same {
					best = tn
					n++
				}
			}
			if n == 1 {
				setAlias(p, best, name, "type "+Rel(ip))
			}
		}
		// ---- fields of (canonically named) struct types
		for _, name := range scope.Names() {
			tn, ok := scope.Lookup(name).(*types.TypeName)
			if !ok {
				continue
			}
			fp, ok := pp.Types[objName(tn)]
			if !ok || fp.Kind != "struct" {
				continue
			}
			st, ok := tn.Type().Underlying().(*types.Struct)
			if !ok {
				continue
			}
			pinnedNames := map[string]string{} // name -> type
			for _, f := range fp.Fields {
				k := strings.Index(f, " ")
				pinnedNames[f[:k]] = f[k+1:]
			}
			cur := map[string]bool{}
			for i := 0; i < st.NumFields(); i++ {
				cur[st.Field(i).Name()] = true
			}
			for pn, pt := range pinnedNames {
				if cur[pn] {
					continue
				}
				var cand []*types.Var
				for i := 0; i < st.NumFields(); i++ {
					f := st.Field(i)
					if _, isPinned := pinnedNames[f.Name()]; isPinned {
						continue
					}
					if looseType(typeStr(f.Type())) == looseType(pt) {
						cand = append(cand, f)
					}
				}
				if len(cand) == 1 {
					setAlias(p, cand[0], pn, "field "+Rel(ip)+"."+objName(tn))
				} else if len(cand) > 1 && st.NumFields() == len(fp.Fields) {
					// same arity: match by position
					for i, f := range fp.Fields {
						if strings.HasPrefix(f, pn+" ") {
							if _, isPinned := pinnedNames[st.Field(i).Name()]; !isPinned && looseType(typeStr(st.Field(i).Type())) == looseType(pt) {
								setAlias(p, st.Field(i), pn, "field "+Rel(ip)+"."+objName(tn))
							}
						}
					}
				}
			}
		}
		// ---- package-level variables and constants
		for name, fp := range pp.Vars {
			if scope.Lookup(name) != nil {
				continue
			}
			var cand []types.Object
			for _, cn := range scope.Names() {
				if _, isPinned := pp.Vars[cn]; isPinned {
					continue
				}
				switch o := scope.Lookup(cn).(type) {
				case *types.Var:
					if fp.Kind == "var" && typeStr(o.Type()) == fp.Type {
						init := ""
						if sp != nil {
							if g, ok := sp.Members[cn].(*ssa.Global); ok {
								init = initFP(p, g)
							}
						}
						if init == fp.Init {
							cand = append(cand, o)
						}
					}
				case *types.Const:
					if fp.Kind == "const" && typeStr(o.Type()) == fp.Type && o.Val().Kind() != constant.Unknown && o.Val().ExactString() == fp.Init {
						cand = append(cand, o)
					}
				}
			}
			if len(cand) == 1 {
				setAlias(p, cand[0], name, fp.Kind+" "+Rel(ip))
			}
		}
	}
	// ---- functions and methods: two rounds so that renamed callees propagate
	for round := 0; round < 2; round++ {
		for ip, pk := range p.ModPkgs {
			pp := pinned.Pkgs[Rel(ip)]
			if pp == nil {
				continue
			}
			cur := map[string]*types.Func{}
			scope := pk.Types.Scope()
			for _, name := range scope.Names() {
				switch o := scope.Lookup(name).(type) {
				case *types.Func:
					cur[canonFuncKey(o)] = o
				case *types.TypeName:
					if named, ok := o.Type().(*types.Named); ok {
						for i := 0; i < named.NumMethods(); i++ {
							cur[canonFuncKey(named.Method(i))] = named.Method(i)
						}
					}
				}
			}
			type match struct {
				f     *types.Func
				score float64
			}
			claimed := map[*types.Func]string{}
			for key, fp := range pp.Funcs {
				if _, present := cur[key]; present {
					continue
				}
				recv := ""
				if k := strings.Index(key, "."); k >= 0 {
					recv = key[:k]
				}
				var ms []match
				for ck, f := range cur {
					if _, isPinned := pp.Funcs[ck]; isPinned {
						continue
					}
					crecv := ""
					if k := strings.Index(ck, "."); k >= 0 {
						crecv = ck[:k]
					}
					if crecv != recv {
						continue
					}
					fn := p.SSA.FuncValue(f)
					if fn == nil || fn.Blocks == nil {
						continue
					}
					cfp := funcFP(fn)
					need := 0.6
					if cfp.Sig != fp.Sig {
						// same parameters, and results that were only dropped or only added (a result
						// nobody read; an extra ok): the same function if its work is the same
						if !eqStrings(cfp.PTypes, fp.PTypes) || !(subseqStrings(cfp.RTypes, fp.RTypes) || subseqStrings(fp.RTypes, cfp.RTypes)) || len(fp.Callees) < 3 {
							continue
						}
						need = 0.8
					}
					if s := jaccard(cfp.Callees, fp.Callees); s >= need {
						ms = append(ms, match{f, s})
					}
				}
				sort.Slice(ms, func(i, j int) bool { return ms[i].score > ms[j].score })
				if len(ms) == 1 || (len(ms) > 1 && ms[0].score-ms[1].score >= 0.2) {
					if prev, dup := claimed[ms[0].f]; dup && prev != key {
						continue
					}
					claimed[ms[0].f] = key
					name := key
					if k := strings.Index(key, "."); k >= 0 {
						name = key[k+1:]
					}
					setAlias(p, ms[0].f, name, "func "+Rel(ip))
					continue
				}
				if len(ms) > 0 || round == 0 {
					continue
				}
				// the receiver changed: a method became a plain function (or the reverse, or moved
				// to another type). Same results, same work (callees), parameters that differ at
				// most by the receiver and one or two values the receiver used to carry.
				var rs []match
				for ck, f := range cur {
					if _, isPinned := pp.Funcs[ck]; isPinned {
						continue
					}
					if _, taken := claimed[f]; taken {
						continue
					}
					if _, has := keyOverride(f); has {
						continue
					}
					crecv := ""
					if k := strings.Index(ck, "."); k >= 0 {
						crecv = ck[:k]
					}
					if crecv == recv {
						continue
					}
					fn := p.SSA.FuncValue(f)
					if fn == nil || fn.Blocks == nil {
						continue
					}
					cfp := funcFP(fn)
					if !eqStrings(cfp.RTypes, fp.RTypes) || len(fp.Callees) < 2 {
						continue
					}
					if d := len(cfp.PTypes) - len(fp.PTypes); d < -2 || d > 2 {
						continue
					}
					if sc := jaccard(cfp.Callees, fp.Callees); sc >= 0.6 {
						rs = append(rs, match{f, sc})
					}
				}
				sort.Slice(rs, func(i, j int) bool { return rs[i].score > rs[j].score })
				if len(rs) == 1 || (len(rs) > 1 && rs[0].score-rs[1].score >= 0.2) {
					claimed[rs[0].f] = key
					canonMu.Lock()
					if _, dup := canonKey[rs[0].f]; !dup {
						canonKey[rs[0].f] = key
						p.regKeys = append(p.regKeys, rs[0].f)
						p.Aliases = append(p.Aliases, fmt.Sprintf("func %s: %s plays the role of the pinned %s (receiver changed; matched by results and callees)", Rel(ip), rs[0].f.FullName(), key))
					}
					canonMu.Unlock()
					name := key
					if k := strings.Index(key, "."); k >= 0 {
						name = key[k+1:]
					}
					setAlias(p, rs[0].f, name, "func "+Rel(ip))
				}
			}
		}
	}
}

var (
	pinnedOnce sync.Once
	pinnedData Pinned
)

func pinnedTable() *Pinned {
	pinnedOnce.Do(func() { _ = json.Unmarshal(pinnedJSON, &pinnedData) })
	return &pinnedData
}

// PinnedParamIndex: the position (without receiver) that the parameter called
// `name` had in the pinned declaration of f (module functions and interface
// methods); -1 if unknown.
func PinnedParamIndex(f *types.Func, name string) int {
	if f == nil || !isModObj(f) {
		return -1
	}
	pn := pinnedTable()
	if pn.Pkgs == nil {
		return -1
	}
	pp := pn.Pkgs[Rel(f.Pkg().Path())]
	if pp == nil {
		return -1
	}
	if fp, ok := pp.Funcs[canonFuncKey(f)]; ok {
		for k, n := range fp.Params {
			if n == name {
				return k
			}
		}
	}
	if m, ok := pp.Ifaces[canonFuncKey(f)]; ok {
		for k, n := range m {
			if n == name {
				return k
			}
		}
	}
	return -1
}

// looseType ignores channel directions (a field narrowed from `chan T` to
// `<-chan T` is the same field).
func looseType(t string) string {
	t = strings.ReplaceAll(t, "<-chan ", "chan ")
	t = strings.ReplaceAll(t, "chan<- ", "chan ")
	return t
}

// ---- parameter lists that changed ----
//
// Rules address parameters of anchored functions (and arguments of calls to them) by their
// position in the pinned tree. When a parameter was added, removed or moved (a context
// threaded through, a metrics handle added), pinnedParamMap re-establishes which current
// parameter plays the role of pinned parameter j: the one of the same type with the same
// name; failing that, the one with the same ordinal among the parameters of that type when
// both lists have equally many of that type.

type paramMap struct {
	idx    []int // pinned index (receiver excluded) -> current index, -1 if gone
	extras []int // current parameters that play no pinned role
}

var (
	paramMapMu sync.Mutex
	paramMaps  = map[*types.Func]*paramMap{}
)

// pinnedParamMap returns nil when f is not pinned or its parameter list is unchanged
// (up to renames).
func pinnedParamMap(f *types.Func) *paramMap {
	if f == nil || !isModObj(f) {
		return nil
	}
	paramMapMu.Lock()
	defer paramMapMu.Unlock()
	if m, ok := paramMaps[f]; ok {
		return m
	}
	var m *paramMap
	defer func() { paramMaps[f] = m }()
	pn := pinnedTable()
	if pn.Pkgs == nil {
		return nil
	}
	pp := pn.Pkgs[Rel(f.Pkg().Path())]
	if pp == nil {
		return nil
	}
	sig, _ := f.Type().(*types.Signature)
	if sig == nil {
		return nil
	}
	var pnames, ptypes []string
	if fp, ok := pp.Funcs[canonFuncKey(f)]; ok && len(fp.PTypes) == len(fp.Params) {
		pnames, ptypes = fp.Params, fp.PTypes
	} else if names, ok := pp.Ifaces[ifaceMethodKey(f)]; ok {
		pnames = names // interface methods: names only
	} else {
		return nil
	}
	n := sig.Params().Len()
	cn := make([]string, n)
	ct := make([]string, n)
	for k := 0; k < n; k++ {
		cn[k] = sig.Params().At(k).Name()
		ct[k] = looseType(typeStr(sig.Params().At(k).Type()))
	}
	if ptypes != nil {
		// a channel parameter narrowed to one direction is the same parameter
		lt := make([]string, len(ptypes))
		for k := range ptypes {
			lt[k] = looseType(ptypes[k])
		}
		ptypes = lt
	}
	if ptypes == nil {
		if len(pnames) == n {
			return nil
		}
		m = &paramMap{}
		used := map[int]bool{}
		for _, name := range pnames {
			at := -1
			for k := range cn {
				if !used[k] && cn[k] == name {
					at = k
					break
				}
			}
			if at >= 0 {
				used[at] = true
			}
			m.idx = append(m.idx, at)
		}
		for k := range cn {
			if !used[k] {
				m.extras = append(m.extras, k)
			}
		}
		return m
	}
	same := len(ptypes) == n
	for k := 0; same && k < n; k++ {
		if ptypes[k] != ct[k] {
			same = false
		}
	}
	if same {
		return nil
	}
	m = &paramMap{idx: make([]int, len(ptypes))}
	used := map[int]bool{}
	for j := range ptypes {
		m.idx[j] = -1
		for k := range ct {
			if !used[k] && ct[k] == ptypes[j] && cn[k] == pnames[j] {
				m.idx[j] = k
				used[k] = true
				break
			}
		}
	}
	count := func(xs []string, t string) int {
		c := 0
		for _, x := range xs {
			if x == t {
				c++
			}
		}
		return c
	}
	for j := range ptypes {
		if m.idx[j] >= 0 || count(ptypes, ptypes[j]) != count(ct, ptypes[j]) {
			continue
		}
		ord := 0
		for i := 0; i < j; i++ {
			if ptypes[i] == ptypes[j] {
				ord++
			}
		}
		seen := 0
		for k := range ct {
			if ct[k] != ptypes[j] {
				continue
			}
			if seen == ord && !used[k] {
				m.idx[j] = k
				used[k] = true
			}
			seen++
		}
	}
	for k := range ct {
		if !used[k] {
			m.extras = append(m.extras, k)
		}
	}
	return m
}

// ifaceMethodKey: "I.Method" for a method declared by an interface of the module.
func ifaceMethodKey(f *types.Func) string {
	sig, _ := f.Type().(*types.Signature)
	if sig == nil || sig.Recv() == nil {
		return ""
	}
	t := sig.Recv().Type()
	if p, ok := t.(*types.Pointer); ok {
		t = p.Elem()
	}
	if n, ok := t.(*types.Named); ok {
		if _, isI := n.Underlying().(*types.Interface); isI {
			return objName(n.Obj()) + "." + objName(f)
		}
	}
	return ""
}

// recvRoles: does the pinned declaration of f have a receiver, does the current one, and
// (when the receiver was dropped) which current parameter carries the value of the pinned
// receiver's type (-1: none).
func recvRoles(f *types.Func) (pinnedRecv, curRecv bool, recvParam int) {
	recvParam = -1
	sig, _ := f.Type().(*types.Signature)
	if sig == nil {
		return
	}
	curRecv = sig.Recv() != nil
	pinnedRecv = curRecv
	key, over := keyOverride(f)
	if !over {
		return
	}
	pinnedRecv = strings.Contains(key, ".")
	if pinnedRecv && !curRecv {
		tn := key[:strings.Index(key, ".")]
		for k := 0; k < sig.Params().Len(); k++ {
			if n := recvNamed(sig.Params().At(k).Type()); n != nil && objName(n.Obj()) == tn {
				recvParam = k
			}
		}
	}
	return
}

// ParamAt: the parameter of fn that plays the role of parameter i (receiver first) of the
// pinned tree; nil when that role no longer exists.
func ParamAt(fn *ssa.Function, i int) *ssa.Parameter {
	if fn == nil || i < 0 {
		return nil
	}
	obj, _ := fn.Object().(*types.Func)
	if obj == nil || fn.Parent() != nil {
		if i < len(fn.Params) {
			return fn.Params[i]
		}
		return nil
	}
	pinnedRecv, curRecv, recvParam := recvRoles(obj)
	pOff, cOff := 0, 0
	if pinnedRecv {
		pOff = 1
	}
	if curRecv {
		cOff = 1
	}
	at := func(k int) *ssa.Parameter {
		if k >= 0 && k < len(fn.Params) {
			return fn.Params[k]
		}
		return nil
	}
	if i < pOff { // the pinned receiver
		if curRecv {
			return at(0)
		}
		if recvParam >= 0 {
			return at(cOff + recvParam)
		}
		return nil
	}
	j := i - pOff
	m := pinnedParamMap(obj)
	if m == nil {
		return at(cOff + j)
	}
	if j < len(m.idx) {
		if k := m.idx[j]; k >= 0 {
			return at(cOff + k)
		}
		return nil
	}
	if e := j - len(m.idx); e < len(m.extras) {
		return at(cOff + m.extras[e])
	}
	return nil
}

// PArgs: cc.Args in the order of the pinned parameter list of the callee (receiver first for
// static method calls, without the receiver for interface calls — like cc.Args); arguments
// of added parameters follow, a removed parameter yields nil.
func PArgs(cc *ssa.CallCommon) []ssa.Value {
	if cc == nil {
		return nil
	}
	if cc.IsInvoke() {
		m := pinnedParamMap(cc.Method)
		if m == nil {
			return cc.Args
		}
		return permute(cc.Args, 0, m)
	}
	f := cc.StaticCallee()
	if f == nil || f.Parent() != nil {
		return cc.Args
	}
	obj, _ := f.Object().(*types.Func)
	if obj == nil {
		return cc.Args
	}
	pinnedRecv, curRecv, recvParam := recvRoles(obj)
	cOff := 0
	if curRecv {
		cOff = 1
	}
	m := pinnedParamMap(obj)
	if m == nil && pinnedRecv == curRecv {
		return cc.Args
	}
	var out []ssa.Value
	switch {
	case pinnedRecv && curRecv:
		out = append(out, cc.Args[0])
	case pinnedRecv && !curRecv:
		if recvParam >= 0 && recvParam < len(cc.Args) {
			out = append(out, cc.Args[recvParam])
		} else {
			out = append(out, nil)
		}
	}
	if m == nil {
		out = append(out, cc.Args[cOff:]...)
	} else {
		out = append(out, permute(cc.Args, cOff, m)...)
	}
	if !pinnedRecv && curRecv {
		out = append(out, cc.Args[0]) // the new receiver: an extra
	}
	return out
}

func permute(args []ssa.Value, off int, m *paramMap) []ssa.Value {
	var out []ssa.Value
	for _, k := range m.idx {
		if k >= 0 && off+k < len(args) {
			out = append(out, args[off+k])
		} else {
			out = append(out, nil)
		}
	}
	for _, k := range m.extras {
		if off+k < len(args) {
			out = append(out, args[off+k])
		}
	}
	return out
}

// ---- result lists that changed ----

var resultMaps = map[*types.Func][]int{}

// pinnedResultIndex: the current position of the result that was result i of f in the
// pinned tree (matched by type and ordinal among results of that type); i itself when f is
// not pinned or its result list is unchanged; -1 when that result is gone.
func pinnedResultIndex(f *types.Func, i int) int {
	if f == nil || !isModObj(f) {
		return i
	}
	paramMapMu.Lock()
	defer paramMapMu.Unlock()
	m, ok := resultMaps[f]
	if !ok {
		m = nil
		func() {
			pn := pinnedTable()
			if pn.Pkgs == nil {
				return
			}
			pp := pn.Pkgs[Rel(f.Pkg().Path())]
			if pp == nil {
				return
			}
			fp, okf := pp.Funcs[canonFuncKey(f)]
			if !okf || fp.RTypes == nil {
				return
			}
			sig, _ := f.Type().(*types.Signature)
			if sig == nil {
				return
			}
			n := sig.Results().Len()
			ct := make([]string, n)
			for k := 0; k < n; k++ {
				ct[k] = typeStr(sig.Results().At(k).Type())
			}
			same := len(ct) == len(fp.RTypes)
			for k := 0; same && k < n; k++ {
				if ct[k] != fp.RTypes[k] {
					same = false
				}
			}
			if same {
				return
			}
			count := func(xs []string, t string) int {
				c := 0
				for _, x := range xs {
					if x == t {
						c++
					}
				}
				return c
			}
			m = make([]int, len(fp.RTypes))
			for j, t := range fp.RTypes {
				m[j] = -1
				if count(fp.RTypes, t) != count(ct, t) {
					continue
				}
				ord := 0
				for q := 0; q < j; q++ {
					if fp.RTypes[q] == t {
						ord++
					}
				}
				seen := 0
				for k := range ct {
					if ct[k] == t {
						if seen == ord {
							m[j] = k
						}
						seen++
					}
				}
			}
		}()
		resultMaps[f] = m
	}
	if m == nil {
		return i
	}
	if i < len(m) {
		return m[i]
	}
	return -1
}

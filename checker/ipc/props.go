package ipc

import (
	"fmt"

	"golang.org/x/tools/go/ssa"
)

// Props is the registry of property checks, filled by init() in cXX.go files.
var Props = map[string]*PropSpec{}

func register(s *PropSpec) {
	if s.Level == "" {
		s.Level = "other"
	}
	if len(s.Trusted) == 0 {
		s.Trusted = defaultTrusted
	}
	Props[s.ID] = s
}

var defaultTrusted = []string{
	"go/types type checker and go/packages loader (Go 1.23.5)",
	"golang.org/x/tools v0.29.0 go/ssa builder, dominator tree, VTA call graph",
	"the frozen tables in /verif/checker/ipc (guard table, who-may-write table, hop-by-hop oracle, status oracle, exit-call table), each line derived by reading the pinned tree",
	"Go memory model / sync.Mutex, channel and io.Pipe semantics as documented",
}

// progDefs: name -> (patterns, deep)
var progDefs = map[string]struct {
	Patterns []string
	Deep     bool
}{
	"mod":             {[]string{"./..."}, false},
	"agent":           {[]string{"./agent"}, true},
	"server":          {[]string{"./server"}, true},
	"app":             {[]string{"./app"}, true},
	"bridge-backend":  {[]string{"./utils/tcpbridge/tcp-bridge-backend"}, true},
	"bridge-frontend": {[]string{"./utils/tcpbridge/tcp-bridge-frontend"}, true},
}

// LoadNamed loads one of the predefined programs.
func LoadNamed(name, repo string, overlay map[string][]byte, goos, goarch string) (*Prog, error) {
	d, ok := progDefs[name]
	if !ok {
		return nil, fmt.Errorf("unknown program %q", name)
	}
	return Load(name, LoadOpts{Dir: repo, Patterns: d.Patterns, Deep: d.Deep, Overlay: overlay, GOOS: goos, GOARCH: goarch})
}

// Thorough adds the thorough-tier work (self-validation corpus, other
// GOOS/GOARCH) — see thorough.go.
var Thorough = func(c *Ctx, spec *PropSpec, repo string, extra map[string]interface{}) {}

// need fetches a function anchor; records an undecided obligation if missing.
func (c *Ctx) need(p *Prog, rule, name string) *ssaFunc {
	fn := p.Func(name)
	if fn == nil {
		c.Unk(rule, "anchor:"+name, p, 0, "anchored function "+name+" not found in program "+p.Name+" (renamed or removed): the rule cannot be evaluated")
		return nil
	}
	return fn
}

type ssaFunc = ssa.Function

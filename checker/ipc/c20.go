package ipc

import (
	"fmt"
	"go/constant"
	"go/token"
	"strings"

	"golang.org/x/tools/go/ssa"
)

func init() {
	register(&PropSpec{
		ID:    "C20",
		Progs: []string{"mod"},
		Explanation: "Exit times and the fate of an in-flight request at a particular signal instant are run-time and not decided. Decided is the ordering and counting structure: " +
			"(G) health gate: waitForHealthy() dominates the start of the adapter in main; the proxy is only polled from pollForNewRequests ← runAdapter ← main's closure; waitForHealthy cannot return while checks are enabled and failing (partial evaluation); healthCheck returns nil only for status 200; " +
			"(U) unhealthy counter: loop-carried counter with edges {0 initially, +1 on a failed check, 0 on a passed check}, the terminating call is reachable exactly for counter ≥ threshold (truth table), the threshold is clamped to ≥ 1, one check per tick; " +
			"(S) shutdown: the signal channel registers exactly SIGINT and SIGTERM and is closed by the goroutine that received one; after the signal, with a positive grace period main cancels the polling context, then sleeps for the period, then terminates; otherwise it returns without blocking; the cancel function belongs to the context handed to the poller; " +
			"(P) polling stops: the list call is only reachable through the default arm of a non-blocking select on pollingCtx.Done() whose other arm returns; " +
			"(W) workers are independent of the polling context: the polling context is used only for Done()/Err() inside pollForNewRequests (never stored, captured or passed on) and the shared *http.Client is not modified there. " +
			"(P, second part) ListPendingRequests performs exactly one proxy round trip per call, outside any loop, so the cancellation test runs between any two polls. " +
			"runAdapter hands the polling context to pollForNewRequests and to nothing else." +
			" (S, second part) nothing deferred by main receives, waits or sleeps; (W, second part) the polling context may be handed on only to code that reads it (Err/Value/Deadline).",
		Assumptions: []string{"os/signal delivers the registered signals; context cancellation is observed by Done()", "log.Fatal terminates the process"},
		Run:         runC20,
	})
}

func runC20(c *Ctx) {
	p := c.Progs["mod"]
	c.Rule("C20.Y", "compatibility with the party that is not changed with this code: the agent starts only the three exchanges every proxy build tells apart (a shutdown notice is a list poll to an older proxy)", 2)
	ruleAgentProxyExchanges(c, p, "C20.Y")
	c.Rule("C20.G", "health gate before any polling", 7)
	c.Rule("C20.U", "consecutive-failure counter and threshold", 7)
	c.Rule("C20.S", "shutdown sequence; signal dispositions, adapter result and health interval", 12)
	c.Rule("C20.P", "polling stops once cancellation is observed", 3)
	c.Rule("C20.W", "workers are independent of the polling context", 4)
	const ag = ModPath + "/agent"

	main := c.need(p, "C20.G", "agent.main")
	if main == nil {
		return
	}
	// ---- C20.G
	wfh := c.UniqueCall("C20.G", p, main, false, ag+".waitForHealthy")
	var adapterGo *ssa.Go
	var adapterFn *ssa.Function
	EachInstr(main, func(i ssa.Instruction) {
		if g, ok := i.(*ssa.Go); ok {
			if fn := StaticFunc(&g.Call); fn != nil {
				if FuncName(fn) == "agent.runAdapter" || len(Calls(fn, ag+".runAdapter")) > 0 {
					adapterGo, adapterFn = g, fn
				}
			}
		}
	})
	if adapterGo == nil {
		// maybe called synchronously
		if cs := Calls(main, ag+".runAdapter"); len(cs) == 1 {
			c.Check("C20.G", "main:health-gate-before-adapter", p, cs[0].Pos(), wfh != nil && Dominates(wfh, cs[0]), "waitForHealthy() dominates the adapter start", "the adapter (which polls the proxy) starts before waitForHealthy() has returned")
		} else {
			c.Unk("C20.G", "main:health-gate-before-adapter", p, main.Pos(), "cannot find where main starts runAdapter")
		}
	} else {
		c.Check("C20.G", "main:health-gate-before-adapter", p, adapterGo.Pos(), wfh != nil && Dominates(wfh, adapterGo), "waitForHealthy() dominates the go statement that starts the adapter", "the adapter (which polls the proxy for work) is started before waitForHealthy() has returned: the agent asks for work while the backend is unhealthy")
	}
	// who-may-call chain
	count := func(callee string) (n int, callers []string) {
		for _, fn := range p.Funcs {
			if strings.HasPrefix(FuncName(fn), "testing") {
				continue
			}
			for range Calls(fn, callee) {
				n++
				callers = append(callers, FuncName(fn))
			}
		}
		return
	}
	n1, c1 := count(ModPath + "/agent/utils.ListPendingRequests")
	c.Check("C20.G", "who-polls:ListPendingRequests", p, 0, n1 == 1 && c1[0] == "agent.pollForNewRequests", "ListPendingRequests is only called from pollForNewRequests", fmt.Sprintf("ListPendingRequests is called from %v", c1))
	n2, c2 := count(ag + ".pollForNewRequests")
	c.Check("C20.G", "who-polls:pollForNewRequests", p, 0, n2 == 1 && c2[0] == "agent.runAdapter", "pollForNewRequests is only called from runAdapter", fmt.Sprintf("pollForNewRequests is called from %v", c2))
	n3, c3 := count(ag + ".runAdapter")
	okc3 := n3 == 1 && (c3[0] == "agent.main" || adapterFn != nil && c3[0] == FuncName(adapterFn))
	c.Check("C20.G", "who-polls:runAdapter", p, 0, okc3, "runAdapter is only started from main, after the gate", fmt.Sprintf("runAdapter is called from %v", c3))

	hcName := ag + ".healthCheck"
	hcEnv := func(fn *ssa.Function, freq int64, healthy bool) Env {
		return func(v ssa.Value) (constant.Value, bool) {
			if PathOf(v) == "**global:healthCheckFreq" {
				if _, isU := v.(*ssa.UnOp); isU {
					return IntC(freq), true
				}
			}
			if bo, ok := v.(*ssa.BinOp); ok && (bo.Op == token.EQL || bo.Op == token.NEQ) && IsNilConst(bo.Y) {
				if CallResult(bo.X, 0, hcName) != nil {
					return constant.MakeBool((bo.Op == token.EQL) == healthy), true
				}
			}
			// a ticker's channel is never closed: `for range ticker.C` does not end by itself
			if e, ok := v.(*ssa.Extract); ok && e.Index == 1 {
				if u, ok := e.Tuple.(*ssa.UnOp); ok && u.Op == token.ARROW && u.CommaOk {
					if base, fld, ok := FieldLoad(u.X); ok && fld == "C" && NamedType(base.Type()) == "time.Ticker" {
						return constant.MakeBool(true), true
					}
				}
			}
			return nil, false
		}
	}
	if f := c.need(p, "C20.G", "agent.waitForHealthy"); f != nil {
		h1, _ := (&Walk{Target: IsReturn, Edge: EdgeUnder(hcEnv(f, 10, false))}).FromBlock(f.Blocks[0])
		h2, _ := (&Walk{Target: IsReturn, Edge: EdgeUnder(hcEnv(f, 10, true))}).FromBlock(f.Blocks[0])
		h3, _ := (&Walk{Target: IsReturn, Edge: EdgeUnder(hcEnv(f, 0, false))}).FromBlock(f.Blocks[0])
		c.Check("C20.G", "waitForHealthy:blocks-until-healthy", p, f.Pos(), h1 == nil && h2 != nil, "with checks enabled no return is reachable while every health check fails; a passing check lets it return", "waitForHealthy can return although checks are enabled and no health check has passed (or can never return)")
		c.Check("C20.G", "waitForHealthy:disabled-returns", p, f.Pos(), h3 != nil, "with checks disabled it returns at once", "with health checks disabled waitForHealthy does not return")
	}
	if f := c.need(p, "C20.G", "agent.healthCheck"); f != nil {
		// healthCheck may hand on, unchanged, the verdict of a new helper that does the probing
		// (probe + classification split in two): judge the function that forms the verdict
		for depth := 0; depth < 3; depth++ {
			var del *ssa.Function
			all := true
			for _, r := range Returns(f) {
				call, isCall := ReturnValue(r, 0).(*ssa.Call)
				if !isCall {
					all = false
					break
				}
				h, isFn := calleeFn(call.Call.Value)
				if !isFn || !IsNewHelper(h) || (del != nil && del != h) || h.Signature.Results().Len() != 1 {
					all = false
					break
				}
				del = h
			}
			if !all || del == nil {
				break
			}
			f = del
		}
		env := func(st int64) Env {
			return func(v ssa.Value) (constant.Value, bool) {
				if _, fld, ok := FieldLoad(v); ok && fld == "StatusCode" {
					return IntC(st), true
				}
				return nil, false
			}
		}
		nilRet := func(i ssa.Instruction) bool {
			r, ok := i.(*ssa.Return)
			return ok && IsNilConst(ReturnValue(r, 0))
		}
		bad := ""
		for _, st := range []int64{100, 199, 201, 204, 301, 302, 404, 500, 503} {
			if h, _ := (&Walk{Target: nilRet, Edge: EdgeUnder(env(st)), Local: true}).FromBlock(f.Blocks[0]); h != nil {
				bad = fmt.Sprintf("status %d counts as healthy", st)
			}
		}
		h200, _ := (&Walk{Target: nilRet, Edge: EdgeUnder(env(200)), Local: true}).FromBlock(f.Blocks[0])
		c.Check("C20.G", "healthCheck:only-200-is-healthy", p, f.Pos(), bad == "" && h200 != nil, "nil is returned only for status 200", "healthCheck: "+bad)
	}

	// ---- C20.U
	localClamp := false
	if f := c.need(p, "C20.U", "agent.runHealthChecks"); f != nil {
		hc := Calls(f, hcName)
		fatal := ExitCalls(f)
		if len(hc) != 1 || len(fatal) != 1 {
			c.Unk("C20.U", "counter:shape", p, f.Pos(), fmt.Sprintf("expected one healthCheck() call and one terminating call in runHealthChecks, found %d/%d", len(hc), len(fatal)))
		} else {
			c.Check("C20.U", "one-check-per-tick", p, hc[0].Pos(), InLoop(hc[0].Block()), "one healthCheck() per tick of the loop", "healthCheck() is not called inside the tick loop")
			// failing / passing successors
			var ifi *ssa.If
			failSucc := 0
			EachInstr(f, func(i ssa.Instruction) {
				if x, ok := i.(*ssa.If); ok {
					if v, s, ok := ErrNilTest(x); ok && v == hc[0].(ssa.Value) {
						ifi, failSucc = x, s
					}
				}
			})
			// the counter: the value compared before the fatal call
			var cmp *ssa.BinOp
			for _, g := range GuardingIfs(fatal[0]) {
				if bo, ok := g.If.Cond.(*ssa.BinOp); ok && cmp == nil {
					switch bo.Op {
					case token.GEQ, token.GTR, token.LSS, token.LEQ, token.EQL:
						cmp = bo
					}
				}
			}
			if ifi == nil || cmp == nil {
				c.Unk("C20.U", "counter:shape", p, f.Pos(), "cannot find the health-check result test or the threshold comparison guarding the terminating call")
			} else {
				cnt, thr := cmp.X, cmp.Y
				if PathOf(cnt) == "**global:healthCheckUnhealthy" {
					cnt, thr = thr, cnt
				}
				okFlag := PathOf(thr) == "**global:healthCheckUnhealthy"
				if ph, isPhi := thr.(*ssa.Phi); isPhi && !okFlag {
					// a private copy of the flag clamped from below: phi(flag value, 1)
					okFlag = true
					sawFlag := false
					for _, e := range ph.Edges {
						switch {
						case PathOf(e) == "**global:healthCheckUnhealthy":
							sawFlag = true
						case isConstInt(e, 1):
						default:
							okFlag = false
						}
					}
					okFlag = okFlag && sawFlag
					if okFlag {
						if win, err := (&interp{p: p, globals: map[string]iv{}}).evalValue(thr, 0); err == nil && win.kind == 'i' && win.ilo.Sign() > 0 {
							localClamp = true
						}
					}
				}
				c.Check("C20.U", "threshold:is-configured-flag", p, cmp.Pos(), okFlag, "the counter is compared with -health-check-unhealthy-threshold", "the failure counter is compared with "+PathOf(thr)+", not with the configured threshold")
				// truth table
				env := func(cv, tv int64) Env {
					return func(v ssa.Value) (constant.Value, bool) {
						if v == cnt {
							return IntC(cv), true
						}
						if v == thr {
							return IntC(tv), true
						}
						return nil, false
					}
				}
				reach := func(cv, tv int64) bool {
					h, _ := (&Walk{Target: func(i ssa.Instruction) bool { return i == fatal[0] }, Edge: EdgeUnder(env(cv, tv))}).FromInstr(cmp)
					return h != nil
				}
				okT := !reach(2, 3) && reach(3, 3) && reach(4, 3) && !reach(0, 1) && reach(1, 1)
				c.Check("C20.U", "threshold:exit-iff-counter-reaches-it", p, cmp.Pos(), okT, "the terminating call is reachable for counter = threshold and counter > threshold, not for counter < threshold", "the agent does not terminate exactly when the consecutive-failure counter reaches the threshold (off by one / inverted comparison)")
				// counter edges: follow phis
				failBlk, passBlk := ifi.Block().Succs[failSucc], ifi.Block().Succs[1-failSucc]
				var loopPhi *ssa.Phi
				okInc, okReset, okInit := false, false, false
				var visit func(v ssa.Value, from *ssa.BasicBlock, depth int)
				seen := map[ssa.Value]bool{}
				visit = func(v ssa.Value, from *ssa.BasicBlock, depth int) {
					if depth > 6 || seen[v] {
						return
					}
					seen[v] = true
					ph, ok := v.(*ssa.Phi)
					if !ok {
						return
					}
					for k, e := range ph.Edges {
						pred := ph.Block().Preds[k]
						switch x := e.(type) {
						case *ssa.Const:
							if n, isC := ConstInt(x); isC && n == 0 {
								if pred == passBlk || passBlk.Dominates(pred) {
									okReset = true
								} else if !InLoop(pred) {
									okInit = true
									loopPhi = ph
								}
							} else if pred == passBlk || passBlk.Dominates(pred) {
								okReset = false
							}
						case *ssa.BinOp:
							if x.Op == token.ADD && isConstInt(x.Y, 1) && (pred == failBlk || failBlk.Dominates(pred)) {
								if _, isPhi := x.X.(*ssa.Phi); isPhi {
									okInc = true
									visit(x.X, pred, depth+1)
								}
							} else if pred == passBlk || passBlk.Dominates(pred) {
								// anything but a constant 0 on the passing arm (e.g. counter-1) is not a reset
								okReset = false
								seen[ssa.Value(x)] = true
								resetBad = true
							}
						case *ssa.Phi:
							visit(x, pred, depth+1)
						}
					}
				}
				resetBad = false
				visit(cnt, nil, 0)
				_ = loopPhi
				// every way through the failing side adds one: a sub-case that leaves the counter as it is
				// (a class of failures declared "inconclusive") is never counted
				var allInc func(v ssa.Value, d int) bool
				allInc = func(v ssa.Value, d int) bool {
					if d > 6 {
						return false
					}
					switch x := v.(type) {
					case *ssa.BinOp:
						_, isPhi := x.X.(*ssa.Phi)
						return x.Op == token.ADD && isConstInt(x.Y, 1) && isPhi
					case *ssa.Phi:
						if x.Block() != failBlk && !failBlk.Dominates(x.Block()) {
							return false // the counter as it came in: unchanged
						}
						for _, e := range x.Edges {
							if !allInc(e, d+1) {
								return false
							}
						}
						return true
					}
					return false
				}
				seen2 := map[*ssa.Phi]bool{}
				var failSide func(v ssa.Value, d int) bool
				failSide = func(v ssa.Value, d int) bool {
					ph, isPhi := v.(*ssa.Phi)
					if !isPhi || seen2[ph] || d > 6 {
						return true
					}
					seen2[ph] = true
					for k, e := range ph.Edges {
						pred := ph.Block().Preds[k]
						switch {
						case pred == failBlk || failBlk.Dominates(pred):
							if !allInc(e, 0) {
								return false
							}
						case pred == passBlk || passBlk.Dominates(pred):
						default:
							if InLoop(pred) && !failSide(e, d+1) {
								return false
							}
						}
					}
					return true
				}
				if okInc && !failSide(cnt, 0) {
					okInc = false
				}
				c.Check("C20.U", "counter:increment-on-failure", p, cmp.Pos(), okInc, "every failed check adds one to the counter", "a failed health check does not (on every path through the failing side) add one to the loop-carried counter: a class of failures that is neither counted nor a success — timeouts declared inconclusive, say — lets a wedged backend fail checks for ever without the agent terminating")
				c.Check("C20.U", "counter:reset-on-success", p, cmp.Pos(), okReset && !resetBad, "a passed check sets the counter to 0 (a single success resets the count)", "a passed health check does not reset the counter to 0 (e.g. it only decrements it): non-consecutive failures add up and the agent terminates itself although the threshold number of consecutive failures never occurred")
				c.Check("C20.U", "counter:starts-at-zero", p, cmp.Pos(), okInit, "the counter starts at 0", "the counter does not start at 0")
			}
		}
		// clamp
		okClamp := localClamp
		EachInstr(f, func(i ssa.Instruction) {
			if st, ok := i.(*ssa.Store); ok && PathOf(st.Addr) == "*global:healthCheckUnhealthy" && isConstInt(st.Val, 1) {
				for _, g := range GuardingIfs(st) {
					if bo, isB := g.If.Cond.(*ssa.BinOp); isB && bo.Op == token.LSS && isConstInt(bo.Y, 1) && g.Succ == 0 {
						okClamp = true
					}
				}
			}
		})
		c.Check("C20.U", "threshold:clamped-to-one", p, f.Pos(), okClamp, "a threshold < 1 is raised to 1 before the loop", "the threshold is no longer clamped to at least 1")
	}

	// ---- C20.S
	if f := c.need(p, "C20.S", "agent/utils.ShutdownSignalChan"); f != nil {
		sn := c.UniqueCall("C20.S", p, f, false, "os/signal.Notify")
		if sn != nil {
			sigs := notifiedSignals(p, sn)
			c.Check("C20.S", "signals:exactly-INT-and-TERM", p, sn.Pos(), len(sigs) == 2 && sigs[2] && sigs[15], "signal.Notify(…, SIGINT, SIGTERM)", fmt.Sprintf("the shutdown channel registers signals %v, not exactly SIGINT(2) and SIGTERM(15)", sigs))
			// goroutine: recv from sigs then close(ch); returned value is ch
			okG := false
			for _, cl := range DirectClosures(f) {
				var rcv, cls ssa.Instruction
				for _, op := range ChanOpsOf(cl) {
					if op.Kind == "recv" && SameValue(op.Chan, PArgs(CallOf(sn))[0]) {
						rcv = op.Instr
					}
					if op.Kind == "close" {
						for _, r := range Returns(f) {
							if SameValue(ReturnValue(r, 0), op.Chan) {
								cls = op.Instr
							}
						}
					}
				}
				if rcv != nil && cls != nil && Dominates(rcv, cls) && goBodyOnce(cl) {
					okG = true
				}
			}
			c.Check("C20.S", "signals:channel-closed-after-signal", p, f.Pos(), okG, "a goroutine receives one registered signal and then closes the returned channel", "the returned channel is not closed by a goroutine after it received a registered signal")
		}
	}
	{
		sc := c.UniqueCall("C20.S", p, main, false, ModPath+"/agent/utils.ShutdownSignalChan")
		var recv ssa.Instruction
		if sc != nil {
			for _, op := range ChanOpsOf(main) {
				if op.Kind == "recv" && SameValue(op.Chan, sc.(ssa.Value)) {
					recv = op.Instr
				}
			}
		}
		if recv == nil {
			c.Bad("C20.S", "main:waits-for-signal", p, main.Pos(), "main does not wait on the shutdown signal channel")
		} else {
			c.OK("C20.S", "main:waits-for-signal", p, recv.Pos(), "main blocks on the shutdown signal channel")
			// between registering the handler (signals are no longer fatal from then on) and waiting
			// for the signal, main does not wait for anything else: a health wait in between makes the
			// agent deaf to SIGINT/SIGTERM for as long as the backend stays unhealthy
			blocking := func(i ssa.Instruction) bool {
				if i.Parent() != main {
					return false
				}
				if _, isGo := i.(*ssa.Go); isGo {
					return false
				}
				if IsCall(i, ModPath+"/agent.waitForHealthy", ModPath+"/agent.runAdapter", ModPath+"/agent.runHealthChecks", "time.Sleep", "(*sync.WaitGroup).Wait") {
					return true
				}
				if u, isU := i.(*ssa.UnOp); isU && u.Op == token.ARROW && i != recv {
					return true
				}
				return false
			}
			hit, _ := (&Walk{Target: blocking, Avoid: func(i ssa.Instruction) bool { return i == recv }, Local: true}).FromInstr(sc)
			c.Check("C20.S", "main:nothing-waits-between-handler-registration-and-signal-wait", p, sc.Pos(), hit == nil, "after signal.Notify main goes straight to the receive from the signal channel", "main registers the signal handler and then waits for something else first ("+posStr(p, hit)+"): during that wait SIGINT/SIGTERM only close a channel nobody reads, so the agent neither exits promptly nor starts its graceful period")
			env := func(to int64) Env {
				return func(v ssa.Value) (constant.Value, bool) {
					if PathOf(v) == "**global:gracefulShutdownTimeout" {
						if _, isU := v.(*ssa.UnOp); isU {
							return IntC(to), true
						}
					}
					return nil, false
				}
			}
			var cancel, sleep, fatal ssa.Instruction
			EachInstr(main, func(i ssa.Instruction) {
				if !Dominates(recv, i) {
					return
				}
				cc := CallOf(i)
				if cc == nil {
					return
				}
				if !cc.IsInvoke() && CallResult(cc.Value, 1, "context.WithCancel") != nil {
					cancel = i
				}
				if CalleeName(cc) == "time.Sleep" {
					sleep = i
				}
				if IsExitCall(i) {
					fatal = i
				}
			})
			ok := cancel != nil && sleep != nil && fatal != nil && Dominates(cancel, sleep) && Dominates(sleep, fatal)
			c.Check("C20.S", "graceful:cancel-then-sleep-then-exit", p, recv.Pos(), ok, "after the signal: cancel polling, then sleep, then terminate", "after the signal main does not (1) cancel the polling context, (2) sleep for the grace period and (3) terminate, in that order: polling continues during the grace period or the process exits before in-flight requests can finish")
			if sleep != nil {
				c.ArgIs("C20.S", "graceful:sleeps-for-configured-period", p, sleep, 0, "the sleep lasts the configured grace period", "**global:gracefulShutdownTimeout")
			}
			if cancel != nil {
				// the cancelled context is the one given to the poller
				wc := CallResult(CallOf(cancel).Value, 1, "context.WithCancel")
				okCtx := false
				if wc != nil && adapterFn != nil {
					for _, call := range Calls(adapterFn, ag+".runAdapter") {
						rs := Roots(PArgs(CallOf(call))[1])
						if len(rs) == 1 {
							if e, ok := rs[0].(*ssa.Extract); ok && e.Tuple == ssa.Value(wc) && e.Index == 0 {
								okCtx = true
							}
						}
					}
				}
				c.Check("C20.S", "graceful:cancels-the-polling-context", p, cancel.Pos(), okCtx, "the cancel function belongs to the context handed to runAdapter as polling context", "the cancel function called on shutdown does not belong to the context that is handed to the poller")
				// only on the timeout>0 arm
				h0, _ := (&Walk{Target: func(i ssa.Instruction) bool { return i == sleep || i == fatal }, Edge: EdgeUnder(env(0))}).FromInstr(recv)
				hb, _ := (&Walk{Target: func(i ssa.Instruction) bool {
					if cc := CallOf(i); cc != nil {
						n := CalleeName(cc)
						return n == "time.Sleep" || strings.HasPrefix(n, "(*sync.WaitGroup).Wait")
					}
					_, isRecv := i.(*ssa.UnOp)
					return isRecv && i.(*ssa.UnOp).Op == token.ARROW
				}, Edge: EdgeUnder(env(0))}).FromInstr(recv)
				// … and nothing deferred by main waits either (deferred calls run when main returns)
				deferredWait := ""
				EachInstr(main, func(i ssa.Instruction) {
					d, isD := i.(*ssa.Defer)
					if !isD {
						return
					}
					fn := StaticFunc(&d.Call)
					if fn == nil || len(fn.Blocks) == 0 {
						return
					}
					for _, g := range WithClosures(fn) {
						EachInstr(g, func(j ssa.Instruction) {
							if u, isU := j.(*ssa.UnOp); isU && u.Op == token.ARROW {
								deferredWait = "receives from a channel at " + p.Pos(j.Pos())
							}
							if sel, isSel := j.(*ssa.Select); isSel && sel.Blocking {
								deferredWait = "blocks in a select at " + p.Pos(j.Pos())
							}
							if cc := CallOf(j); cc != nil {
								switch CalleeName(cc) {
								case "time.Sleep", "(*sync.WaitGroup).Wait":
									deferredWait = "calls " + CalleeName(cc) + " at " + p.Pos(j.Pos())
								}
							}
						})
					}
				})
				if deferredWait != "" {
					hb = recv
				}
				c.Check("C20.S", "no-grace-period:prompt-exit", p, recv.Pos(), h0 == nil && hb == nil, "without a grace period main returns after the signal without sleeping or blocking", "without a grace period main still sleeps/blocks after the signal (or a call deferred by main "+deferredWait+": the process stays alive until e.g. the pending-list poll in flight returns, up to a minute)")
				h1, _ := (&Walk{Target: IsReturn, Avoid: func(i ssa.Instruction) bool { return i == fatal }, Edge: EdgeUnder(env(5_000_000_000))}).FromInstr(recv)
				c.Check("C20.S", "graceful:always-terminates", p, recv.Pos(), h1 == nil, "with a grace period every path after the signal reaches the terminating call", "with a grace period a path after the signal returns without terminating the process")
			}
		}
	}

	// signal dispositions are changed in one place only, the shutdown channel: a signal.Notify
	// elsewhere (a metrics flusher, say) that runs before the health gate disables the default
	// action of SIGINT/SIGTERM while nobody waits for them yet — a stop request during the
	// wait for a healthy backend is swallowed and the agent no longer stops promptly
	{
		bad := ""
		n := 0
		for _, fn := range p.AllFuncs {
			if !p.IsModFunc(fn) {
				continue
			}
			if pk := fnPkg(fn); pk == nil || !(Rel(pk.Pkg.Path()) == "agent" || strings.HasPrefix(Rel(pk.Pkg.Path()), "agent/")) {
				continue
			}
			for _, call := range Calls(fn, "os/signal.Notify", "os/signal.NotifyContext", "os/signal.Ignore", "os/signal.Reset") {
				n++
				top := TopFunc(fn)
				if FuncName(top) != "agent/utils.ShutdownSignalChan" && !(IsNewHelper(top) && helperCalledFrom(top, p.Func("agent/utils.ShutdownSignalChan"))) {
					bad = CalleeName(CallOf(call)) + " in " + FuncName(fn) + " at " + p.Pos(call.Pos())
				}
			}
		}
		c.Check("C20.S", "signals:registered-only-by-the-shutdown-channel", p, 0, bad == "" && n >= 1, fmt.Sprintf("%d call(s) that change signal dispositions, all in ShutdownSignalChan", n), "signal dispositions are also changed by "+bad+": from that call on SIGINT/SIGTERM no longer terminate the process by default, so until main reaches its own wait (e.g. during the wait for a healthy backend) a stop request is swallowed")
	}
	// the end of polling is not a failure of the adapter: main treats an error of runAdapter as
	// fatal, so an error returned because the polling context was cancelled terminates the
	// process at the start of the grace period, with the requests in flight
	if ra := c.need(p, "C20.S", "agent.runAdapter"); ra != nil {
		if pc := c.UniqueCall("C20.S", p, ra, false, ModPath+"/agent.pollForNewRequests"); pc != nil {
			bad := ""
			for _, r := range Returns(ra) {
				rr := r
				if h, _ := (&Walk{Target: func(i ssa.Instruction) bool { return i == ssa.Instruction(rr) }, Local: true}).FromInstr(pc); h == nil {
					continue
				}
				if !IsNilConst(ReturnValue(r, 0)) {
					bad = p.Pos(r.Pos())
				}
			}
			c.Check("C20.S", "adapter:end-of-polling-is-not-an-error", p, pc.Pos(), bad == "", "runAdapter returns nil once polling has ended", "runAdapter returns a non-nil error after polling ended (return at "+bad+"): main ends the process on any error of the adapter, so cancelling the polling context — the first step of a graceful shutdown — kills the requests in flight instead of giving them the grace period")
		}
	}
	// the health-check configuration is what the flags say: nothing rewrites the interval
	{
		bad := ""
		n := 0
		for _, fn := range p.AllFuncsIn("agent") {
			EachInstrRaw(fn, func(i ssa.Instruction) {
				if st, ok := i.(*ssa.Store); ok {
					n++
					if PathOf(st.Addr) == "*global:healthCheckFreq" {
						bad = FuncName(fn) + " at " + p.Pos(st.Pos())
					}
				}
			})
		}
		c.Check("C20.S", "health:interval-flag-not-rewritten", p, 0, bad == "" && n > 0, "nothing stores into the health-check interval flag", "the health-check interval flag is overwritten in "+bad+": a value derived from another setting (a duration truncated to whole seconds, say) can turn into 0, which silently disables the health gate and the periodic checks")
	}

	// ---- C20.P / C20.W
	if f := c.need(p, "C20.P", "agent.pollForNewRequests"); f != nil {
		list := c.UniqueCall("C20.P", p, f, false, ModPath+"/agent/utils.ListPendingRequests")
		var sel *ssa.Select
		for _, op := range ChanOpsOf(f) {
			if op.Kind == "recv" && op.InSelect && op.HasDefault {
				if call, ok := Roots(op.Chan)[0].(*ssa.Call); ok && call.Call.IsInvoke() && call.Call.Method.FullName() == "(context.Context).Done" && PathOf(call.Call.Value) == P(f, 0) {
					sel = op.Select
				}
			}
		}
		// the same test written as `if pollingCtx.Err() != nil { … return }`
		var errTest ssa.Instruction
		var errBlk *ssa.BasicBlock
		if sel == nil {
			EachInstr(f, func(i ssa.Instruction) {
				call, isC := i.(*ssa.Call)
				if !isC || !call.Call.IsInvoke() || call.Call.Method.FullName() != "(context.Context).Err" || PathOf(call.Call.Value) != P(f, 0) {
					return
				}
				for _, r := range Refs(call) {
					bo, isB := r.(*ssa.BinOp)
					if !isB || !((bo.X == ssa.Value(call) && IsNilConst(bo.Y)) || (bo.Y == ssa.Value(call) && IsNilConst(bo.X))) {
						continue
					}
					for _, rr := range Refs(bo) {
						if ifi, isIf := rr.(*ssa.If); isIf {
							errTest = call
							if bo.Op == token.NEQ {
								errBlk = ifi.Block().Succs[0]
							} else if bo.Op == token.EQL {
								errBlk = ifi.Block().Succs[1]
							}
						}
					}
				}
			})
		}
		if list != nil {
			ok := sel != nil && Dominates(sel, list) && InLoop(sel.Block())
			if ok {
				// the Done arm returns
				blk := SelectArmBlock(sel, 0)
				ok = false
				if blk != nil {
					h, _ := (&Walk{Target: func(i ssa.Instruction) bool { return i == list }}).FromBlock(blk)
					ok = h == nil
				}
				// every path from the list call back to itself passes the select
				h2, _ := (&Walk{Target: func(i ssa.Instruction) bool { return i == list }, Avoid: func(i ssa.Instruction) bool { return i == ssa.Instruction(sel) }}).FromInstr(list)
				ok = ok && h2 == nil
			}
			if sel == nil && errTest != nil && errBlk != nil && Dominates(errTest, list) && InLoop(errTest.Block()) {
				h, _ := (&Walk{Target: func(i ssa.Instruction) bool { return i == list }}).FromBlock(errBlk)
				h2, _ := (&Walk{Target: func(i ssa.Instruction) bool { return i == list }, Avoid: func(i ssa.Instruction) bool { return i == errTest }}).FromInstr(list)
				ok = h == nil && h2 == nil
			}
			c.Check("C20.P", "poll:guarded-by-cancellation-test", p, list.Pos(), ok, "every list call is preceded, in the same iteration, by a non-blocking select on pollingCtx.Done() whose Done arm leaves the loop for good", "a pending-list poll can start without (re)checking pollingCtx.Done() first, or the Done arm does not stop the loop: new polls start after shutdown was requested")
		}
		// one list call = one proxy round trip (the cancellation test runs once per call)
		if lp := c.need(p, "C20.P", "agent/utils.ListPendingRequests"); lp != nil {
			n, looped := 0, ""
			seen := map[*ssa.Function]bool{}
			var visit func(fn *ssa.Function, inLoop bool, depth int)
			visit = func(fn *ssa.Function, inLoop bool, depth int) {
				if seen[fn] || depth > 4 {
					return
				}
				seen[fn] = true
				EachInstr(fn, func(i ssa.Instruction) {
					cc := CallOf(i)
					if cc == nil {
						return
					}
					il := inLoop || InLoop(i.Block())
					if IsCall(i, "(*net/http.Client).Do", "(*net/http.Client).Get", "(*net/http.Client).Post", "(*net/http.Client).Head", "(*net/http.Client).PostForm", "(net/http.RoundTripper).RoundTrip", "net/http.Get", "net/http.Post") {
						n++
						if il {
							looped = p.Pos(i.Pos())
						}
						return
					}
					if syncHelperCallee(i) != nil {
						return // its body is already part of this scan
					}
					if callee := cc.StaticCallee(); callee != nil && len(callee.Blocks) > 0 && strings.HasPrefix(FuncName(callee), "agent") {
						visit(callee, il, depth+1)
					}
				})
			}
			visit(lp, false, 0)
			c.Check("C20.P", "poll:one-round-trip-per-list-call", p, lp.Pos(), n == 1 && looped == "", "ListPendingRequests sends exactly one request to the proxy, outside any loop: between two round trips the poll loop always re-tests the polling context", fmt.Sprintf("ListPendingRequests can send more than one request per call (%d sending sites, in a loop at %q): retries inside the call start new pending-list polls without re-testing the polling context, i.e. after shutdown was requested", n, looped))
		}
		if sel != nil {
			c.OK("C20.P", "poll:select-on-polling-context", p, sel.Pos(), "the select watches the polling context parameter")
		} else if errTest != nil && errBlk != nil {
			c.OK("C20.P", "poll:select-on-polling-context", p, errTest.Pos(), "the loop tests pollingCtx.Err() (the non-blocking form of the same test)")
		} else {
			c.Bad("C20.P", "poll:select-on-polling-context", p, f.Pos(), "pollForNewRequests has no non-blocking select on its polling context's Done()")
		}
		// ---- C20.W
		bad := ""
		var confined func(v ssa.Value, depth int)
		confined = func(v ssa.Value, depth int) {
			if v == nil || depth > 4 {
				return
			}
			if prm, isP := v.(*ssa.Parameter); isP && prm == nil {
				return
			}
			for _, r := range Refs(v) {
				switch x := r.(type) {
				case ssa.CallInstruction:
					cc := x.Common()
					if cc.IsInvoke() && cc.Value == v {
						n := cc.Method.Name()
						// the poll loop itself watches Done(); anything it hands the context to may
						// only read it (Err/Value/Deadline) — waiting on Done() there would abort
						// work in flight when polling stops
						if n == "Err" || n == "Value" || n == "Deadline" || (n == "Done" && depth == 0) {
							continue
						}
						bad = "asked " + n + "() at " + p.Pos(x.Pos()) + " by code the poll loop handed it to"
						continue
					}
					// a context derived for its values only is the same context
					if CalleeName(cc) == "context.WithValue" && len(cc.Args) > 0 && cc.Args[0] == v {
						if cv, isV := x.(ssa.Value); isV {
							confined(cv, depth+1)
							continue
						}
					}
					// handed to a module function (called, started with go, deferred): harmless if
					// that function confines it too (e.g. accepts it for logging and ignores it otherwise)
					if callee := StaticFunc(cc); callee != nil && len(callee.Blocks) > 0 && p.IsModFunc(callee) {
						handled := false
						for k, a := range cc.Args {
							if a == v && k < len(callee.Params) {
								confined(callee.Params[k], depth+1)
								handled = true
							}
						}
						if handled {
							continue
						}
					}
					bad = "passed to / used by " + CalleeName(cc) + " at " + p.Pos(x.Pos())
				case *ssa.DebugRef:
				case *ssa.Store:
					// spilled into a local cell because a function literal captures it: follow the cell
					cell, isCell := x.Addr.(*ssa.Alloc)
					if !isCell || x.Val != v {
						bad = fmt.Sprintf("stored at %s", p.Pos(x.Pos()))
						continue
					}
					for _, u := range Refs(cell) {
						switch y := u.(type) {
						case *ssa.UnOp:
							confined(y, depth)
						case *ssa.MakeClosure:
							if fn, isFn := y.Fn.(*ssa.Function); isFn {
								for k, b := range y.Bindings {
									if b == ssa.Value(cell) && k < len(fn.FreeVars) {
										for _, fr := range Refs(fn.FreeVars[k]) {
											if ld, isLd := fr.(*ssa.UnOp); isLd {
												confined(ld, depth+1)
											} else if _, isDbg := fr.(*ssa.DebugRef); !isDbg {
												bad = fmt.Sprintf("captured and used by %T at %s", fr, p.Pos(fr.Pos()))
											}
										}
									}
								}
							}
						case *ssa.Store, *ssa.DebugRef:
						default:
							bad = fmt.Sprintf("its cell is used by %T at %s", u, p.Pos(u.Pos()))
						}
					}
				case *ssa.Return:
					// handed back by a module function (a context derived for its values): continue at the call sites
					fn := x.Parent()
					n := 0
					for _, g := range p.AllFuncs {
						EachInstrRaw(g, func(i ssa.Instruction) {
							if ci, isCall := i.(*ssa.Call); isCall && StaticFunc(&ci.Call) == fn {
								n++
								confined(ci, depth+1)
							}
						})
					}
					if n == 0 {
						bad = "returned at " + p.Pos(x.Pos()) + " to callers this rule cannot find"
					}
				case *ssa.MakeInterface:
					confined(x, depth)
				case *ssa.ChangeInterface:
					confined(x, depth)
				case *ssa.Phi:
					confined(x, depth+1)
				default:
					bad = fmt.Sprintf("used by %T at %s (stored, captured or handed on)", r, p.Pos(r.Pos()))
				}
			}
		}
		if prm := ParamAt(f, 0); prm != nil {
			confined(prm, 0)
		}
		c.Check("C20.W", "polling-context:confined", p, f.Pos(), bad == "", "the polling context is only asked Done()/Err() inside pollForNewRequests: nothing a worker uses depends on it", "the polling context is "+bad+": cancelling polling on shutdown also cancels what that value was given to (e.g. the HTTP client the workers use to fetch requests and upload responses), so requests already forwarded are not answered")
		if ra := p.Func("agent.runAdapter"); ra != nil {
			ruleParamOnlyPassedTo(c, p, "C20.W", "runAdapter:polling-context-only-for-the-poller", ra, 1, ag+".pollForNewRequests", 0, "runAdapter hands the polling context to pollForNewRequests and to nothing else", "the polling context leaks out of the poller in runAdapter: whatever receives it (a transport wrapper, the shared HTTP client, the handler chain) is cancelled together with polling, so uploads of requests already forwarded are aborted at shutdown")
		}
		// the adapter's context reaches the websocket shim and the banner only (their own lifetimes);
		// it is not made the context of forwarded requests: runAdapter cancels it when polling ends,
		// i.e. at the START of the graceful period, and requests already at the backend would be cut
		if hp := p.Func("agent.hostProxy"); hp != nil {
			if prm := ParamAt(hp, 0); prm != nil && NamedType(prm.Type()) == "context.Context" {
				why := ""
				uses := 0
				for _, r := range Refs(prm) {
					switch x := r.(type) {
					case *ssa.DebugRef:
					case *ssa.Call:
						switch CalleeName(x.Common()) {
						case ModPath + "/agent/websockets.Proxy", ModPath + "/agent/banner.Proxy":
							uses++
						default:
							why = "passed to " + CalleeName(x.Common()) + " at " + p.Pos(x.Pos())
						}
					default:
						why = fmt.Sprintf("used by %T at %s (captured by a closure, stored or handed on)", r, p.Pos(r.Pos()))
					}
				}
				c.Check("C20.W", "hostProxy:adapter-context-not-tied-to-requests", p, hp.Pos(), why == "", fmt.Sprintf("hostProxy hands its context to the websocket shim / banner constructors only (%d use(s))", uses), "hostProxy's context (cancelled by runAdapter as soon as polling ends) is "+why+": forwarded requests bound to it are cancelled at the start of the graceful period instead of being answered in full")
			} else {
				c.Unk("C20.W", "hostProxy:adapter-context-not-tied-to-requests", p, hp.Pos(), "hostProxy no longer takes a context as its first parameter")
			}
		}
		// the shared client is not modified
		mod := ""
		EachInstr(f, func(i ssa.Instruction) {
			if st, ok := i.(*ssa.Store); ok {
				if base, fld, ok := FieldAddrOf(st.Addr); ok && NamedType(base.Type()) == "net/http.Client" {
					for _, r := range Roots(base) {
						if r == ssa.Value(ParamAt(f, 1)) {
							mod = "client." + fld + " at " + p.Pos(st.Pos())
						}
					}
				}
			}
		})
		c.Check("C20.W", "shared-client:not-modified-by-poller", p, f.Pos(), mod == "", "the poller does not modify the *http.Client it shares with the workers", "the poller overwrites "+mod+" of the *http.Client it shares with every worker")
		if g := c.UniqueCall("C20.W", p, f, false, ag+".processOneRequest"); g != nil {
			okA := true
			for _, a := range PArgs(CallOf(g)) {
				if a == nil {
					continue
				}
				if a == nil || NamedType(a.Type()) != "context.Context" {
					continue
				}
				// a context handed to the worker is the polling context itself (whose uses in the
				// worker are judged by polling-context:confined: read-only), one derived from it
				// for its values, or a background context
				for _, r := range Roots(a) {
					for k := 0; k < 4; k++ {
						if wv := CallResult(r, 0, "context.WithValue"); wv != nil {
							rs := Roots(wv.Call.Args[0])
							if len(rs) == 1 {
								r = rs[0]
								continue
							}
						}
						break
					}
					if r == ssa.Value(ParamAt(f, 0)) || CallResult(r, 0, "context.Background", "context.TODO") != nil {
						continue
					}
					okA = false
				}
			}
			c.Check("C20.W", "worker:no-context-argument", p, g.Pos(), okA, "workers are started without a cancellable context of their own (none, or the polling context that they may only read)", "a context other than the (read-only) polling context or a background context is handed to the worker")
		}
	}
}

var resetBad bool

// notifiedSignals: the signal numbers a signal.Notify call registers — listed at the call, or
// held in a package-level table that only the initialiser writes.
func notifiedSignals(p *Prog, sn ssa.Instruction) map[int64]bool {
	sigs := map[int64]bool{}
	SliceBack(PArgs(CallOf(sn))[1], func(v ssa.Value) bool {
		if mi, ok := v.(*ssa.MakeInterface); ok {
			if n, isC := ConstInt(mi.X); isC {
				sigs[n] = true
			}
		}
		return true
	})
	// … or a package-level table of signals that only the initialiser writes
	if len(sigs) == 0 {
		if ld, isLd := PArgs(CallOf(sn))[1].(*ssa.UnOp); isLd && ld.Op == token.MUL {
			if g, isG := ld.X.(*ssa.Global); isG && globalWrittenOnlyByInit(p, g) {
				elemWritten := false
				for _, fn := range p.AllFuncs {
					EachInstrRaw(fn, func(i ssa.Instruction) {
						if l2, ok := i.(*ssa.UnOp); ok && l2.Op == token.MUL && l2.X == ssa.Value(g) && !(fn.Name() == "init" && fn.Pkg == g.Pkg) {
							for _, r := range Refs(l2) {
								if ia, isIA := r.(*ssa.IndexAddr); isIA {
									for _, rr := range Refs(ia) {
										if st, isSt := rr.(*ssa.Store); isSt && st.Addr == ssa.Value(ia) {
											elemWritten = true
										}
									}
								}
							}
						}
					})
				}
				if !elemWritten {
					for _, fn := range p.AllFuncs {
						if fn.Name() != "init" || fn.Pkg != g.Pkg {
							continue
						}
						EachInstrRaw(fn, func(i ssa.Instruction) {
							st, isSt := i.(*ssa.Store)
							if !isSt || st.Addr != ssa.Value(g) {
								return
							}
							SliceBack(st.Val, func(v ssa.Value) bool {
								if mi, ok := v.(*ssa.MakeInterface); ok {
									if n, isC := ConstInt(mi.X); isC {
										sigs[n] = true
									}
								}
								return true
							})
						})
					}
				}
			}
		}
	}
	return sigs
}

package ipc

import (
	"fmt"
	"go/constant"
	"go/token"
	"go/types"
	"math"
	"math/big"
	"sort"

	"golang.org/x/tools/go/ssa"
)

func init() {
	register(&PropSpec{
		ID:    "C08",
		Level: "proof",
		Progs: []string{"mod"},
		Explanation: "The delay function touches its argument through one comparison and one shift, so the 64-bit input range splits into finitely many classes (one per value up to the guard threshold + 1, and one for everything above). " +
			"An interval interpreter over the SSA of ExponentialBackoffDuration (addJitter inlined, rand.Float64 ∈ [0,1], float bounds rounded outward, integer arithmetic exact with overflow detection) evaluates every class and discharges per class: shift/multiply cannot overflow, result > 0, result ≤ cap·(1+j), target doubles from the base until the cap, result within ±j of the target with j ≤ 0.1. " +
			"Structurally (C08.L): in the polling loop every path from a failed list call back to the loop head sleeps for ExponentialBackoffDuration(counter), the counter is incremented only on failure and reset to 0 on success. " +
			"Not decided: that time.Sleep sleeps that long." +
			" (E, second part) no error returned by ListPendingRequests has a nil constant among its possible values (a pass-through wrapper cannot swallow it).",
		Assumptions: []string{
			"IEEE-754 monotonicity of float64 +,-,* and of float→int truncation; math.Log2 evaluated with the Go runtime of the checker",
			"uint is 64 bits (a 32-bit uint is a subset of the analysed range)",
			"math/rand.Float64 returns a value in [0,1)",
		},
		Trusted: []string{
			"go/types constant evaluation; go/ssa construction (x/tools v0.29.0)",
			"the interval transfer functions of /verif/checker/ipc/c08.go (≈250 lines; unit-checked by the built-in self-test on every run)",
			"IEEE-754 float64 semantics, math.Nextafter for outward rounding",
		},
		Run: runC08,
	})
}

// iv is an interval over integers (exact) or floats (outward rounded), or a tri-state boolean.
type iv struct {
	kind     byte // 'i', 'f', 'b'; 't': a table (slice built once by the package initialiser)
	tbl      []iv
	ilo, ihi *big.Int
	flo, fhi float64
	bt, bf   bool // boolean may be true / may be false
}

func ivInt(lo, hi *big.Int) iv { return iv{kind: 'i', ilo: lo, ihi: hi} }
func ivI64(lo, hi int64) iv    { return ivInt(big.NewInt(lo), big.NewInt(hi)) }
func ivF(lo, hi float64) iv    { return iv{kind: 'f', flo: lo, fhi: hi} }
func (a iv) String() string {
	switch a.kind {
	case 'i':
		if a.ilo.Cmp(a.ihi) == 0 {
			return a.ilo.String()
		}
		return "[" + a.ilo.String() + "," + a.ihi.String() + "]"
	case 'f':
		return fmt.Sprintf("[%g,%g]", a.flo, a.fhi)
	case 't':
		return fmt.Sprintf("table%v", a.tbl)
	}
	return fmt.Sprintf("bool(t=%v,f=%v)", a.bt, a.bf)
}
func (a iv) join(b iv) iv {
	if a.kind == 0 {
		return b
	}
	if b.kind == 0 {
		return a
	}
	if a.kind == 'o' || b.kind == 'o' || a.kind != b.kind {
		return iv{kind: 'o'}
	}
	switch a.kind {
	case 'i':
		lo, hi := a.ilo, a.ihi
		if b.ilo.Cmp(lo) < 0 {
			lo = b.ilo
		}
		if b.ihi.Cmp(hi) > 0 {
			hi = b.ihi
		}
		return ivInt(lo, hi)
	case 'f':
		return ivF(math.Min(a.flo, b.flo), math.Max(a.fhi, b.fhi))
	}
	return iv{kind: 'b', bt: a.bt || b.bt, bf: a.bf || b.bf}
}

func down(x float64) float64 { return math.Nextafter(x, math.Inf(-1)) }
func up(x float64) float64   { return math.Nextafter(x, math.Inf(1)) }

type ivalErr struct{ msg string }

// interp evaluates loop-free functions over intervals.
type interp struct {
	p       *Prog
	issues  []string // overflow / unsafe shift reports
	notes   []string
	globals map[string]iv
	depth   int
	// values of the last evaluated function / of the outermost one
	lastVals    map[ssa.Value]iv
	lastValsTop map[ssa.Value]iv
	allVals     map[ssa.Value]iv
	liveTop     map[*ssa.BasicBlock]bool // blocks of the outermost evaluated function that the last evaluation could reach
}

func (it *interp) constIVOf(v ssa.Value) (iv, bool) {
	if c, ok := v.(*ssa.Const); ok {
		return it.constIV(c)
	}
	return iv{}, false
}

func typeBits(t types.Type) (bits int, signed bool, ok bool) {
	b, isB := t.Underlying().(*types.Basic)
	if !isB {
		return 0, false, false
	}
	switch b.Kind() {
	case types.Int, types.Int64:
		return 64, true, true
	case types.Uint, types.Uint64, types.Uintptr:
		return 64, false, true
	case types.Int32:
		return 32, true, true
	case types.Uint32:
		return 32, false, true
	case types.Int16:
		return 16, true, true
	case types.Uint16:
		return 16, false, true
	case types.Int8:
		return 8, true, true
	case types.Uint8:
		return 8, false, true
	}
	return 0, false, false
}

// numericOrBool: values of this type are computed with (anything else is only carried).
func numericOrBool(t types.Type) bool {
	b, ok := t.Underlying().(*types.Basic)
	return ok && b.Info()&(types.IsNumeric|types.IsBoolean) != 0
}

func typeRange(t types.Type) (lo, hi *big.Int, ok bool) {
	bits, signed, ok := typeBits(t)
	if !ok {
		return nil, nil, false
	}
	one := big.NewInt(1)
	if signed {
		hi = new(big.Int).Sub(new(big.Int).Lsh(one, uint(bits-1)), one)
		lo = new(big.Int).Neg(new(big.Int).Lsh(one, uint(bits-1)))
	} else {
		lo = big.NewInt(0)
		hi = new(big.Int).Sub(new(big.Int).Lsh(one, uint(bits)), one)
	}
	return lo, hi, true
}

func (it *interp) fit(v iv, t types.Type, what string, pos token.Pos) iv {
	if v.kind != 'i' {
		return v
	}
	lo, hi, ok := typeRange(t)
	if !ok {
		return v
	}
	if v.ilo.Cmp(lo) < 0 || v.ihi.Cmp(hi) > 0 {
		it.issues = append(it.issues, fmt.Sprintf("%s at %s can overflow %s: value range %s", what, it.p.Pos(pos), t.String(), v))
		return ivInt(lo, hi)
	}
	return v
}

func (it *interp) constIV(c *ssa.Const) (iv, bool) {
	if c.Value == nil {
		return iv{}, false
	}
	switch c.Value.Kind() {
	case constant.Int:
		if b, ok := c.Type().Underlying().(*types.Basic); ok && b.Info()&types.IsFloat != 0 {
			f, _ := constant.Float64Val(c.Value)
			return ivF(f, f), true
		}
		n, ok := new(big.Int).SetString(c.Value.ExactString(), 10)
		if !ok {
			return iv{}, false
		}
		return ivInt(n, n), true
	case constant.Float:
		f, exact := constant.Float64Val(c.Value)
		if exact {
			return ivF(f, f), true
		}
		return ivF(down(f), up(f)), true
	case constant.Bool:
		b := constant.BoolVal(c.Value)
		return iv{kind: 'b', bt: b, bf: !b}, true
	}
	return iv{}, false
}

// evalFunc evaluates fn on the argument intervals and returns the join of its results.
func (it *interp) evalFunc(fn *ssa.Function, args []iv) (iv, error) {
	if it.depth > 4 {
		return iv{}, fmt.Errorf("inlining depth exceeded at %s", FuncName(fn))
	}
	it.depth++
	defer func() { it.depth-- }()
	if len(fn.Blocks) == 0 {
		return iv{}, fmt.Errorf("%s has no body", FuncName(fn))
	}
	// reverse postorder, reject cycles
	var order []*ssa.BasicBlock
	state := map[*ssa.BasicBlock]int{}
	cyc := false
	var dfs func(b *ssa.BasicBlock)
	dfs = func(b *ssa.BasicBlock) {
		state[b] = 1
		for _, s := range b.Succs {
			if state[s] == 1 {
				cyc = true
			} else if state[s] == 0 {
				dfs(s)
			}
		}
		state[b] = 2
		order = append(order, b)
	}
	dfs(fn.Blocks[0])
	if cyc {
		return iv{}, fmt.Errorf("%s contains a loop: the interval interpreter only handles loop-free code", FuncName(fn))
	}
	for i, j := 0, len(order)-1; i < j; i, j = i+1, j-1 {
		order[i], order[j] = order[j], order[i]
	}
	vals := map[ssa.Value]iv{}
	for i, pr := range fn.Params {
		if i < len(args) {
			vals[pr] = args[i]
		}
	}
	type edge struct{ from, to *ssa.BasicBlock }
	feasible := map[edge]bool{}
	live := map[*ssa.BasicBlock]bool{fn.Blocks[0]: true}
	var ret iv
	// branch refinement: what a comparison that guards a block says about its operands
	refine := map[*ssa.BasicBlock]map[ssa.Value]iv{}
	var cur *ssa.BasicBlock
	get := func(v ssa.Value) (iv, error) {
		if c, ok := v.(*ssa.Const); ok {
			x, ok := it.constIV(c)
			if !ok {
				if !numericOrBool(c.Type()) {
					return iv{kind: 'o'}, nil // a string, nil: carried, never computed with
				}
				return iv{}, fmt.Errorf("unsupported constant %s", c)
			}
			return x, nil
		}
		if _, ok := vals[v]; !ok {
			if !numericOrBool(v.Type()) {
				return iv{kind: 'o'}, nil
			}
			if b, isB := v.Type().Underlying().(*types.Basic); isB && b.Info()&types.IsBoolean != 0 {
				if _, isX := v.(*ssa.Extract); isX {
					return iv{kind: 'b', bt: true, bf: true}, nil // the ok of a comma-ok form
				}
			}
		}
		if x, ok := vals[v]; ok {
			if x.kind == 'i' {
				for d := cur; d != nil; d = d.Idom() {
					if r, has := refine[d][v]; has {
						lo, hi := x.ilo, x.ihi
						if r.ilo.Cmp(lo) > 0 {
							lo = r.ilo
						}
						if r.ihi.Cmp(hi) < 0 {
							hi = r.ihi
						}
						if lo.Cmp(hi) <= 0 {
							x = ivInt(lo, hi)
						}
					}
				}
			}
			return x, nil
		}
		return iv{}, fmt.Errorf("value %s (%T) in %s is not evaluable", v.Name(), v, FuncName(fn))
	}
	narrow := func(blk *ssa.BasicBlock, v ssa.Value, lo, hi *big.Int) {
		if _, isC := v.(*ssa.Const); isC || len(blk.Preds) != 1 {
			return
		}
		x, ok := vals[v]
		if !ok || x.kind != 'i' {
			return
		}
		if lo == nil {
			lo = x.ilo
		}
		if hi == nil {
			hi = x.ihi
		}
		if refine[blk] == nil {
			refine[blk] = map[ssa.Value]iv{}
		}
		refine[blk][v] = ivInt(lo, hi)
	}
	for _, b := range order {
		if !live[b] {
			continue
		}
		for _, in := range b.Instrs {
			cur = b
			switch x := in.(type) {
			case *ssa.Phi:
				var acc iv
				for k, pred := range b.Preds {
					if !feasible[edge{pred, b}] {
						continue
					}
					cur = pred
					e, err := get(x.Edges[k])
					if err != nil {
						return iv{}, err
					}
					acc = acc.join(e)
				}
				vals[x] = acc
			case *ssa.UnOp:
				switch x.Op {
				case token.MUL:
					g, ok := x.X.(*ssa.Global)
					if ia, isIA := x.X.(*ssa.IndexAddr); isIA && !ok {
						if ev, has := vals[ia]; has {
							vals[x] = ev // element of a table, selected below
							continue
						}
					}
					if !ok {
						// a load this interpreter cannot follow (a flag's target, a field): any
						// value of its type — sound, and an error only if the type is not integral
						if lo, hi, isInt := typeRange(x.Type()); isInt {
							vals[x] = ivInt(lo, hi)
						}
						continue
					}
					gv, ok := it.globals[GlobalName(g)]
					if !ok {
						if _, isFn := x.Type().Underlying().(*types.Signature); isFn {
							continue // a function variable: judged where it is called
						}
						if _, isPtr := x.Type().Underlying().(*types.Pointer); isPtr {
							continue // e.g. a flag variable: its target is loaded next
						}
						return iv{}, fmt.Errorf("package variable %s has no statically known value", GlobalName(g))
					}
					vals[x] = gv
				case token.SUB:
					a, err := get(x.X)
					if err != nil {
						return iv{}, err
					}
					if a.kind == 'f' {
						vals[x] = ivF(-a.fhi, -a.flo)
					} else {
						vals[x] = it.fit(ivInt(new(big.Int).Neg(a.ihi), new(big.Int).Neg(a.ilo)), x.Type(), "negation", x.Pos())
					}
				case token.NOT:
					a, err := get(x.X)
					if err != nil {
						return iv{}, err
					}
					vals[x] = iv{kind: 'b', bt: a.bf, bf: a.bt}
				default:
					return iv{}, fmt.Errorf("unsupported unary %s", x.Op)
				}
			case *ssa.ChangeType:
				a, err := get(x.X)
				if err != nil {
					return iv{}, err
				}
				vals[x] = a
			case *ssa.Extract:
				// one result of a call outside the module (time.ParseDuration): any value of its type
				if call, isCall := x.Tuple.(*ssa.Call); isCall {
					if f := StaticFunc(call.Common()); f == nil || !it.p.IsModFunc(f) {
						if lo, hi, isInt := typeRange(x.Type()); isInt {
							vals[x] = ivInt(lo, hi)
						}
					}
				}
			case *ssa.Convert:
				a, err := get(x.X)
				if err != nil {
					return iv{}, err
				}
				bt, _ := x.Type().Underlying().(*types.Basic)
				if bt == nil {
					return iv{}, fmt.Errorf("unsupported conversion to %s", x.Type())
				}
				switch {
				case bt.Info()&types.IsFloat != 0:
					if a.kind == 'f' {
						vals[x] = a
					} else {
						lo, _ := new(big.Float).SetInt(a.ilo).Float64()
						hi, _ := new(big.Float).SetInt(a.ihi).Float64()
						vals[x] = ivF(down(lo), up(hi))
						if a.ilo.IsInt64() && a.ihi.IsInt64() && abs64(a.ilo.Int64()) < 1<<53 && abs64(a.ihi.Int64()) < 1<<53 {
							vals[x] = ivF(lo, hi) // exact
						}
					}
				case bt.Info()&types.IsInteger != 0:
					if a.kind == 'f' {
						if math.IsNaN(a.flo) || math.IsInf(a.flo, 0) || math.IsInf(a.fhi, 0) {
							return iv{}, fmt.Errorf("conversion of non-finite float")
						}
						lo, _ := big.NewFloat(math.Trunc(a.flo)).Int(nil)
						hi, _ := big.NewFloat(math.Trunc(a.fhi)).Int(nil)
						vals[x] = it.fit(ivInt(lo, hi), x.Type(), "float→integer conversion", x.Pos())
					} else {
						vals[x] = it.fit(a, x.Type(), "integer conversion", x.Pos())
					}
				default:
					return iv{}, fmt.Errorf("unsupported conversion to %s", x.Type())
				}
			case *ssa.BinOp:
				a, err := get(x.X)
				if err != nil {
					return iv{}, err
				}
				bb, err := get(x.Y)
				if err != nil {
					return iv{}, err
				}
				r, err := it.binop(x, a, bb)
				if err != nil {
					return iv{}, err
				}
				vals[x] = r
			case *ssa.IndexAddr:
				// an element of a table built by the initialiser: the join of the entries the index can select
				if t, has := vals[x.X]; has && t.kind == 't' {
					ix, err := get(x.Index)
					if err != nil {
						return iv{}, err
					}
					if ix.kind != 'i' || ix.ilo.Sign() < 0 || ix.ihi.Cmp(big.NewInt(int64(len(t.tbl)))) >= 0 {
						return iv{}, fmt.Errorf("index %s of a %d-entry table may be out of range at %s", ix, len(t.tbl), it.p.Pos(x.Pos()))
					}
					var acc iv
					for k := ix.ilo.Int64(); k <= ix.ihi.Int64(); k++ {
						acc = acc.join(t.tbl[k])
					}
					vals[x] = acc
				}
			case *ssa.Call:
				callee := CalleeName(x.Common())
				if b, isB := x.Call.Value.(*ssa.Builtin); isB && b.Name() == "len" {
					if t, has := vals[x.Call.Args[0]]; has && t.kind == 't' {
						vals[x] = ivI64(int64(len(t.tbl)), int64(len(t.tbl)))
						continue
					}
				}
				switch callee {
				case "math/rand.Float64", "math/rand/v2.Float64":
					vals[x] = ivF(0, 1)
				case "(time.Duration).Nanoseconds":
					a, err := get(PArgs(&x.Call)[0])
					if err != nil {
						return iv{}, err
					}
					vals[x] = a
				default:
					f := StaticFunc(x.Common())
					if f == nil || !it.p.IsModFunc(f) {
						// a call outside the module (an atomic load, strconv): any value of its
						// integral result type; otherwise no value — an error only if the result
						// is needed (log calls are not)
						if lo, hi, isInt := typeRange(x.Type()); isInt {
							vals[x] = ivInt(lo, hi)
						}
						continue
					}
					var as []iv
					for _, av := range PArgs(&x.Call) {
						if av == nil {
							continue
						}
						a, err := get(av)
						if err != nil {
							return iv{}, err
						}
						as = append(as, a)
					}
					it.notes = append(it.notes, fmt.Sprintf("inlined %s(%v)", FuncName(f), as))
					r, err := it.evalFunc(f, as)
					if err != nil {
						return iv{}, err
					}
					vals[x] = r
				}
			case *ssa.If:
				cnd, err := get(x.Cond)
				if err != nil {
					return iv{}, err
				}
				if cnd.bt {
					feasible[edge{b, b.Succs[0]}] = true
					live[b.Succs[0]] = true
				}
				if cnd.bf {
					feasible[edge{b, b.Succs[1]}] = true
					live[b.Succs[1]] = true
				}
				if bo, isBO := x.Cond.(*ssa.BinOp); isBO {
					av, e1 := get(bo.X)
					bv, e2 := get(bo.Y)
					if e1 == nil && e2 == nil && av.kind == 'i' && bv.kind == 'i' {
						one := big.NewInt(1)
						for side, blk := range b.Succs {
							op := bo.Op
							if side == 1 {
								switch op {
								case token.LSS:
									op = token.GEQ
								case token.LEQ:
									op = token.GTR
								case token.GTR:
									op = token.LEQ
								case token.GEQ:
									op = token.LSS
								case token.EQL:
									op = token.NEQ
								case token.NEQ:
									op = token.EQL
								}
							}
							switch op {
							case token.LSS:
								narrow(blk, bo.X, nil, new(big.Int).Sub(bv.ihi, one))
								narrow(blk, bo.Y, new(big.Int).Add(av.ilo, one), nil)
							case token.LEQ:
								narrow(blk, bo.X, nil, bv.ihi)
								narrow(blk, bo.Y, av.ilo, nil)
							case token.GTR:
								narrow(blk, bo.X, new(big.Int).Add(bv.ilo, one), nil)
								narrow(blk, bo.Y, nil, new(big.Int).Sub(av.ihi, one))
							case token.GEQ:
								narrow(blk, bo.X, bv.ilo, nil)
								narrow(blk, bo.Y, nil, av.ihi)
							case token.EQL:
								narrow(blk, bo.X, bv.ilo, bv.ihi)
								narrow(blk, bo.Y, av.ilo, av.ihi)
							}
						}
					}
				}
			case *ssa.Jump:
				feasible[edge{b, b.Succs[0]}] = true
				live[b.Succs[0]] = true
			case *ssa.Return:
				if len(x.Results) != 1 {
					return iv{}, fmt.Errorf("unsupported result arity")
				}
				r, err := get(x.Results[0])
				if err != nil {
					return iv{}, err
				}
				ret = ret.join(r)
			case *ssa.DebugRef:
			default:
				// no value is computed: using one of its results is reported by get
			}
		}
	}
	if ret.kind == 0 {
		return iv{}, fmt.Errorf("%s has no feasible return", FuncName(fn))
	}
	it.lastVals = vals
	if it.depth == 1 {
		it.liveTop = live
		// values of the top frame and of every function inlined into it
		if it.allVals == nil {
			it.allVals = map[ssa.Value]iv{}
		}
		for k, v := range vals {
			it.allVals[k] = v
		}
		it.lastValsTop = it.allVals
	} else {
		if it.allVals == nil {
			it.allVals = map[ssa.Value]iv{}
		}
		for k, v := range vals {
			it.allVals[k] = v
		}
	}
	return ret, nil
}

// evalValue: the interval of a value of a function that may contain loops — constants,
// calls of loop-free module functions on evaluable arguments; anything else of integer
// type ranges over its whole type (sound).
func (it *interp) evalValue(v ssa.Value, depth int) (iv, error) {
	if c, ok := v.(*ssa.Const); ok {
		x, ok := it.constIV(c)
		if !ok {
			return iv{}, fmt.Errorf("unsupported constant %s", c)
		}
		return x, nil
	}
	if depth < 4 {
		switch x := v.(type) {
		case *ssa.Call:
			if f := StaticFunc(x.Common()); f != nil && it.p.IsModFunc(f) {
				var as []iv
				for _, av := range PArgs(&x.Call) {
					if av == nil {
						continue
					}
					a, err := it.evalValue(av, depth+1)
					if err != nil {
						if numericOrBool(av.Type()) {
							return iv{}, err
						}
						a = iv{kind: 'o'}
					}
					as = append(as, a)
				}
				return it.evalFunc(f, as)
			}
		case *ssa.Convert:
			if a, err := it.evalValue(x.X, depth+1); err == nil && a.kind == 'i' {
				if lo, hi, ok := typeRange(x.Type()); ok && a.ilo.Cmp(lo) >= 0 && a.ihi.Cmp(hi) <= 0 {
					return a, nil
				}
			}
		case *ssa.Phi:
			var acc iv
			for k, e := range x.Edges {
				a, err := it.evalValue(e, depth+1)
				if err != nil {
					return iv{}, err
				}
				// the edge leaves a comparison of this very value with a constant
				// (an inline clamp: if n < min { n = min })
				if a.kind == 'i' && k < len(x.Block().Preds) {
					a = it.refineEdge(a, e, x.Block().Preds[k], x.Block(), depth)
				}
				acc = acc.join(a)
			}
			return acc, nil
		case *ssa.UnOp:
			if g, ok := x.X.(*ssa.Global); ok && x.Op == token.MUL {
				if gv, ok := it.globals[GlobalName(g)]; ok {
					return gv, nil
				}
				// a package-level number of the module: the join of everything ever stored to it
				// (its initialiser, a validated setter called at start-up), each value as the
				// comparisons above its store leave it
				if gv, ok := it.evalGlobalStores(g, depth); ok {
					return gv, nil
				}
			}
		case *ssa.Parameter:
			// a parameter of a transparent new helper: the join of the arguments at its call sites
			if as := helperParamArgs(x); len(as) > 0 {
				var acc iv
				for _, a := range as {
					av, err := it.evalValue(a, depth+1)
					if err != nil {
						return iv{}, err
					}
					acc = acc.join(av)
				}
				return acc, nil
			}
		case *ssa.BinOp:
			// small arithmetic on bounded operands (len(table)-1)
			if x.Op == token.ADD || x.Op == token.SUB {
				a, e1 := it.evalValue(x.X, depth+1)
				b, e2 := it.evalValue(x.Y, depth+1)
				small := func(i iv) bool {
					return i.kind == 'i' && i.ilo.IsInt64() && i.ihi.IsInt64() && abs64(i.ilo.Int64()) < 1<<40 && abs64(i.ihi.Int64()) < 1<<40
				}
				if e1 == nil && e2 == nil && small(a) && small(b) {
					if x.Op == token.ADD {
						return ivInt(new(big.Int).Add(a.ilo, b.ilo), new(big.Int).Add(a.ihi, b.ihi)), nil
					}
					return ivInt(new(big.Int).Sub(a.ilo, b.ihi), new(big.Int).Sub(a.ihi, b.ilo)), nil
				}
			}
		}
		if call, isCall := v.(*ssa.Call); isCall {
			if b, isB := call.Call.Value.(*ssa.Builtin); isB && b.Name() == "len" && len(call.Call.Args) == 1 {
				// the length of a package-level table written once, by a literal of known size
				if ld, isLd := call.Call.Args[0].(*ssa.UnOp); isLd && ld.Op == token.MUL {
					if g, isG := ld.X.(*ssa.Global); isG {
						if n, ok := literalLenOfGlobal(it.p, g); ok {
							return ivI64(n, n), nil
						}
					}
				}
				return ivI64(0, 1<<31), nil
			}
		}
	}
	if lo, hi, ok := typeRange(v.Type()); ok {
		return ivInt(lo, hi), nil
	}
	return iv{}, fmt.Errorf("value %s of type %s is not evaluable", v.Name(), v.Type())
}

// evalInit: the value of a package-level initialiser built from constants, math.Log2 and
// numeric conversions (evaluated with outward rounding).
func (it *interp) evalInit(v ssa.Value, depth int) (iv, bool) {
	if depth > 6 {
		return iv{}, false
	}
	switch x := v.(type) {
	case *ssa.Const:
		return it.constIV(x)
	case *ssa.Call:
		if CalleeName(x.Common()) == "math.Log2" {
			if f, ok := it.evalInit(PArgs(&x.Call)[0], depth+1); ok && f.kind == 'f' && f.flo > 0 {
				return ivF(down(math.Log2(f.flo)), up(math.Log2(f.fhi))), true
			}
		}
	case *ssa.ChangeType:
		return it.evalInit(x.X, depth+1)
	case *ssa.Convert:
		a, ok := it.evalInit(x.X, depth+1)
		bt, _ := x.Type().Underlying().(*types.Basic)
		if !ok || bt == nil {
			return iv{}, false
		}
		switch {
		case bt.Info()&types.IsFloat != 0:
			if a.kind == 'f' {
				return a, true
			}
			if a.kind == 'i' && a.ilo.IsInt64() && a.ihi.IsInt64() && abs64(a.ilo.Int64()) < 1<<53 && abs64(a.ihi.Int64()) < 1<<53 {
				return ivF(float64(a.ilo.Int64()), float64(a.ihi.Int64())), true
			}
		case bt.Info()&types.IsInteger != 0:
			if a.kind == 'i' {
				if lo, hi, ok := typeRange(x.Type()); ok && a.ilo.Cmp(lo) >= 0 && a.ihi.Cmp(hi) <= 0 {
					return a, true
				}
			}
			if a.kind == 'f' && !math.IsNaN(a.flo) && !math.IsInf(a.flo, 0) && !math.IsInf(a.fhi, 0) {
				lo, _ := big.NewFloat(math.Trunc(a.flo)).Int(nil)
				hi, _ := big.NewFloat(math.Trunc(a.fhi)).Int(nil)
				if tlo, thi, ok := typeRange(x.Type()); ok && lo.Cmp(tlo) >= 0 && hi.Cmp(thi) <= 0 {
					return ivInt(lo, hi), true
				}
			}
		}
	case *ssa.BinOp:
		a, ok1 := it.evalInit(x.X, depth+1)
		b, ok2 := it.evalInit(x.Y, depth+1)
		if ok1 && ok2 {
			if r, err := it.binop(x, a, b); err == nil {
				return r, true
			}
		}
	}
	return iv{}, false
}

func abs64(x int64) int64 {
	if x < 0 {
		return -x
	}
	return x
}

func (it *interp) binop(x *ssa.BinOp, a, b iv) (iv, error) {
	if a.kind == 'o' || b.kind == 'o' {
		switch x.Op {
		case token.EQL, token.NEQ, token.LSS, token.LEQ, token.GTR, token.GEQ:
			return iv{kind: 'b', bt: true, bf: true}, nil
		}
		return iv{kind: 'o'}, nil
	}
	switch x.Op {
	case token.EQL, token.NEQ, token.LSS, token.LEQ, token.GTR, token.GEQ:
		// compare intervals
		var alo, ahi, blo, bhi *big.Float
		if a.kind == 'i' {
			alo, ahi = new(big.Float).SetInt(a.ilo), new(big.Float).SetInt(a.ihi)
		} else {
			alo, ahi = big.NewFloat(a.flo), big.NewFloat(a.fhi)
		}
		if b.kind == 'i' {
			blo, bhi = new(big.Float).SetInt(b.ilo), new(big.Float).SetInt(b.ihi)
		} else {
			blo, bhi = big.NewFloat(b.flo), big.NewFloat(b.fhi)
		}
		var mayT, mayF bool
		switch x.Op {
		case token.LSS:
			mayT, mayF = alo.Cmp(bhi) < 0, ahi.Cmp(blo) >= 0
		case token.LEQ:
			mayT, mayF = alo.Cmp(bhi) <= 0, ahi.Cmp(blo) > 0
		case token.GTR:
			mayT, mayF = ahi.Cmp(blo) > 0, alo.Cmp(bhi) <= 0
		case token.GEQ:
			mayT, mayF = ahi.Cmp(blo) >= 0, alo.Cmp(bhi) < 0
		case token.EQL:
			mayT = !(ahi.Cmp(blo) < 0 || bhi.Cmp(alo) < 0)
			mayF = !(alo.Cmp(ahi) == 0 && blo.Cmp(bhi) == 0 && alo.Cmp(blo) == 0)
		case token.NEQ:
			mayF = !(ahi.Cmp(blo) < 0 || bhi.Cmp(alo) < 0)
			mayT = !(alo.Cmp(ahi) == 0 && blo.Cmp(bhi) == 0 && alo.Cmp(blo) == 0)
		}
		return iv{kind: 'b', bt: mayT, bf: mayF}, nil
	}
	if a.kind == 'f' || b.kind == 'f' {
		if a.kind != 'f' || b.kind != 'f' {
			return iv{}, fmt.Errorf("mixed float/int arithmetic")
		}
		switch x.Op {
		case token.ADD:
			return ivF(down(a.flo+b.flo), up(a.fhi+b.fhi)), nil
		case token.SUB:
			return ivF(down(a.flo-b.fhi), up(a.fhi-b.flo)), nil
		case token.MUL:
			c := []float64{a.flo * b.flo, a.flo * b.fhi, a.fhi * b.flo, a.fhi * b.fhi}
			sort.Float64s(c)
			return ivF(down(c[0]), up(c[3])), nil
		}
		return iv{}, fmt.Errorf("unsupported float op %s", x.Op)
	}
	switch x.Op {
	case token.ADD:
		return it.fit(ivInt(new(big.Int).Add(a.ilo, b.ilo), new(big.Int).Add(a.ihi, b.ihi)), x.Type(), "addition", x.Pos()), nil
	case token.SUB:
		return it.fit(ivInt(new(big.Int).Sub(a.ilo, b.ihi), new(big.Int).Sub(a.ihi, b.ilo)), x.Type(), "subtraction", x.Pos()), nil
	case token.MUL:
		var c []*big.Int
		for _, p := range []*big.Int{a.ilo, a.ihi} {
			for _, q := range []*big.Int{b.ilo, b.ihi} {
				c = append(c, new(big.Int).Mul(p, q))
			}
		}
		sort.Slice(c, func(i, j int) bool { return c[i].Cmp(c[j]) < 0 })
		return it.fit(ivInt(c[0], c[3]), x.Type(), "multiplication", x.Pos()), nil
	case token.SHL:
		bits, _, ok := typeBits(x.Type())
		if !ok {
			return iv{}, fmt.Errorf("unsupported shift type")
		}
		if b.ilo.Sign() < 0 {
			return iv{}, fmt.Errorf("negative shift count")
		}
		if b.ihi.Cmp(big.NewInt(int64(bits))) >= 0 {
			it.issues = append(it.issues, fmt.Sprintf("shift at %s: the shift count ranges over %s, which reaches or exceeds the %d-bit width (the value silently becomes 0 or wraps)", it.p.Pos(x.Pos()), b, bits))
			lo, hi, _ := typeRange(x.Type())
			return ivInt(lo, hi), nil
		}
		if a.ilo.Sign() < 0 {
			return iv{}, fmt.Errorf("shift of a negative value")
		}
		lo := new(big.Int).Lsh(a.ilo, uint(b.ilo.Int64()))
		hi := new(big.Int).Lsh(a.ihi, uint(b.ihi.Int64()))
		return it.fit(ivInt(lo, hi), x.Type(), "left shift", x.Pos()), nil
	case token.QUO:
		if b.ilo.Sign() <= 0 {
			return iv{}, fmt.Errorf("division by a possibly non-positive interval")
		}
		if a.ilo.Sign() < 0 {
			return iv{}, fmt.Errorf("division of a possibly negative interval")
		}
		return ivInt(new(big.Int).Quo(a.ilo, b.ihi), new(big.Int).Quo(a.ihi, b.ilo)), nil
	}
	return iv{}, fmt.Errorf("unsupported integer op %s", x.Op)
}

func runC08(c *Ctx) {
	p := c.Progs["mod"]
	c.Rule("C08.I", "interval analysis of ExponentialBackoffDuration∘addJitter over a complete finite partition of the argument range", 46)
	c.Rule("C08.L", "the polling loop sleeps for the back-off of a counter that counts consecutive failures", 5)
	c.Rule("C08.T", "self-test of the interval transfer functions", 6)
	c08SelfTest(c, p)

	c.Rule("C08.E", "a failed list call is reported as an error (so that it is backed off): non-200 replies and transport errors never yield a nil error", 6)
	c08ErrorClassification(c, p)
	fn := c.need(p, "C08.I", "agent/utils.ExponentialBackoffDuration")
	if fn != nil {
		c08Intervals(c, p, fn)
	}
	c08Loop(c, p)
}

// staticGlobals finds package variables of agent/utils whose only store is
// in the package initialiser with an evaluable value.
func staticGlobals(c *Ctx, p *Prog, it *interp) {
	initFn := p.Func("agent/utils.init")
	if initFn == nil {
		return
	}
	stores := map[string][]*ssa.Store{}
	for _, fn := range p.FuncsIn("agent/utils") {
		EachInstr(fn, func(i ssa.Instruction) {
			if st, ok := i.(*ssa.Store); ok {
				if g, ok := st.Addr.(*ssa.Global); ok {
					stores[GlobalName(g)] = append(stores[GlobalName(g)], st)
				}
			}
		})
	}
	for name, sts := range stores {
		if len(sts) != 1 || sts[0].Parent() != initFn {
			continue
		}
		if x, ok := it.evalInit(sts[0].Val, 0); ok {
			it.globals[name] = x
		}
	}
	// tables: a slice built once by a constructor called from the initialiser (a loop that
	// fills make([]T, <constant>) element by element from its index) and never written afterwards
	for name, sts := range stores {
		if _, done := it.globals[name]; done || len(sts) != 1 || sts[0].Parent() != initFn {
			continue
		}
		call, ok := sts[0].Val.(*ssa.Call)
		if !ok {
			continue
		}
		f := StaticFunc(call.Common())
		if f == nil || !p.IsModFunc(f) || len(PArgs(call.Common())) != 0 {
			continue
		}
		g, _ := sts[0].Addr.(*ssa.Global)
		if g == nil || !globalElementsNeverWritten(p, g) {
			continue
		}
		if t, ok := it.evalTable(f); ok {
			it.globals[name] = t
		}
	}
}

// globalElementsNeverWritten: no function stores through an element address of the
// package-level slice or appends to it (the table is read-only after initialisation).
func globalElementsNeverWritten(p *Prog, g *ssa.Global) bool {
	ok := true
	for _, fn := range p.AllFuncs {
		EachInstrRaw(fn, func(i ssa.Instruction) {
			ld, isL := i.(*ssa.UnOp)
			if !isL || ld.Op != token.MUL || ld.X != ssa.Value(g) {
				return
			}
			for _, r := range Refs(ld) {
				switch u := r.(type) {
				case *ssa.IndexAddr:
					for _, rr := range Refs(u) {
						if st, isS := rr.(*ssa.Store); isS && st.Addr == ssa.Value(u) {
							ok = false
						}
					}
				case *ssa.UnOp, *ssa.Index:
				case *ssa.Call:
					if b, isB := u.Call.Value.(*ssa.Builtin); !isB || (b.Name() != "len" && b.Name() != "cap") {
						ok = false
					}
				default:
					ok = false // sliced, passed on, stored elsewhere: not followed
				}
			}
		})
	}
	return ok
}

// evalTable evaluates a table constructor of the shape
//
//	t := make([]T, <L>); for i := range t { t[i] = <expr of i and constants> }; return t
//
// (or the classic three-clause loop over 0..len(t)-1) element by element.
func (it *interp) evalTable(f *ssa.Function) (iv, bool) {
	var mk *ssa.MakeSlice
	n := 0
	EachInstrRaw(f, func(i ssa.Instruction) {
		if m, ok := i.(*ssa.MakeSlice); ok {
			mk = m
			n++
		}
	})
	if n != 1 {
		return iv{}, false
	}
	for _, r := range Returns(f) {
		if len(r.Results) != 1 || r.Results[0] != ssa.Value(mk) {
			return iv{}, false
		}
	}
	ln, ok := it.evalExpr(mk.Len, nil, 0)
	if !ok || ln.kind != 'i' || ln.ilo.Cmp(ln.ihi) != 0 || !ln.ilo.IsInt64() || ln.ilo.Int64() < 1 || ln.ilo.Int64() > 4096 {
		return iv{}, false
	}
	L := ln.ilo.Int64()
	// the only use of the slice besides len/return: one element store
	var ia *ssa.IndexAddr
	for _, r := range Refs(mk) {
		switch u := r.(type) {
		case *ssa.IndexAddr:
			if ia != nil {
				return iv{}, false
			}
			ia = u
		case *ssa.Return:
		case *ssa.Call:
			if b, isB := u.Call.Value.(*ssa.Builtin); !isB || b.Name() != "len" {
				return iv{}, false
			}
		case *ssa.DebugRef:
		default:
			return iv{}, false
		}
	}
	if ia == nil {
		return iv{}, false
	}
	var st *ssa.Store
	for _, r := range Refs(ia) {
		s, isS := r.(*ssa.Store)
		if !isS || s.Addr != ssa.Value(ia) || st != nil {
			return iv{}, false
		}
		st = s
	}
	if st == nil {
		return iv{}, false
	}
	// the index enumerates 0..len-1: range form (idx = phi+1, phi = [-1, idx], idx < len) or
	// classic form (idx = phi, phi = [0, phi+1], phi < len); the body is the single block that
	// holds the store and jumps back to the loop head
	isLen := func(v ssa.Value) bool {
		v = Peel(v)
		if v == mk.Len {
			return true
		}
		if call, ok := v.(*ssa.Call); ok {
			if b, isB := call.Call.Value.(*ssa.Builtin); isB && b.Name() == "len" && call.Call.Args[0] == ssa.Value(mk) {
				return true
			}
		}
		return false
	}
	constIs := func(v ssa.Value, want int64) bool {
		c, ok := v.(*ssa.Const)
		if !ok || c.Value == nil {
			return false
		}
		x, exact := constant.Int64Val(constant.ToInt(c.Value))
		return exact && x == want
	}
	plusOne := func(v ssa.Value, base ssa.Value) bool {
		bo, ok := v.(*ssa.BinOp)
		return ok && bo.Op == token.ADD && bo.X == base && constIs(bo.Y, 1)
	}
	idx := ia.Index
	var head *ssa.BasicBlock
	var phi *ssa.Phi
	var condVar ssa.Value
	if p, ok := idx.(*ssa.Phi); ok && len(p.Edges) == 2 {
		// classic
		for k := 0; k < 2; k++ {
			if constIs(p.Edges[k], 0) && plusOne(p.Edges[1-k], p) {
				phi, head, condVar = p, p.Block(), p
			}
		}
	} else if bo, ok := idx.(*ssa.BinOp); ok {
		if p, isP := bo.X.(*ssa.Phi); isP && plusOne(idx, p) && len(p.Edges) == 2 {
			for k := 0; k < 2; k++ {
				if constIs(p.Edges[k], -1) && p.Edges[1-k] == idx {
					phi, head, condVar = p, p.Block(), idx
				}
			}
		}
	}
	if phi == nil {
		return iv{}, false
	}
	ifi := BlockIf(head)
	if ifi == nil {
		return iv{}, false
	}
	cond, ok := ifi.Cond.(*ssa.BinOp)
	if !ok || cond.Op != token.LSS || cond.X != condVar || !isLen(cond.Y) {
		return iv{}, false
	}
	body := head.Succs[0]
	if st.Block() != body || len(body.Succs) != 1 || body.Succs[0] != head || len(body.Preds) != 1 {
		return iv{}, false
	}
	out := make([]iv, L)
	for k := int64(0); k < L; k++ {
		env := map[ssa.Value]iv{idx: ivI64(k, k)}
		v, ok := it.evalExpr(st.Val, env, 0)
		if !ok {
			return iv{}, false
		}
		out[k] = v
	}
	return iv{kind: 't', tbl: out}, true
}

// evalExpr evaluates a side-effect free expression tree over constants, package
// variables with known values and the values given in env.
func (it *interp) evalExpr(v ssa.Value, env map[ssa.Value]iv, depth int) (iv, bool) {
	if depth > 12 {
		return iv{}, false
	}
	if x, ok := env[v]; ok {
		return x, true
	}
	switch x := v.(type) {
	case *ssa.Const:
		return it.constIV(x)
	case *ssa.ChangeType:
		return it.evalExpr(x.X, env, depth+1)
	case *ssa.UnOp:
		if g, ok := x.X.(*ssa.Global); ok && x.Op == token.MUL {
			gv, ok := it.globals[GlobalName(g)]
			return gv, ok && gv.kind != 't'
		}
	case *ssa.Convert:
		a, ok := it.evalExpr(x.X, env, depth+1)
		bt, _ := x.Type().Underlying().(*types.Basic)
		if !ok || bt == nil || bt.Info()&types.IsInteger == 0 {
			return iv{}, false
		}
		if a.kind == 'f' {
			if math.IsNaN(a.flo) || math.IsInf(a.flo, 0) || math.IsInf(a.fhi, 0) {
				return iv{}, false
			}
			lo, _ := big.NewFloat(math.Trunc(a.flo)).Int(nil)
			hi, _ := big.NewFloat(math.Trunc(a.fhi)).Int(nil)
			a = ivInt(lo, hi)
		}
		if a.kind != 'i' {
			return iv{}, false
		}
		lo, hi, isInt := typeRange(x.Type())
		if !isInt || a.ilo.Cmp(lo) < 0 || a.ihi.Cmp(hi) > 0 {
			return iv{}, false // would wrap: not a table this rule reads
		}
		return a, true
	case *ssa.BinOp:
		a, ok1 := it.evalExpr(x.X, env, depth+1)
		b, ok2 := it.evalExpr(x.Y, env, depth+1)
		if !ok1 || !ok2 {
			return iv{}, false
		}
		n := len(it.issues)
		r, err := it.binop(x, a, b)
		if err != nil || len(it.issues) != n {
			it.issues = it.issues[:n]
			return iv{}, false
		}
		return r, true
	}
	return iv{}, false
}

func c08Intervals(c *Ctx, p *Prog, fn *ssa.Function) {
	if len(fn.Params) != 1 {
		c.Unk("C08.I", "signature", p, fn.Pos(), "ExponentialBackoffDuration no longer takes exactly one argument")
		return
	}
	lo0, hi0, ok := typeRange(ParamAt(fn, 0).Type())
	if !ok {
		c.Unk("C08.I", "signature", p, fn.Pos(), "argument type is not an integer type")
		return
	}
	mk := func() *interp {
		it := &interp{p: p, globals: map[string]iv{}}
		staticGlobals(c, p, it)
		return it
	}
	// thresholds: constants the parameter is compared with
	it0 := mk()
	if _, err := it0.evalFunc(fn, []iv{ivInt(lo0, hi0)}); err != nil {
		c.Unk("C08.I", "evaluation", p, fn.Pos(), "the interval interpreter cannot evaluate the delay function: "+err.Error())
		return
	}
	var thr []*big.Int
	EachInstr(fn, func(i ssa.Instruction) {
		bo, ok := i.(*ssa.BinOp)
		if !ok {
			return
		}
		switch bo.Op {
		case token.LSS, token.LEQ, token.GTR, token.GEQ, token.EQL, token.NEQ:
		default:
			return
		}
		for _, pair := range [][2]ssa.Value{{bo.X, bo.Y}, {bo.Y, bo.X}} {
			if pair[0] == ssa.Value(ParamAt(fn, 0)) || Peel(pair[0]) == ssa.Value(ParamAt(fn, 0)) {
				if v, ok := it0.lastValsTop[pair[1]]; ok && v.kind == 'i' && v.ilo.Cmp(v.ihi) == 0 {
					thr = append(thr, v.ilo)
				} else if cst, ok := pair[1].(*ssa.Const); ok {
					if v, ok := it0.constIV(cst); ok && v.kind == 'i' {
						thr = append(thr, v.ilo)
					}
				}
			}
		}
	})
	if len(thr) == 0 {
		c.Bad("C08.I", "guard", p, fn.Pos(), "the delay function no longer compares its argument with a statically known threshold: 1<<n is unguarded")
		return
	}
	maxT := thr[0]
	for _, t := range thr {
		if t.Cmp(maxT) > 0 {
			maxT = t
		}
	}
	if !maxT.IsInt64() || maxT.Int64() > 200 {
		maxT = big.NewInt(200)
	}
	T := maxT.Int64()
	c.Infof("guard threshold T=%d; partition: {0},…,{%d}, [%d, %s]", T, T+1, T+2, hi0)
	type class struct {
		name   string
		lo, hi *big.Int
	}
	var classes []class
	for n := int64(0); n <= T+1; n++ {
		classes = append(classes, class{fmt.Sprintf("n=%d", n), big.NewInt(n), big.NewInt(n)})
	}
	classes = append(classes, class{fmt.Sprintf("n≥%d", T+2), big.NewInt(T + 2), hi0})

	// the jitter call and its constant
	// one call, or one per branch (`return addJitter(cap, j)` / `return addJitter(1<<n*base, j)`): all
	// with the same constant fraction
	jcalls := Calls(fn, ModPath+"/agent/utils.addJitter")
	if len(jcalls) == 0 {
		c.UniqueCall("C08.I", p, fn, false, ModPath+"/agent/utils.addJitter")
		return
	}
	jcall := jcalls[0]
	c.OK("C08.I", "site:agent/utils.ExponentialBackoffDuration:call "+ModPath+"/agent/utils.addJitter", p, jcall.Pos(), fmt.Sprintf("%d jitter call(s), on alternative paths", len(jcalls)))
	jv, okj := it0.constIVOf(Args(CallOf(jcall))[1])
	for _, jc := range jcalls[1:] {
		v2, ok2 := it0.constIVOf(Args(CallOf(jc))[1])
		if !ok2 || !okj || v2.kind != jv.kind || v2.flo != jv.flo || v2.fhi != jv.fhi {
			okj = false
		}
		for _, other := range jcalls {
			if other != jc {
				tgt := other
				if h, _ := (&Walk{Target: func(i ssa.Instruction) bool { return i == tgt }, Local: true}).FromInstr(jc); h != nil {
					okj = false // jitter applied twice on one path
				}
			}
		}
	}
	if !okj || jv.kind != 'f' {
		c.Unk("C08.I", "jitter-constant", p, jcall.Pos(), "the jitter fraction passed to addJitter is not one constant (or jitter is applied twice on a path)")
		return
	}
	j := jv.fhi
	c.Check("C08.I", "jitter-constant", p, jcall.Pos(), jv.flo > 0 && j <= 0.1+1e-12, fmt.Sprintf("jitter fraction j=%g ∈ (0, 0.1]", j), fmt.Sprintf("jitter fraction is %g, outside (0, 0.1]: delays are not within ±10%% of the target (or can reach 0)", j))

	var targets []*big.Int
	var capTarget *big.Int
	for _, cl := range classes {
		it := mk()
		res, err := it.evalFunc(fn, []iv{ivInt(cl.lo, cl.hi)})
		if err != nil {
			c.Unk("C08.I", cl.name+":evaluation", p, fn.Pos(), err.Error())
			continue
		}
		c.Check("C08.I", cl.name+":no-overflow", p, fn.Pos(), len(it.issues) == 0, "shift and multiplications stay inside the 64-bit range", fmt.Sprint(it.issues))
		var tgt iv
		okT := false
		for _, jc := range jcalls {
			if !it.liveTop[jc.Block()] {
				continue
			}
			a0 := Args(CallOf(jc))[0]
			tv, has := it.lastValsTop[a0]
			if !has {
				if cv, isC := it.constIVOf(a0); isC {
					tv, has = cv, true
				}
			}
			if has {
				tgt = tgt.join(tv)
				okT = true
			}
		}
		if !okT || tgt.kind != 'i' || tgt.ilo.Cmp(tgt.ihi) != 0 {
			c.Bad("C08.I", cl.name+":target", p, fn.Pos(), fmt.Sprintf("the un-jittered target delay is not a single value in this class: %v", tgt))
			targets = append(targets, nil)
			continue
		}
		t := tgt.ilo
		targets = append(targets, t)
		if cl.lo.Cmp(cl.hi) != 0 {
			capTarget = t
		}
		c.Check("C08.I", cl.name+":positive", p, fn.Pos(), res.kind == 'i' && res.ilo.Sign() > 0, fmt.Sprintf("delay ∈ %s ns, lower bound > 0", res), fmt.Sprintf("the delay can be ≤ 0 (range %s ns): the agent busy-loops against a failing proxy", res))
		// jitter width: result within [t(1-j)-1, t(1+j)+1]
		tf, _ := new(big.Float).SetInt(t).Float64()
		lo := math.Floor(tf*(1-j)) - 1
		hi := math.Ceil(tf*(1+j)) + 1
		rlo, _ := new(big.Float).SetInt(res.ilo).Float64()
		rhi, _ := new(big.Float).SetInt(res.ihi).Float64()
		c.Check("C08.I", cl.name+":jitter-width", p, fn.Pos(), res.kind == 'i' && rlo >= lo && rhi <= hi, fmt.Sprintf("delay %s within ±%g of target %s", res, j, t), fmt.Sprintf("delay range %s is not within ±%g of the target %s", res, j, t))
	}
	// shape
	first := targets[0]
	if first != nil {
		f := first.Int64()
		c.Check("C08.I", "shape:base", p, fn.Pos(), first.IsInt64() && f >= 500_000 && f <= 2_000_000, fmt.Sprintf("first delay target %d ns ≈ 1 ms", f), fmt.Sprintf("the first delay target is %s ns, not about 1 ms", first))
	}
	if capTarget != nil {
		cp := capTarget.Int64()
		c.Check("C08.I", "shape:cap", p, fn.Pos(), capTarget.IsInt64() && cp >= 2_000_000_000 && cp <= 4_000_000_000, fmt.Sprintf("cap target %d ns ≈ 3 s", cp), fmt.Sprintf("the cap is %s ns, not about 3 s", capTarget))
		// doubling until the cap, never above it
		okShape := true
		why := ""
		capped := false
		for k := 1; k < len(targets); k++ {
			if targets[k] == nil || targets[k-1] == nil {
				okShape, why = false, "a class has no single target"
				break
			}
			dbl := new(big.Int).Lsh(targets[k-1], 1)
			switch {
			case !capped && targets[k].Cmp(dbl) == 0 && targets[k].Cmp(capTarget) <= 0:
			case targets[k].Cmp(capTarget) == 0 && dbl.Cmp(capTarget) > 0:
				capped = true
			case capped && targets[k].Cmp(capTarget) == 0:
			default:
				okShape = false
				why = fmt.Sprintf("target(n=%d)=%s after target(n=%d)=%s is neither its double (≤ cap %s) nor the cap reached because the double would exceed it", k, targets[k], k-1, targets[k-1], capTarget)
			}
			if !okShape {
				break
			}
		}
		c.Check("C08.I", "shape:doubling-until-cap", p, fn.Pos(), okShape && capped, fmt.Sprintf("targets double from %s to the cap %s and stay there", first, capTarget), "the delay sequence is not 'double until the cap': "+why)
	}
}

func c08Loop(c *Ctx, p *Prog) {
	f := c.need(p, "C08.L", "agent.pollForNewRequests")
	if f == nil {
		return
	}
	list := c.UniqueCall("C08.L", p, f, false, ModPath+"/agent/utils.ListPendingRequests")
	// the delay: time.Sleep(d), or a select on a fresh timer for d (time.NewTimer(d).C / time.After(d),
	// made for this failure and never re-armed) whose only other arm is the polling context's Done
	// and leaves the loop
	var sleep ssa.Instruction
	var delayArg ssa.Value
	var delaySel *ssa.Select
	if len(Calls(f, "time.Sleep")) == 0 {
		EachInstr(f, func(i ssa.Instruction) {
			sel, isSel := i.(*ssa.Select)
			if !isSel || !sel.Blocking || sleep != nil {
				return
			}
			var tm *ssa.Call
			other := false
			for _, st := range sel.States {
				switch {
				case st.Dir == types.RecvOnly && isTimerChan(st.Chan):
					if call := CallResult(st.Chan, 0, "time.After"); call != nil {
						tm = call
					} else if base, fld, ok := FieldLoad(st.Chan); ok && fld == "C" {
						tm = CallResult(base, 0, "time.NewTimer")
					}
				case st.Dir == types.RecvOnly && isDoneChan(st.Chan):
				default:
					other = true
				}
			}
			if tm != nil && !other {
				sleep, delayArg, delaySel = sel, PArgs(&tm.Call)[0], sel
			}
		})
		if sleep == nil {
			reused := ssa.Instruction(nil)
			EachInstr(f, func(i ssa.Instruction) {
				if sel, isSel := i.(*ssa.Select); isSel {
					for _, st := range sel.States {
						if base, fld, ok := FieldLoad(st.Chan); ok && fld == "C" && NamedType(base.Type()) == "time.Timer" && !isTimerChan(st.Chan) {
							reused = sel
						}
					}
				}
			})
			if rv, d, okT := armedTimerWait(f); okT && reused == nil {
				sleep, delayArg = rv, d
			}
			if sleep != nil {
				c.OK("C08.L", "site:agent.pollForNewRequests:call time.Sleep", p, sleep.Pos(), "the back-off wait is a receive from a timer that is armed (NewTimer or Reset, same duration) on every path to the receive and re-armed only after its tick was received")
			} else if reused != nil {
				c.Bad("C08.L", "site:agent.pollForNewRequests:delay", p, reused.Pos(), "the back-off wait receives from a timer that is re-armed with Reset (or shared between iterations): a tick left in its channel — the creation tick of NewTimer(0), or one that fired during the previous attempt — ends the next wait at once, so failed polls are not followed by the back-off delay")
				return
			}
			if sleep == nil {
				c.Unk("C08.L", "site:agent.pollForNewRequests:delay", p, f.Pos(), "neither a time.Sleep call nor a select on a fresh timer found in agent.pollForNewRequests: the rule cannot identify the back-off wait")
				return
			}
		} else {
			c.OK("C08.L", "site:agent.pollForNewRequests:call time.Sleep", p, sleep.Pos(), "the back-off wait is a select on a fresh timer and the polling context")
		}
	} else {
		sleep = c.UniqueCall("C08.L", p, f, false, "time.Sleep")
		if sleep != nil {
			delayArg = Args(CallOf(sleep))[0]
		}
	}
	if list == nil || sleep == nil {
		return
	}
	// error test of the list call
	var errIf *ssa.If
	failSucc := 0
	EachInstr(f, func(i ssa.Instruction) {
		if ifi, ok := i.(*ssa.If); ok {
			if v, s, ok := ErrNilTest(ifi); ok && CallResult(v, 1, ModPath+"/agent/utils.ListPendingRequests") != nil {
				errIf, failSucc = ifi, s
			}
		}
	})
	if errIf == nil {
		c.Unk("C08.L", "list-error-test", p, f.Pos(), "no nil-test of the error returned by ListPendingRequests found")
		return
	}
	failBlk := errIf.Block().Succs[failSucc]
	okBlk := errIf.Block().Succs[1-failSucc]
	// sleep argument
	bo := CallResult(delayArg, 0, ModPath+"/agent/utils.ExponentialBackoffDuration")
	var phi *ssa.Phi
	if bo != nil {
		phi, _ = Peel(PArgs(&bo.Call)[0]).(*ssa.Phi) // through the parameter of a new wait helper
	}
	c.Check("C08.L", "sleep:duration-is-backoff-of-counter", p, sleep.Pos(), bo != nil && phi != nil, "time.Sleep(ExponentialBackoffDuration(<loop-carried counter>))", "the sleep duration is not ExponentialBackoffDuration(<loop-carried counter>): "+PathOf(delayArg))
	if phi == nil {
		return
	}
	head := phi.Block()
	// every path from the failure successor to the loop head passes the sleep
	w := &Walk{Target: func(i ssa.Instruction) bool { return i.Block() == head && i == head.Instrs[0] }, Avoid: func(i ssa.Instruction) bool { return i == sleep }}
	hit, path := w.FromBlock(failBlk)
	okArm := true
	if delaySel != nil {
		// the timer is made for this failure (not hoisted out of the loop and reused: a tick left in
		// a reused timer's channel ends the next wait at once) …
		for _, st := range delaySel.States {
			if isTimerChan(st.Chan) {
				for _, r := range Roots(st.Chan) {
					if ri, isI := r.(ssa.Instruction); isI && !(ri.Block() == failBlk || failBlk.Dominates(ri.Block())) {
						okArm = false
					}
				}
			}
		}
		// … and the arm of the polling context does not lead back to the loop head
		for k, st := range delaySel.States {
			if !isDoneChan(st.Chan) {
				continue
			}
			idx := int64(k)
			env := func(v ssa.Value) (constant.Value, bool) {
				if ex, isE := v.(*ssa.Extract); isE && ex.Tuple == ssa.Value(delaySel) && ex.Index == 0 {
					return IntC(idx), true
				}
				return nil, false
			}
			if h, _ := (&Walk{Target: func(i ssa.Instruction) bool { return i.Block() == head && i == head.Instrs[0] }, Edge: EdgeUnder(env), Local: true}).FromInstr(delaySel); h != nil {
				okArm = false
			}
		}
	}
	c.Check("C08.L", "failure-arm:always-sleeps", p, sleep.Pos(), okArm && hit == nil && (failBlk == sleep.Block() || (sleep.Parent() == f && failBlk.Dominates(sleep.Block())) || (sleep.Parent() != f && len(failBlk.Instrs) > 0 && Dominates(failBlk.Instrs[0], sleep))), "every path from a failed list call back to the loop head passes the sleep", "a path from the failed list call returns to the loop head without sleeping ("+PathString(p, path)+"): the agent busy-loops against a failing proxy")
	// the sleep is not in an inner loop / not skipped by the success arm: it must not be reachable from the success arm without passing the loop head
	// phi edges
	okInc, okReset, okInit := true, true, true
	why := ""
	for k, pred := range head.Preds {
		e := phi.Edges[k]
		fromFail := pred == failBlk || failBlk.Dominates(pred)
		fromOK := pred == okBlk || okBlk.Dominates(pred)
		switch {
		case fromFail:
			b, isB := e.(*ssa.BinOp)
			if !(isB && b.Op == token.ADD && b.X == ssa.Value(phi) && isConstInt(b.Y, 1)) {
				okInc = false
				why += fmt.Sprintf(" failure edge carries %s (expected counter+1);", PathOf(e))
			}
		case fromOK:
			if !isConstInt(e, 0) {
				okReset = false
				why += fmt.Sprintf(" success edge carries %s (expected 0);", PathOf(e))
			}
		default:
			if !isConstInt(e, 0) {
				okInit = false
				why += fmt.Sprintf(" initial edge carries %s (expected 0);", PathOf(e))
			}
		}
	}
	c.Check("C08.L", "counter:increment-on-failure", p, phi.Pos(), okInc, "the counter is incremented by one on the failure arm", "counter update on failure:"+why)
	c.Check("C08.L", "counter:reset-on-success", p, phi.Pos(), okReset, "the counter returns to 0 after a successful list call", "no reset after a success:"+why+" the agent keeps the long delays after the proxy has recovered")
	c.Check("C08.L", "counter:starts-at-zero", p, phi.Pos(), okInit, "the counter starts at 0", "initial value:"+why)
}

func isConstInt(v ssa.Value, n int64) bool {
	x, ok := ConstInt(v)
	return ok && x == n
}

// c08SelfTest exercises the transfer functions on known answers.
func c08SelfTest(c *Ctx, p *Prog) {
	it := &interp{p: p}
	mkBin := func(op token.Token, t types.Type) *ssa.BinOp { return &ssa.BinOp{Op: op} }
	_ = mkBin
	chk := func(name string, ok bool, got string) {
		c.Check("C08.T", name, p, 0, ok, "transfer function gives the known answer ("+got+")", "interval transfer function self-test failed: "+name+" gave "+got)
	}
	// float multiply with outward rounding contains the exact product
	a, b := ivF(0.9, 1.1), ivF(1e6, 1e6)
	cands := []float64{a.flo * b.flo, a.fhi * b.fhi}
	r := ivF(down(cands[0]), up(cands[1]))
	chk("float-mul-outward", r.flo < 0.9e6 && r.fhi > 1.1e6 && r.fhi-r.flo < 0.2e6+1, r.String())
	lo, hi, _ := typeRange(types.Typ[types.Int64])
	chk("int64-range", lo.String() == "-9223372036854775808" && hi.String() == "9223372036854775807", lo.String()+".."+hi.String())
	lo, hi, _ = typeRange(types.Typ[types.Uint])
	chk("uint-range", lo.Sign() == 0 && hi.String() == "18446744073709551615", hi.String())
	v := it.fit(ivInt(big.NewInt(0), new(big.Int).Lsh(big.NewInt(1), 63)), types.Typ[types.Int64], "t", 0)
	chk("overflow-detected", len(it.issues) == 1 && v.ihi.Cmp(hi) != 0, fmt.Sprint(len(it.issues)))
	j := ivF(1, 1).join(ivF(0, 3))
	chk("join", j.flo == 0 && j.fhi == 3, j.String())
	tr, _ := big.NewFloat(math.Trunc(2.99)).Int(nil)
	chk("truncation", tr.Int64() == 2, tr.String())
}

// c08ErrorClassification: the polling loop backs off only when
// ListPendingRequests returns an error, so every failure of the list call
// must surface as one.
func c08ErrorClassification(c *Ctx, p *Prog) {
	// an error that one of the steps of the list call produced (round trip, reading the reply,
	// decoding it) is never answered with success: no return with a nil error sits in the
	// branch where such an error is non-nil
	for _, name := range []string{"agent/utils.parseRequestIDs", "agent/utils.ListPendingRequests"} {
		f := p.Func(name)
		if f == nil {
			continue
		}
		bad := ""
		n := 0
		EachInstr(f, func(i ssa.Instruction) {
			ifi, ok := i.(*ssa.If)
			if !ok {
				return
			}
			v, succ, ok := ErrNilTest(ifi)
			if !ok {
				return
			}
			isStep := false
			for _, r := range Roots(v) {
				if e, isE := r.(*ssa.Extract); isE {
					if _, isCall := e.Tuple.(*ssa.Call); isCall {
						isStep = true
					}
				}
				if _, isCall := r.(*ssa.Call); isCall {
					isStep = true
				}
			}
			if !isStep {
				return
			}
			n++
			blk := ifi.Block().Succs[succ]
			if len(blk.Preds) != 1 {
				return
			}
			for _, r := range Returns(ifi.Parent()) {
				if len(r.Results) < 1 || !(r.Block() == blk || blk.Dominates(r.Block())) {
					continue
				}
				if IsNilConst(ReturnValue(r, len(r.Results)-1)) {
					bad = fmt.Sprintf("%s returns a nil error at %s, inside the branch where the error tested at %s is non-nil", FuncName(ifi.Parent()), p.Pos(r.Pos()), p.Pos(ifi.Pos()))
				}
			}
		})
		c.Check("C08.E", name+":a-failed-step-is-a-failure", p, f.Pos(), bad == "" && n > 0, fmt.Sprintf("%d error tests of the call's steps: none of their failure branches returns success", n), bad+": a list call that failed (a reply cut short, a reset connection) is reported as an empty list, so the polling loop resets its counter and polls again at once for as long as the fault lasts")
	}
	if f := c.need(p, "C08.E", "agent/utils.parseRequestIDs"); f != nil {
		nilErrReturn := func(i ssa.Instruction) bool {
			r, ok := i.(*ssa.Return)
			if !ok || len(r.Results) != 2 {
				return false
			}
			return IsNilConst(ReturnValue(r, 1))
		}
		env := func(status int64) Env {
			return func(v ssa.Value) (constant.Value, bool) {
				if _, fld, ok := FieldLoad(v); ok && fld == "StatusCode" {
					return IntC(status), true
				}
				return nil, false
			}
		}
		bad := ""
		for _, st := range []int64{100, 204, 301, 400, 401, 404, 500, 502, 503, 504} {
			if hit, path := (&Walk{Target: nilErrReturn, Edge: EdgeUnder(env(st))}).FromBlock(f.Blocks[0]); hit != nil {
				bad = fmt.Sprintf("a reply with status %d can be returned with a nil error (return at %s, path %s)", st, p.Pos(hit.Pos()), PathString(p, path))
				break
			}
		}
		c.Check("C08.E", "parseRequestIDs:non-200-is-an-error", p, f.Pos(), bad == "", "for statuses 100,204,301,400,401,404,500,502,503,504 no return with a nil error is reachable", bad+": the polling loop treats the failed list call as a success, resets the counter and polls again at once (busy loop against a failing proxy)")
		hit, _ := (&Walk{Target: nilErrReturn, Edge: EdgeUnder(env(200))}).FromBlock(f.Blocks[0])
		c.Check("C08.E", "parseRequestIDs:200-can-succeed", p, f.Pos(), hit != nil, "a 200 reply can be returned without error", "a 200 reply can no longer succeed")
	}
	if f := c.need(p, "C08.E", "agent/utils.ListPendingRequests"); f != nil {
		do := c.UniqueCall("C08.E", p, f, false, "(*net/http.Client).Do")
		if do != nil {
			var ifi *ssa.If
			succ := 0
			EachInstr(f, func(i ssa.Instruction) {
				if x, ok := i.(*ssa.If); ok {
					if v, s, ok := ErrNilTest(x); ok && CallResult(v, 1, "(*net/http.Client).Do") != nil {
						ifi, succ = x, s
					}
				}
			})
			ok := false
			if ifi != nil {
				ok = true
				blk := ifi.Block().Succs[succ]
				w := &Walk{Target: func(i ssa.Instruction) bool {
					r, isR := i.(*ssa.Return)
					return isR && IsNilConst(ReturnValue(r, 1))
				}}
				if hit, _ := w.FromBlock(blk); hit != nil {
					ok = false
				}
			}
			c.Check("C08.E", "ListPendingRequests:transport-error-is-an-error", p, do.Pos(), ok, "a failed round trip is returned as a non-nil error", "a transport error of the list call can be returned as a nil error")
		}
		// the result of parseRequestIDs is returned as is
		okr := false
		for _, r := range Returns(f) {
			if CallResult(ReturnValue(r, 1), 1, ModPath+"/agent/utils.parseRequestIDs") != nil {
				okr = true
			}
			// … also when the body was moved into a new helper whose results are returned as they are
			if rs := Roots(ReturnValue(r, 1)); len(rs) > 0 {
				for _, x := range rs {
					if CallResult(x, 1, ModPath+"/agent/utils.parseRequestIDs") != nil {
						okr = true
					}
				}
			}
			if call, isC := ReturnValue(r, 0).(*ssa.Call); isC && CalleeName(call.Common()) == ModPath+"/agent/utils.parseRequestIDs" {
				okr = true
			}
			if e, isE := r.Results[0].(*ssa.Extract); isE {
				if call, isC := e.Tuple.(*ssa.Call); isC && CalleeName(call.Common()) == ModPath+"/agent/utils.parseRequestIDs" {
					okr = true
				}
			}
		}
		// … and nothing on the way can turn it into nil: no returned error has a nil constant among
		// its possible values (a pass-through wrapper with `if h == nil { return nil }` would)
		nilErr := ""
		for _, r := range Returns(f) {
			ev := ReturnValue(r, 1)
			// `if err != nil { return nil, err }`: on that branch the value is not nil whatever its sources
			guarded := false
			for _, g := range GuardingIfs(r) {
				if v, nonNil, ok := ErrNilTest(g.If); ok && g.Succ == nonNil && ev != nil && (v == ev || SameValue(v, ev)) {
					guarded = true
				}
			}
			if guarded {
				continue
			}
			for _, x := range Roots(ev) {
				if IsNilConst(x) {
					nilErr = p.Pos(r.Pos())
				}
			}
		}
		c.Check("C08.E", "ListPendingRequests:returns-parse-result", p, f.Pos(), okr && nilErr == "", "the error of parseRequestIDs is returned to the polling loop as it is", "ListPendingRequests no longer returns the error of parseRequestIDs unchanged (a nil error can be returned at "+nilErr+" although the call failed): a failing proxy is polled again without back-off")
	}
}

// refineEdge narrows the interval a of value e on the control-flow edge
// pred→blk when pred ends in `if e <op> c` (or `c <op> e`) with c evaluable.
// evalGlobalStores: the interval of a package-level integer variable of the module whose
// address is never taken: the join of the values of all its stores (zero when the package
// initialiser stores nothing), each refined by the comparisons that dominate the store.
func (it *interp) evalGlobalStores(g *ssa.Global, depth int) (iv, bool) {
	if g.Pkg == nil {
		return iv{}, false
	}
	if _, isMod := it.p.ModPkgs[g.Pkg.Pkg.Path()]; !isMod {
		return iv{}, false
	}
	if _, _, ok := typeRange(g.Type().(*types.Pointer).Elem()); !ok {
		return iv{}, false
	}
	var stores []*ssa.Store
	escapes, inInit := false, false
	for _, fn := range it.p.AllFuncs {
		EachInstrRaw(fn, func(i ssa.Instruction) {
			for _, op := range i.Operands(nil) {
				if *op != ssa.Value(g) {
					continue
				}
				switch x := i.(type) {
				case *ssa.Store:
					if x.Addr == ssa.Value(g) && x.Val != ssa.Value(g) {
						stores = append(stores, x)
						if fn.Name() == "init" && fn.Pkg == g.Pkg {
							inInit = true
						}
						continue
					}
					escapes = true
				case *ssa.UnOp:
					if x.Op != token.MUL {
						escapes = true
					}
				default:
					escapes = true
				}
			}
		})
	}
	if escapes {
		return iv{}, false
	}
	var acc iv
	if !inInit {
		acc = ivI64(0, 0)
	}
	for _, st := range stores {
		a, err := it.evalValue(st.Val, depth+1)
		if err != nil || a.kind != 'i' {
			return iv{}, false
		}
		a = it.refineAt(a, st.Val, st.Block())
		acc = acc.join(a)
	}
	return acc, acc.kind == 'i'
}

// refineAt: a, the interval of e, as the comparisons of e that dominate blk with one outcome leave it.
func (it *interp) refineAt(a iv, e ssa.Value, blk *ssa.BasicBlock) iv {
	for d := blk.Idom(); d != nil; d = d.Idom() {
		if len(d.Succs) != 2 || d.Succs[0] == d.Succs[1] {
			continue
		}
		var via *ssa.BasicBlock
		for _, s := range d.Succs {
			if s == blk || s.Dominates(blk) {
				if via != nil {
					via = nil
					break
				}
				via = s
			}
		}
		if via != nil && len(via.Preds) == 1 {
			a = it.refineEdge(a, e, d, via, 3)
		}
	}
	return a
}

func (it *interp) refineEdge(a iv, e ssa.Value, pred, blk *ssa.BasicBlock, depth int) iv {
	// comparisons of e further up that every path to this edge has passed with one outcome
	// (if v < 0 || v >= n { … }: the second test's edge also knows the first one failed)
	if depth < 3 {
		for d := pred.Idom(); d != nil; d = d.Idom() {
			if len(d.Succs) != 2 || d.Succs[0] == d.Succs[1] {
				continue
			}
			var via *ssa.BasicBlock
			for _, s := range d.Succs {
				if s == pred || s.Dominates(pred) {
					if via != nil {
						via = nil
						break
					}
					via = s
				}
			}
			if via != nil && len(via.Preds) == 1 {
				a = it.refineEdge(a, e, d, via, 3)
			}
		}
	}
	if len(pred.Instrs) == 0 || len(pred.Succs) != 2 || pred.Succs[0] == pred.Succs[1] {
		return a
	}
	ifi, ok := pred.Instrs[len(pred.Instrs)-1].(*ssa.If)
	if !ok {
		return a
	}
	bo, ok := ifi.Cond.(*ssa.BinOp)
	if !ok {
		return a
	}
	truth := pred.Succs[0] == blk
	op := bo.Op
	var other ssa.Value
	switch {
	case bo.X == e:
		other = bo.Y
	case bo.Y == e:
		other = bo.X
		switch op {
		case token.LSS:
			op = token.GTR
		case token.LEQ:
			op = token.GEQ
		case token.GTR:
			op = token.LSS
		case token.GEQ:
			op = token.LEQ
		}
	default:
		return a
	}
	if !truth {
		switch op {
		case token.LSS:
			op = token.GEQ
		case token.LEQ:
			op = token.GTR
		case token.GTR:
			op = token.LEQ
		case token.GEQ:
			op = token.LSS
		case token.EQL:
			op = token.NEQ
		case token.NEQ:
			op = token.EQL
		default:
			return a
		}
	}
	c, err := it.evalValue(other, depth+1)
	if err != nil || c.kind != 'i' {
		return a
	}
	one := big.NewInt(1)
	lo, hi := new(big.Int).Set(a.ilo), new(big.Int).Set(a.ihi)
	maxOf := func(x, y *big.Int) *big.Int {
		if x.Cmp(y) >= 0 {
			return x
		}
		return y
	}
	minOf := func(x, y *big.Int) *big.Int {
		if x.Cmp(y) <= 0 {
			return x
		}
		return y
	}
	switch op {
	case token.LSS:
		hi = minOf(hi, new(big.Int).Sub(c.ihi, one))
	case token.LEQ:
		hi = minOf(hi, c.ihi)
	case token.GTR:
		lo = maxOf(lo, new(big.Int).Add(c.ilo, one))
	case token.GEQ:
		lo = maxOf(lo, c.ilo)
	case token.EQL:
		lo, hi = maxOf(lo, c.ilo), minOf(hi, c.ihi)
	default:
		return a
	}
	if lo.Cmp(hi) > 0 {
		return a
	}
	return ivInt(lo, hi)
}

// literalLenOfGlobal: the package-level slice/array variable is stored once, by its package's
// initialiser, from a composite literal of n elements, and never re-sliced or replaced.
func literalLenOfGlobal(p *Prog, g *ssa.Global) (int64, bool) {
	var n int64 = -1
	ok := true
	for _, fn := range p.AllFuncs {
		EachInstrRaw(fn, func(i ssa.Instruction) {
			st, isSt := i.(*ssa.Store)
			if !isSt || st.Addr != ssa.Value(g) {
				return
			}
			if fn.Name() != "init" || fn.Pkg != g.Pkg || n >= 0 {
				ok = false
				return
			}
			if sl, isSl := st.Val.(*ssa.Slice); isSl && sl.Low == nil && sl.High == nil {
				if at, isA := derefT(sl.X.Type()).Underlying().(*types.Array); isA {
					n = at.Len()
					return
				}
			}
			ok = false
		})
	}
	return n, ok && n >= 0
}

// armedTimerWait recognises the drained, re-armed timer as a wait: one plain receive from the C
// of a *time.Timer kept in a local variable, such that (1) it is the only channel operation on
// that timer, (2) every path from the function's entry, and from the receive itself, to the
// receive passes an arming — time.NewTimer(d) stored into the variable or Reset(d) on it — and
// every path from one arming to another passes the receive (so Reset only ever runs on a timer
// whose tick was consumed: no stale tick can end a later wait at once), (3) all armings use the
// same duration value, (4) Stop is only called from deferred code.
func armedTimerWait(f *ssa.Function) (ssa.Instruction, ssa.Value, bool) {
	var recv *ssa.UnOp
	var cell *ssa.Alloc
	nrecv := 0
	timerCell := func(v ssa.Value) *ssa.Alloc {
		// v is the *time.Timer value: a load of the local variable
		ld, ok := v.(*ssa.UnOp)
		if !ok || ld.Op != token.MUL {
			return nil
		}
		a, _ := ld.X.(*ssa.Alloc)
		if a == nil {
			if fv, isFV := ld.X.(*ssa.FreeVar); isFV {
				if b, isA := FreeVarBinding(fv).(*ssa.Alloc); isA {
					a = b
				}
			}
		}
		return a
	}
	for _, b := range f.Blocks {
		for _, in := range b.Instrs {
			u, ok := in.(*ssa.UnOp)
			if !ok || u.Op != token.ARROW {
				continue
			}
			base, fld, okF := FieldLoad(u.X)
			if !okF || fld != "C" || NamedType(base.Type()) != "time.Timer" {
				continue
			}
			nrecv++
			recv = u
			cell = timerCell(base)
		}
	}
	if nrecv != 1 || cell == nil || cell.Parent() != f {
		return nil, nil, false
	}
	var arms []ssa.Instruction
	var delay ssa.Value
	same := true
	note := func(i ssa.Instruction, d ssa.Value) {
		arms = append(arms, i)
		if delay == nil {
			delay = d
		} else if delay != d {
			same = false
		}
	}
	okUses := true
	for _, r := range Refs(cell) {
		switch x := r.(type) {
		case *ssa.DebugRef:
		case *ssa.Store:
			if x.Addr != ssa.Value(cell) {
				okUses = false
				continue
			}
			if IsNilConst(x.Val) {
				continue
			}
			nt := CallResult(x.Val, 0, "time.NewTimer")
			if nt == nil {
				okUses = false
				continue
			}
			note(x, nt.Call.Args[0])
		case *ssa.UnOp:
			for _, u := range Refs(x) {
				switch y := u.(type) {
				case *ssa.DebugRef:
				case *ssa.BinOp: // nil test
				case *ssa.FieldAddr:
					if fieldName(y.X.Type(), y.Field) != "C" {
						okUses = false
					}
				case ssa.CallInstruction:
					switch CalleeName(y.Common()) {
					case "(*time.Timer).Reset":
						if y.Parent() != f {
							okUses = false
						} else {
							note(y, y.Common().Args[1])
						}
					case "(*time.Timer).Stop":
						if _, isDefer := y.(*ssa.Defer); !isDefer && y.Parent() == f {
							okUses = false
						}
					default:
						okUses = false
					}
				default:
					okUses = false
				}
			}
		case *ssa.MakeClosure:
			// captured by deferred clean-up only: its uses are checked through the free variable's loads
			fn, _ := x.Fn.(*ssa.Function)
			if fn == nil {
				okUses = false
				continue
			}
			for _, call := range Calls(fn, "(*time.Timer).Reset", "time.NewTimer") {
				_ = call
				okUses = false
			}
			for _, rr := range Refs(x) {
				if _, isDefer := rr.(*ssa.Defer); !isDefer {
					if _, isDbg := rr.(*ssa.DebugRef); !isDbg {
						okUses = false
					}
				}
			}
		default:
			okUses = false
		}
	}
	if !okUses || !same || len(arms) == 0 || delay == nil {
		return nil, nil, false
	}
	isArm := func(i ssa.Instruction) bool {
		for _, a := range arms {
			if a == i {
				return true
			}
		}
		return false
	}
	isRecv := func(i ssa.Instruction) bool { return i == ssa.Instruction(recv) }
	// entry -> receive without arming
	if h, _ := (&Walk{Target: isRecv, Avoid: isArm, Local: true}).FromBlock(f.Blocks[0]); h != nil {
		return nil, nil, false
	}
	// receive -> receive without arming
	if h, _ := (&Walk{Target: isRecv, Avoid: isArm, Local: true}).FromInstr(recv); h != nil {
		return nil, nil, false
	}
	// arming -> arming without the receive
	for _, a := range arms {
		if h, _ := (&Walk{Target: isArm, Avoid: isRecv, Local: true}).FromInstr(a); h != nil {
			return nil, nil, false
		}
	}
	return recv, delay, true
}

package ipc

// Transparency of new helper functions. A function that does not exist in
// the pinned tree (pinned.json) and is only ever called statically is the
// result of an "extract function/method" refactoring (or of a change that
// routes logic through a new function). The shared analyses look through it:
//
//   - EachInstr/Calls splice the body of a synchronously called new helper
//     into the scan of its caller; a new helper started with go/defer is
//     listed among the caller's closures (it is a goroutine/deferred body).
//   - Peel/AccessPath/Roots replace a parameter of a new helper by the
//     argument of its call site(s) and a call of a new helper by the value it
//     returns.
//   - Dominates, Walk, GuardingIfs and InLoop lift an instruction inside a new
//     helper to its call site(s).
//
// Pinned functions are never transparent: rules name them and check them in
// their own right.

import (
	"go/constant"
	"go/token"
	"go/types"
	"strings"
	"sync"

	"golang.org/x/tools/go/ssa"
)

type helperInfo struct {
	sites []ssa.CallInstruction // every static call/go/defer site
	seam  bool                  // reached through a seam variable: the sites were fixed by registerSeams
	once  bool                  // a function literal handed directly to (*sync.Once).Do: runs synchronously inside that call
}

var (
	helperMu  sync.RWMutex
	helperReg = map[*ssa.Function]*helperInfo{}
	// boundReg: synthetic bound-method wrappers (`x.method` used as a value) and the
	// MakeClosure instructions that create them. A wrapper is treated like a function
	// literal of the function that creates it; the method it calls is spliced into it
	// when it is a new helper.
	boundReg = map[*ssa.Function][]*ssa.MakeClosure{}
	// litMethods: methods of a new struct type whose values are created by exactly one
	// literal, keyed by the function containing that literal (a handler literal that a
	// refactoring turned into a small type with a ServeHTTP/serve method); recvAlloc
	// maps such a method to the literal's Alloc.
	litMethods = map[*ssa.Function][]*ssa.Function{}
	recvAlloc  = map[*ssa.Function]*ssa.Alloc{}
)

func literalMethodsOf(fn *ssa.Function) []*ssa.Function {
	helperMu.RLock()
	defer helperMu.RUnlock()
	return litMethods[fn]
}

func receiverLiteral(m *ssa.Function) *ssa.Alloc {
	helperMu.RLock()
	defer helperMu.RUnlock()
	return recvAlloc[m]
}

// registerLiteralTypes finds the new struct types created by a single literal.
func registerLiteralTypes(p *Prog) {
	allocs := map[*types.Named][]*ssa.Alloc{}
	for _, fn := range p.Funcs {
		EachInstrRaw(fn, func(i ssa.Instruction) {
			if a, ok := i.(*ssa.Alloc); ok {
				if n, ok := derefT1(a.Type()).(*types.Named); ok && IsNewType(n) {
					if _, isStruct := n.Underlying().(*types.Struct); isStruct {
						allocs[n] = append(allocs[n], a)
					}
				}
			}
		})
	}
	helperMu.Lock()
	defer helperMu.Unlock()
	for n, as := range allocs {
		if len(as) != 1 {
			continue
		}
		for k := 0; k < n.NumMethods(); k++ {
			if m := p.SSA.FuncValue(n.Method(k)); m != nil && len(m.Blocks) > 0 {
				litMethods[as[0].Parent()] = append(litMethods[as[0].Parent()], m)
				recvAlloc[m] = as[0]
				p.regFns = append(p.regFns, as[0].Parent(), m)
			}
		}
	}
}

func isBoundWrapper(f *ssa.Function) bool {
	return f != nil && strings.HasPrefix(f.Synthetic, "bound method wrapper")
}

func boundSites(f *ssa.Function) []*ssa.MakeClosure {
	helperMu.RLock()
	defer helperMu.RUnlock()
	return boundReg[f]
}

// boundWrappersIn: the bound-method wrappers created directly in g.
func boundWrappersIn(g *ssa.Function) []*ssa.Function {
	var out []*ssa.Function
	EachInstrRaw(g, func(i ssa.Instruction) {
		if mc, ok := i.(*ssa.MakeClosure); ok {
			if f, ok := mc.Fn.(*ssa.Function); ok && isBoundWrapper(f) && len(f.Blocks) > 0 {
				out = append(out, f)
			}
		}
	})
	return out
}

// IsNewType: a named module type that does not exist in the pinned tree.
func IsNewType(t types.Type) bool {
	for {
		if pt, ok := t.(*types.Pointer); ok {
			t = pt.Elem()
			continue
		}
		break
	}
	n, ok := t.(*types.Named)
	if !ok || !isModObj(n.Obj()) {
		return false
	}
	pn := pinnedTable()
	if pn.Pkgs == nil {
		return false
	}
	pp := pn.Pkgs[Rel(n.Obj().Pkg().Path())]
	if pp == nil {
		return false
	}
	_, pinned := pp.Types[objName(n.Obj())]
	return !pinned
}

func helperOf(fn *ssa.Function) *helperInfo {
	if fn == nil {
		return nil
	}
	helperMu.RLock()
	h := helperReg[fn]
	helperMu.RUnlock()
	return h
}

// IsNewHelper reports whether fn is a transparent new helper.
func IsNewHelper(fn *ssa.Function) bool { return helperOf(fn) != nil }

// syncHelperCallee: i is a plain (synchronous) call of a new helper.
func syncHelperCallee(i ssa.Instruction) *ssa.Function {
	call, ok := i.(*ssa.Call)
	if !ok {
		return nil
	}
	if f, ok := call.Call.Value.(*ssa.Function); ok && helperOf(f) != nil {
		return f
	}
	if f := seamTarget(call.Call.Value); f != nil && helperOf(f) != nil {
		return f
	}
	if callee, ok := call.Call.Value.(*ssa.Function); ok && len(call.Call.Args) == 2 && callee.String() == "(*sync.Once).Do" {
		var g *ssa.Function
		switch a := call.Call.Args[1].(type) {
		case *ssa.MakeClosure:
			g, _ = a.Fn.(*ssa.Function)
		case *ssa.Function:
			g = a
		}
		if info := helperOf(g); info != nil && info.once {
			return g
		}
	}
	return nil
}

// TopParent: the outermost enclosing function of a literal.
func TopParent(fn *ssa.Function) *ssa.Function {
	for fn != nil && fn.Parent() != nil {
		fn = fn.Parent()
	}
	return fn
}

// asyncHelperCallee: i is go/defer of a new helper.
func asyncHelperCallee(i ssa.Instruction) *ssa.Function {
	switch x := i.(type) {
	case *ssa.Go:
		if f, ok := calleeFn(x.Call.Value); ok && helperOf(f) != nil {
			return f
		}
	case *ssa.Defer:
		if f, ok := calleeFn(x.Call.Value); ok && helperOf(f) != nil {
			return f
		}
	}
	return nil
}

// ---- seam variables ----
//
// A package-level variable of function type that is assigned exactly once, by its
// initialiser, and is otherwise only called (`var timeNow = time.Now`, `var dialBackend =
// func(...) {...}`: a seam for tests) names one function for the whole life of the
// program as the build sees it (test files are not part of it). Calls through such a
// variable are read as static calls of that function; when the function is a new function
// literal it is a transparent helper whose call sites are the calls through the variable.

var seamReg = map[*ssa.Global]*ssa.Function{}

// exitWrappers: module functions that end the process on every path (a logger's Fatalf
// that calls log.Fatal): a call of one is a process-terminating call. They are not
// transparent — the call itself is what rules look at.
var exitWrappers = map[*ssa.Function]bool{}

var processExitCallees = []string{"log.Fatal", "log.Fatalf", "log.Fatalln", "log.Panic", "log.Panicf", "log.Panicln", "os.Exit", "runtime.Goexit",
	"(*log.Logger).Fatal", "(*log.Logger).Fatalf", "(*log.Logger).Fatalln", "(*log.Logger).Panic", "(*log.Logger).Panicf", "(*log.Logger).Panicln", "syscall.Exit"}

// IsExitCall: i terminates the process (or the goroutine, by panicking through the log
// package): a call of one of the exit functions, or of a module function that always
// reaches one.
func IsExitCall(i ssa.Instruction) bool {
	cc := CallOf(i)
	if cc == nil {
		return false
	}
	if IsCall(i, processExitCallees...) {
		return true
	}
	if f, ok := calleeFn(cc.Value); ok && !cc.IsInvoke() {
		helperMu.RLock()
		defer helperMu.RUnlock()
		return exitWrappers[f]
	}
	return false
}

// ExitCalls lists the process-terminating calls in fn (its own and those of transparent helpers).
func ExitCalls(fn *ssa.Function) []ssa.Instruction {
	var out []ssa.Instruction
	seen := map[ssa.Instruction]bool{}
	EachInstr(fn, func(i ssa.Instruction) {
		if !seen[i] && IsExitCall(i) {
			seen[i] = true
			out = append(out, i)
		}
	})
	return out
}

// seamTarget: the function a call through v reaches when v is a load of a seam variable.
func seamTarget(v ssa.Value) *ssa.Function {
	ld, ok := v.(*ssa.UnOp)
	if !ok || ld.Op != token.MUL {
		return nil
	}
	g, ok := ld.X.(*ssa.Global)
	if !ok {
		return nil
	}
	helperMu.RLock()
	defer helperMu.RUnlock()
	return seamReg[g]
}

func registerSeams(p *Prog) map[*ssa.Function][]ssa.CallInstruction {
	type use struct {
		stores []*ssa.Store
		other  bool
		calls  []ssa.CallInstruction
	}
	uses := map[*ssa.Global]*use{}
	get := func(g *ssa.Global) *use {
		if uses[g] == nil {
			uses[g] = &use{}
		}
		return uses[g]
	}
	isSeamType := func(g *ssa.Global) bool {
		if g.Pkg == nil {
			return false
		}
		if _, mod := p.ModPkgs[g.Pkg.Pkg.Path()]; !mod {
			return false
		}
		pt, ok := g.Type().Underlying().(*types.Pointer)
		if !ok {
			return false
		}
		_, isSig := pt.Elem().Underlying().(*types.Signature)
		return isSig
	}
	for _, fn := range p.Funcs {
		EachInstrRaw(fn, func(i ssa.Instruction) {
			var ops []*ssa.Value
			for _, op := range i.Operands(ops) {
				if op == nil || *op == nil {
					continue
				}
				g, ok := (*op).(*ssa.Global)
				if !ok || !isSeamType(g) {
					continue
				}
				u := get(g)
				switch x := i.(type) {
				case *ssa.Store:
					if x.Addr == ssa.Value(g) {
						u.stores = append(u.stores, x)
					} else {
						u.other = true
					}
				case *ssa.UnOp:
					if x.Op != token.MUL {
						u.other = true
						break
					}
					for _, r := range Refs(x) {
						if _, isDbg := r.(*ssa.DebugRef); isDbg {
							continue
						}
						ci, isCall := r.(ssa.CallInstruction)
						if !isCall || ci.Common().IsInvoke() || ci.Common().Value != ssa.Value(x) {
							u.other = true
							continue
						}
						used := false
						for _, a := range ci.Common().Args {
							if a == ssa.Value(x) {
								used = true
							}
						}
						if used {
							u.other = true
							continue
						}
						u.calls = append(u.calls, ci)
					}
				case *ssa.DebugRef:
				default:
					u.other = true
				}
			}
		})
	}
	sites := map[*ssa.Function][]ssa.CallInstruction{}
	targets := map[*ssa.Function]int{}
	var regd []*ssa.Global
	for g, u := range uses {
		if u.other || len(u.stores) != 1 {
			continue
		}
		st := u.stores[0]
		if st.Parent() == nil || st.Parent().Name() != "init" || st.Parent().Parent() != nil {
			continue
		}
		var tgt *ssa.Function
		switch v := st.Val.(type) {
		case *ssa.Function:
			tgt = v
		case *ssa.MakeClosure:
			if len(v.Bindings) == 0 {
				tgt, _ = v.Fn.(*ssa.Function)
			}
		}
		if tgt == nil {
			continue
		}
		helperMu.Lock()
		seamReg[g] = tgt
		helperMu.Unlock()
		regd = append(regd, g)
		targets[tgt]++
		sites[tgt] = append(sites[tgt], u.calls...)
		p.Aliases = append(p.Aliases, "calls through the package variable "+GlobalName(g)+" are calls of "+tgt.String()+" (assigned once, by its initialiser)")
	}
	p.regGlobals = append(p.regGlobals, regd...)
	// a literal stored into two variables is not one helper
	for t, n := range targets {
		if n > 1 {
			delete(sites, t)
		}
	}
	return sites
}

// RegisterNewHelpers finds the transparent helpers of a loaded program.
func RegisterNewHelpers(p *Prog, pinned *Pinned) {
	if pinned == nil || pinned.Pkgs == nil {
		return
	}
	seamSites := registerSeams(p)
	registerSoleImplInterfaces(p, pinned)
	registerSoleSites(p)
	registerGroupInits(p)
	registerMemoFields(p)
	// named module types with a value converted to an interface somewhere in module code
	boxedTypes := map[*types.Named]bool{}
	for _, fn := range p.Funcs {
		EachInstrRaw(fn, func(i ssa.Instruction) {
			if mi, ok := i.(*ssa.MakeInterface); ok {
				if n := recvNamed(mi.X.Type()); n != nil {
					boxedTypes[n] = true
				}
			}
		})
	}
	boxed := func(n *types.Named) bool { return n == nil || boxedTypes[n] }
	for _, fn := range p.Funcs {
		if fn.Parent() != nil || len(fn.Blocks) == 0 || fn.Name() == "main" || fn.Name() == "init" {
			continue
		}
		always := false
		EachInstrRaw(fn, func(i ssa.Instruction) {
			if IsCall(i, processExitCallees...) && mustExecute(i) {
				always = true
			}
		})
		if always {
			helperMu.Lock()
			exitWrappers[fn] = true
			helperMu.Unlock()
			p.regFns = append(p.regFns, fn)
			p.Aliases = append(p.Aliases, "a call of "+FuncName(fn)+" is a process-terminating call (it always reaches one)")
		}
	}
	cand := map[*ssa.Function]*helperInfo{}
	// function literals reached only through a seam variable
	for t, ss := range seamSites {
		if t.Parent() == nil || t.Parent().Name() != "init" || t.Parent().Parent() != nil || len(t.FreeVars) != 0 || len(t.Blocks) == 0 || len(ss) == 0 {
			continue
		}
		if _, mod := p.ModPkgs[fnPkgPath(t)]; !mod {
			continue
		}
		cand[t] = &helperInfo{sites: ss, seam: true}
	}
	for _, fn := range p.Funcs {
		if fn.Parent() != nil || fn.Synthetic != "" {
			continue
		}
		f, ok := fn.Object().(*types.Func)
		if !ok || f == nil || fn.Origin() != nil || fn.Name() != f.Name() {
			continue
		}
		pk := fnPkg(fn)
		if pk == nil {
			continue
		}
		pp := pinned.Pkgs[Rel(pk.Pkg.Path())]
		if pp == nil {
			continue // a whole new package: nothing is anchored in it, leave it alone
		}
		if _, isPinned := pp.Funcs[canonFuncKey(f)]; isPinned {
			continue
		}
		if f.Name() == "main" || f.Name() == "init" {
			continue
		}
		// a method that can be reached through an interface has callers the static call
		// sites do not show (w.WriteHeader(…) from net/http): never transparent. Exported
		// methods may satisfy any interface; unexported ones only interfaces of their package.
		if sig := f.Type().(*types.Signature); sig.Recv() != nil {
			// … unless no value of the receiver type is ever converted to an interface in
			// module code: then its methods can only be called statically
			if (f.Exported() || ifaceDeclares(pk.Pkg, f.Name())) && boxed(recvNamed(sig.Recv().Type())) {
				continue
			}
		}
		if exitWrappers[fn] {
			continue
		}
		cand[fn] = &helperInfo{}
	}
	onceCand := map[*ssa.Function]*helperInfo{}
	// function literals handed directly to (*sync.Once).Do: the literal runs synchronously inside the
	// call (later callers wait until it has finished), so it is part of the function that contains it
	// — `closeOnce.Do(func() { a.Close(); b.Close() })` closes both before Do returns
	for _, fn := range p.AllFuncs {
		if _, mod := p.ModPkgs[fnPkgPath(TopParent(fn))]; !mod {
			continue
		}
		EachInstrRaw(fn, func(i ssa.Instruction) {
			call, ok := i.(*ssa.Call)
			if !ok || call.Call.IsInvoke() || len(call.Call.Args) != 2 {
				return
			}
			if callee, isF := call.Call.Value.(*ssa.Function); !isF || callee.String() != "(*sync.Once).Do" {
				return
			}
			var g *ssa.Function
			switch a := call.Call.Args[1].(type) {
			case *ssa.MakeClosure:
				if refs := a.Referrers(); refs != nil && len(*refs) == 1 {
					g, _ = a.Fn.(*ssa.Function)
				}
			case *ssa.Function:
				g = a
			}
			if g == nil || g.Parent() != fn || len(g.Params) != 0 || len(g.Blocks) == 0 || false {
				return
			}
			// the Once belongs to this activation (a local, or a field of the object at hand): one
			// declared in an enclosing function whose literals outlive it (a handler constructor), or
			// at package level, is shared by every later activation — only the first of them runs the body
			if !oncePerActivation(call.Call.Args[0], 0) {
				return
			}
			hasDefer := false
			EachInstrRaw(g, func(j ssa.Instruction) {
				switch j.(type) {
				case *ssa.Defer, *ssa.RunDefers, *ssa.Go:
					hasDefer = true
				}
			})
			if hasDefer && !onlyUnlockDefers(g) {
				return
			}
			onceCand[g] = &helperInfo{sites: []ssa.CallInstruction{call}, once: true}
		})
	}
	if len(onceCand) > 0 {
		helperMu.Lock()
		for h, info := range onceCand {
			helperReg[h] = info
			p.regFns = append(p.regFns, h)
		}
		helperMu.Unlock()
	}
	if len(cand) == 0 {
		return
	}
	// bound-method wrappers created in module code
	var wrappers []*ssa.Function
	wrapperSites := map[*ssa.Function][]*ssa.MakeClosure{}
	for _, fn := range p.Funcs {
		EachInstrRaw(fn, func(i ssa.Instruction) {
			if mc, ok := i.(*ssa.MakeClosure); ok {
				if f, ok := mc.Fn.(*ssa.Function); ok && isBoundWrapper(f) {
					if len(wrapperSites[f]) == 0 {
						wrappers = append(wrappers, f)
					}
					wrapperSites[f] = append(wrapperSites[f], mc)
				}
			}
		})
	}
	// call sites; any use as a value disqualifies
	for _, fn := range append(append([]*ssa.Function{}, p.Funcs...), wrappers...) {
		EachInstrRaw(fn, func(i ssa.Instruction) {
			var callee ssa.Value
			if ci, ok := i.(ssa.CallInstruction); ok {
				callee = ci.Common().Value
				if h, ok := callee.(*ssa.Function); ok && !ci.Common().IsInvoke() {
					if info := cand[h]; info != nil && !info.seam {
						info.sites = append(info.sites, ci)
					}
				}
			}
			var ops []*ssa.Value
			for _, op := range i.Operands(ops) {
				if op == nil || *op == nil {
					continue
				}
				if h, ok := (*op).(*ssa.Function); ok && cand[h] != nil && *op != callee {
					if cand[h].seam && i.Parent() == h.Parent() {
						if _, isMk := i.(*ssa.MakeClosure); isMk {
							continue // the literal's own creation in the initialiser
						}
						if st, isSt := i.(*ssa.Store); isSt {
							if g, isG := st.Addr.(*ssa.Global); isG && seamReg[g] == h {
								continue // … and its assignment to the seam variable
							}
						}
					}
					delete(cand, h) // address taken / passed as a value
				}
			}
		})
	}
	// no call site, or recursion through helpers: not transparent. A helper that
	// defers (or recovers) and is called synchronously is not transparent either:
	// its deferred calls run when the helper returns, not when its caller does, so
	// splicing its body into the caller would misplace them (a `defer body.Close()`
	// moved into an extracted fetch helper closes the body before the caller uses it).
	for h, info := range cand {
		if len(info.sites) == 0 {
			delete(cand, h)
			continue
		}
		hasDefer := false
		EachInstrRaw(h, func(i ssa.Instruction) {
			switch i.(type) {
			case *ssa.Defer, *ssa.RunDefers:
				hasDefer = true
			}
		})
		// … except when all it defers is the release of a mutex (the lock-scoped accessor
		// `mu.Lock(); defer mu.Unlock(); return m[k]`): no rule other than the lockset
		// reads unlock calls, and the lockset analyses every function in its own frame
		if hasDefer && (onlyUnlockDefers(h) || selfContainedDefers(h)) {
			hasDefer = false
		}
		if hasDefer {
			for _, s := range info.sites {
				if call, isCall := s.(*ssa.Call); isCall && !tailPosition(call) {
					delete(cand, h)
					break
				}
			}
		}
	}
	var reaches func(from, to *ssa.Function, seen map[*ssa.Function]bool) bool
	reaches = func(from, to *ssa.Function, seen map[*ssa.Function]bool) bool {
		if seen[from] {
			return false
		}
		seen[from] = true
		found := false
		EachInstrRaw(from, func(i ssa.Instruction) {
			if ci, ok := i.(ssa.CallInstruction); ok {
				if h, ok := calleeFn(ci.Common().Value); ok {
					if h == to || (cand[h] != nil && reaches(h, to, seen)) {
						found = true
					}
				}
			}
		})
		return found
	}
	for h := range cand {
		if reaches(h, h, map[*ssa.Function]bool{}) {
			delete(cand, h)
		}
	}
	helperMu.Lock()
	for w, sites := range wrapperSites {
		boundReg[w] = sites
		p.regFns = append(p.regFns, w)
	}
	for h, info := range cand {
		helperReg[h] = info
		p.regFns = append(p.regFns, h)
		if info.once {
			continue
		}
		p.Aliases = append(p.Aliases, "new helper "+FuncName(h)+" is treated as part of its caller(s)")
	}
	helperMu.Unlock()
}

// EachInstrRaw visits the instructions of fn only.
func EachInstrRaw(fn *ssa.Function, f func(ssa.Instruction)) {
	for _, b := range fn.Blocks {
		for _, i := range b.Instrs {
			f(i)
		}
	}
}

// helperParamArg: for parameter prm of a new helper with exactly one call
// site, the argument passed for it.
func helperParamArg(prm *ssa.Parameter) ssa.Value {
	fn := prm.Parent()
	info := helperOf(fn)
	if info == nil || len(info.sites) != 1 {
		return nil
	}
	for k, x := range fn.Params {
		if x == prm {
			args := info.sites[0].Common().Args
			if k < len(args) {
				return args[k]
			}
		}
	}
	return nil
}

// helperParamArgs: the arguments at every call site.
func helperParamArgs(prm *ssa.Parameter) []ssa.Value {
	fn := prm.Parent()
	info := helperOf(fn)
	if info == nil {
		return nil
	}
	var out []ssa.Value
	for k, x := range fn.Params {
		if x == prm {
			for _, s := range info.sites {
				args := s.Common().Args
				if k < len(args) {
					out = append(out, args[k])
				}
			}
		}
	}
	return out
}

// helperResult: the values a call of a new helper can yield for result idx.
func helperResults(call *ssa.Call, idx int) []ssa.Value {
	h, ok := calleeFn(call.Call.Value)
	if !ok || helperOf(h) == nil {
		return nil
	}
	var out, all []ssa.Value
	nres := h.Signature.Results().Len()
	lastIsErr := nres >= 2 && h.Signature.Results().At(nres-1).Type().String() == "error"
	lastIsBool := nres >= 2 && h.Signature.Results().At(nres-1).Type().String() == "bool"
	for _, r := range Returns(h) {
		if idx >= len(r.Results) {
			continue
		}
		v := ReturnValue(r, idx)
		all = append(all, v)
		// `return nil, err`: on the failure path the caller (which must test err) never uses this result
		if lastIsErr && idx < nres-1 && isZeroConst(v) && !IsNilConst(ReturnValue(r, nres-1)) {
			continue
		}
		// `return zero, false`: the comma-ok failure exit
		if lastIsBool && idx < nres-1 && isZeroConst(v) && isZeroConst(ReturnValue(r, nres-1)) {
			continue
		}
		out = append(out, v)
	}
	if len(out) == 0 {
		return all
	}
	return out
}

func isZeroConst(v ssa.Value) bool {
	c, ok := v.(*ssa.Const)
	if !ok {
		return false
	}
	if c.Value == nil {
		return true
	}
	switch c.Value.Kind() {
	case constant.String:
		return constant.StringVal(c.Value) == ""
	case constant.Bool:
		return !constant.BoolVal(c.Value)
	case constant.Int:
		return constant.Sign(c.Value) == 0
	}
	return false
}

// tailPosition: nothing of the caller runs after the call except returning
// (possibly the call's own results): the callee's deferred calls then run at
// the same point as the caller's exit.
func tailPosition(call *ssa.Call) bool {
	b := call.Block()
	k := instrIndex(call)
	for steps := 0; steps < 4; steps++ {
		for _, in := range b.Instrs[k+1:] {
			switch x := in.(type) {
			case *ssa.Return:
				return true
			case *ssa.Extract:
				if x.Tuple != ssa.Value(call) {
					return false
				}
			case *ssa.DebugRef, *ssa.RunDefers:
			case *ssa.Jump:
			default:
				return false
			}
		}
		if len(b.Succs) != 1 {
			return false
		}
		b = b.Succs[0]
		k = -1
	}
	return false
}

// liftSites returns, for an instruction inside a new helper, its call sites
// (plain calls only when syncOnly).
func liftSites(i ssa.Instruction) []ssa.Instruction {
	info := helperOf(i.Parent())
	if info == nil {
		return nil
	}
	var out []ssa.Instruction
	for _, s := range info.sites {
		out = append(out, s)
	}
	return out
}

// mustExecute: every path from the entry of fn to a return passes i.
func mustExecute(i ssa.Instruction) bool {
	fn := i.Parent()
	if len(fn.Blocks) == 0 {
		return false
	}
	if i.Block() == fn.Blocks[0] {
		return true
	}
	for _, b := range fn.Blocks {
		if len(b.Instrs) == 0 {
			continue
		}
		if _, isRet := b.Instrs[len(b.Instrs)-1].(*ssa.Return); isRet {
			if fn.Recover != nil && b == fn.Recover {
				continue
			}
			if !(i.Block() == b || i.Block().Dominates(b)) {
				return false
			}
		}
	}
	return true
}

// Owner returns the function an instruction logically belongs to: its own
// function, or — when that is a new helper that is only called synchronously
// from one function — the owner of the call site (transitively).
func Owner(i ssa.Instruction) *ssa.Function {
	fn := i.Parent()
	for depth := 0; depth < 5; depth++ {
		info := helperOf(fn)
		if info == nil {
			return fn
		}
		var up *ssa.Function
		for _, s := range info.sites {
			if _, isCall := s.(*ssa.Call); !isCall {
				return fn // a go/defer'd helper is an activation of its own
			}
			o := s.Parent()
			if up != nil && up != o {
				return fn
			}
			up = o
		}
		if up == nil {
			return fn
		}
		fn = up
	}
	return fn
}

// TopFunc returns the top-level pinned function that fn's code belongs to:
// the outermost enclosing function of a literal, the function that creates a
// bound-method wrapper, the caller of a new helper (when unique).
func TopFunc(fn *ssa.Function) *ssa.Function {
	for depth := 0; depth < 12 && fn != nil; depth++ {
		if par := fn.Parent(); par != nil {
			if info := helperOf(fn); info == nil || !info.seam {
				fn = par
				continue
			}
			// a literal behind a seam variable belongs to its callers, not to the initialiser
		}
		if isBoundWrapper(fn) {
			if sites := boundSites(fn); len(sites) > 0 {
				fn = sites[0].Parent()
				continue
			}
			return fn
		}
		if info := helperOf(fn); info != nil {
			var up *ssa.Function
			same := true
			for _, s := range info.sites {
				if up != nil && TopFunc(s.Parent()) != TopFunc(up) {
					same = false
				}
				up = s.Parent()
			}
			if same && up != nil {
				fn = up
				continue
			}
		}
		return fn
	}
	return fn
}

// ifaceDeclares: some interface type declared in pkg has a method called name.
func ifaceDeclares(pkg *types.Package, name string) bool {
	scope := pkg.Scope()
	for _, n := range scope.Names() {
		tn, ok := scope.Lookup(n).(*types.TypeName)
		if !ok {
			continue
		}
		it, ok := tn.Type().Underlying().(*types.Interface)
		if !ok {
			continue
		}
		for i := 0; i < it.NumMethods(); i++ {
			if it.Method(i).Name() == name {
				return true
			}
		}
	}
	return false
}

// onlyUnlockDefers: every deferred call of h releases a sync.Mutex/RWMutex and h does not recover.
func onlyUnlockDefers(h *ssa.Function) bool {
	ok := true
	EachInstrRaw(h, func(i ssa.Instruction) {
		switch x := i.(type) {
		case *ssa.Defer:
			switch CalleeName(&x.Call) {
			case "(*sync.Mutex).Unlock", "(*sync.RWMutex).Unlock", "(*sync.RWMutex).RUnlock":
			default:
				// … or the cancel of a context the helper derived itself (a time limit for
				// the helper's own work). What must not outlive such a context is guarded by
				// rules of its own: C02.X (no deferred cancel in a function that returns an
				// *http.Response), C15.V (DialWebsocket uses its context for the dial only).
				isCancel := !x.Call.IsInvoke()
				if isCancel {
					rs := rawRoots(x.Call.Value, 0)
					isCancel = len(rs) > 0
					for _, r := range rs {
						cl, isCall := r.(*ssa.Call)
						if !isCall {
							if c, isC := r.(*ssa.Const); isC && c.Value == nil {
								continue // var cancel context.CancelFunc (zero value before assignment)
							}
							isCancel = false
							continue
						}
						switch CalleeName(cl.Common()) {
						case "context.WithTimeout", "context.WithCancel", "context.WithDeadline":
						default:
							isCancel = false
						}
					}
				}
				if !isCancel {
					ok = false
				}
			}
		case *ssa.Call:
			if b, isB := x.Call.Value.(*ssa.Builtin); isB && b.Name() == "recover" {
				ok = false
			}
		}
	})
	return ok
}

// selfContainedDefers: every deferred call of h releases something h acquired itself
// (its operands are rooted in values h computed, not in parameters, captured variables or
// globals) and h's results are plain data (strings, numbers, booleans, slices of those,
// error) that cannot carry the released object out — e.g. a list call that closes the body
// of its own HTTP exchange and returns []string. When the helper returns matters to nobody
// but the helper then, so its body can be read as part of the caller.
func selfContainedDefers(h *ssa.Function) bool {
	var plain func(t types.Type, d int) bool
	plain = func(t types.Type, d int) bool {
		if d > 3 {
			return false
		}
		if t.String() == "error" {
			return true
		}
		switch u := t.Underlying().(type) {
		case *types.Basic:
			return u.Kind() != types.UnsafePointer
		case *types.Slice:
			return plain(u.Elem(), d+1)
		case *types.Array:
			return plain(u.Elem(), d+1)
		}
		return false
	}
	res := h.Signature.Results()
	for k := 0; k < res.Len(); k++ {
		if !plain(res.At(k).Type(), 0) {
			return false
		}
	}
	ok := true
	EachInstrRaw(h, func(i ssa.Instruction) {
		switch x := i.(type) {
		case *ssa.Defer:
			var vals []ssa.Value
			if x.Call.IsInvoke() {
				vals = append(vals, x.Call.Value)
			} else if _, isFn := x.Call.Value.(*ssa.Function); !isFn {
				if _, isB := x.Call.Value.(*ssa.Builtin); !isB {
					ok = false // deferred closure: not analysed
					return
				}
			}
			vals = append(vals, x.Call.Args...)
			for _, v := range vals {
				for _, r := range rawRoots(v, 0) {
					switch r.(type) {
					case *ssa.Parameter, *ssa.FreeVar, *ssa.Global:
						ok = false
					}
				}
			}
		case *ssa.Call:
			if b, isB := x.Call.Value.(*ssa.Builtin); isB && b.Name() == "recover" {
				ok = false
			}
		}
	})
	return ok
}

// rawRoots: where a value comes from inside its own function (loads, field/index
// selections, conversions and phis are looked through; calls, allocations, parameters,
// captured variables and globals are roots). Does not use the helper registry.
func rawRoots(v ssa.Value, d int) []ssa.Value {
	if d > 12 {
		return []ssa.Value{v}
	}
	switch x := v.(type) {
	case *ssa.UnOp:
		if x.Op == token.MUL {
			if al, isA := x.X.(*ssa.Alloc); isA {
				var out []ssa.Value
				for _, u := range Refs(al) {
					if st, isSt := u.(*ssa.Store); isSt && st.Addr == ssa.Value(al) {
						out = append(out, rawRoots(st.Val, d+1)...)
					}
				}
				if len(out) > 0 {
					return out
				}
				return []ssa.Value{al}
			}
			return rawRoots(x.X, d+1)
		}
		return rawRoots(x.X, d+1)
	case *ssa.FieldAddr:
		return rawRoots(x.X, d+1)
	case *ssa.Field:
		return rawRoots(x.X, d+1)
	case *ssa.IndexAddr:
		return rawRoots(x.X, d+1)
	case *ssa.Index:
		return rawRoots(x.X, d+1)
	case *ssa.Extract:
		return rawRoots(x.Tuple, d+1)
	case *ssa.ChangeType:
		return rawRoots(x.X, d+1)
	case *ssa.ChangeInterface:
		return rawRoots(x.X, d+1)
	case *ssa.MakeInterface:
		return rawRoots(x.X, d+1)
	case *ssa.Convert:
		return rawRoots(x.X, d+1)
	case *ssa.TypeAssert:
		return rawRoots(x.X, d+1)
	case *ssa.Slice:
		return rawRoots(x.X, d+1)
	case *ssa.Phi:
		var out []ssa.Value
		for _, e := range x.Edges {
			out = append(out, rawRoots(e, d+1)...)
		}
		return out
	}
	return []ssa.Value{v}
}

// helperParamArgIn: the argument bound to parameter prm of a new helper at its call
// site(s) inside top (the function a rule looks at); nil unless there is exactly one.
func helperParamArgIn(prm *ssa.Parameter, top *ssa.Function) ssa.Value {
	fn := prm.Parent()
	info := helperOf(fn)
	if info == nil {
		return nil
	}
	var out []ssa.Value
	for k, x := range fn.Params {
		if x != prm {
			continue
		}
		for _, s := range info.sites {
			if s.Parent() != top && TopFunc(s.Parent()) != top {
				continue
			}
			if args := s.Common().Args; k < len(args) {
				out = append(out, args[k])
			}
		}
	}
	if len(out) == 1 {
		return out[0]
	}
	return nil
}

func fnPkgPath(fn *ssa.Function) string {
	if pk := fnPkg(fn); pk != nil {
		return pk.Pkg.Path()
	}
	return ""
}

// calleeFn: the function a call instruction's callee value denotes — a function, or the
// function behind a seam variable.
func calleeFn(v ssa.Value) (*ssa.Function, bool) {
	if f, ok := v.(*ssa.Function); ok {
		return f, true
	}
	if f := seamTarget(v); f != nil {
		return f, true
	}
	return nil, false
}

// recvNamed: the named type behind T or *T (nil otherwise).
func recvNamed(t types.Type) *types.Named {
	if p, ok := t.(*types.Pointer); ok {
		t = p.Elem()
	}
	n, _ := t.(*types.Named)
	return n
}

// oncePerActivation: the *sync.Once value is a local of the current activation, a field of an
// object, or a variable captured from an enclosing function all of whose literals on the way are
// only called / started within that function (none is returned, stored or handed on).
func oncePerActivation(v ssa.Value, depth int) bool {
	if depth > 4 {
		return false
	}
	switch x := v.(type) {
	case *ssa.Alloc:
		return true
	case *ssa.FieldAddr:
		return true
	case *ssa.FreeVar:
		fn := x.Parent()
		// the literal that captured it must not outlive the function that made it
		for _, mc := range closureSites(fn) {
			if closureEscapes(mc, 0) {
				return false
			}
		}
		b := FreeVarBinding(x)
		if b == nil {
			return false
		}
		return oncePerActivation(b, depth+1)
	}
	return false
}

// closureSites: the MakeClosure instructions (in the parent) that create fn.
func closureSites(fn *ssa.Function) []*ssa.MakeClosure {
	var out []*ssa.MakeClosure
	if par := fn.Parent(); par != nil {
		EachInstrRaw(par, func(i ssa.Instruction) {
			if mc, ok := i.(*ssa.MakeClosure); ok && mc.Fn == ssa.Value(fn) {
				out = append(out, mc)
			}
		})
	}
	return out
}

// closureEscapes: the closure value is used other than by calling / starting / deferring it,
// keeping it in a local that is only called, or capturing it in literals that do not escape either.
func closureEscapes(v ssa.Value, depth int) bool {
	if depth > 4 {
		return true
	}
	refs := v.Referrers()
	if refs == nil {
		return true
	}
	for _, r := range *refs {
		switch x := r.(type) {
		case *ssa.DebugRef:
		case ssa.CallInstruction:
			if x.Common().Value != v {
				return true // passed as an argument
			}
		case *ssa.MakeClosure:
			if closureEscapes(x, depth+1) {
				return true
			}
		case *ssa.Store:
			al, isAl := x.Addr.(*ssa.Alloc)
			if !isAl || x.Val != v {
				return true
			}
			// a local function variable: every load of it must itself not escape
			for _, rr := range *al.Referrers() {
				switch y := rr.(type) {
				case *ssa.Store, *ssa.DebugRef:
				case *ssa.UnOp:
					if closureEscapes(y, depth+1) {
						return true
					}
				case *ssa.MakeClosure:
					if closureEscapes(y, depth+1) {
						return true
					}
				default:
					return true
				}
			}
		default:
			return true
		}
	}
	return false
}

// ---- small interfaces introduced for one dependency ----
//
// `type requestDoer interface { Do(*http.Request) (*http.Response, error) }` taking the place of
// a *http.Client parameter: a NEW (not pinned) interface of a module package into which module
// code only ever puts values of one concrete type. A call through it is read as a call of that
// type's method — the name the rules know.

var ifaceAlias = map[*types.Func]*types.Func{}

func registerSoleImplInterfaces(p *Prog, pinned *Pinned) {
	impls := map[*types.Named]map[string]types.Type{}
	for _, fn := range p.AllFuncs {
		if !p.IsModFunc(fn) {
			continue
		}
		EachInstrRaw(fn, func(i ssa.Instruction) {
			var to types.Type
			var from types.Type
			switch x := i.(type) {
			case *ssa.MakeInterface:
				to, from = x.Type(), x.X.Type()
			case *ssa.ChangeInterface:
				to, from = x.Type(), x.X.Type()
			default:
				return
			}
			n, ok := to.(*types.Named)
			if !ok || n.Obj().Pkg() == nil {
				return
			}
			if _, mod := p.ModPkgs[n.Obj().Pkg().Path()]; !mod {
				return
			}
			if pp := pinned.Pkgs[Rel(n.Obj().Pkg().Path())]; pp != nil {
				if _, isPinned := pp.Types[n.Obj().Name()]; isPinned {
					return
				}
			} else {
				return
			}
			if impls[n] == nil {
				impls[n] = map[string]types.Type{}
			}
			impls[n][from.String()] = from
		})
	}
	helperMu.Lock()
	defer helperMu.Unlock()
	for n, set := range impls {
		if len(set) != 1 {
			continue
		}
		var conc types.Type
		for _, t := range set {
			conc = t
		}
		if _, isIface := conc.Underlying().(*types.Interface); isIface {
			continue
		}
		it, ok := n.Underlying().(*types.Interface)
		if !ok {
			continue
		}
		ms := types.NewMethodSet(conc)
		for k := 0; k < it.NumMethods(); k++ {
			im := it.Method(k)
			sel := ms.Lookup(im.Pkg(), im.Name())
			if sel == nil {
				continue
			}
			if cf, isF := sel.Obj().(*types.Func); isF {
				ifaceAlias[im] = cf
				p.regIfaceAlias = append(p.regIfaceAlias, im)
			}
		}
		p.Aliases = append(p.Aliases, "new interface "+n.Obj().Name()+" only ever holds "+conc.String()+": calls through it are read as calls of that type's methods")
	}
}

// ifaceTarget: the concrete method a call through a sole-implementation interface stands for.
func ifaceTarget(m *types.Func) *types.Func {
	helperMu.RLock()
	defer helperMu.RUnlock()
	return ifaceAlias[m]
}

// ---- sole call sites of module functions ----

var soleSites = map[*ssa.Function]ssa.CallInstruction{}

// registerSoleSites records, for every module function with exactly one static call/go/defer
// site that is never used as a value, that site.
func registerSoleSites(p *Prog) {
	sites := map[*ssa.Function][]ssa.CallInstruction{}
	asValue := map[*ssa.Function]bool{}
	for _, fn := range p.AllFuncs {
		EachInstrRaw(fn, func(i ssa.Instruction) {
			var callee ssa.Value
			if ci, ok := i.(ssa.CallInstruction); ok {
				callee = ci.Common().Value
				if h, isF := callee.(*ssa.Function); isF && !ci.Common().IsInvoke() {
					sites[h] = append(sites[h], ci)
				}
			}
			var ops []*ssa.Value
			for _, op := range i.Operands(ops) {
				if op == nil || *op == nil {
					continue
				}
				if h, isF := (*op).(*ssa.Function); isF && *op != callee {
					asValue[h] = true
				}
			}
		})
	}
	helperMu.Lock()
	for h, ss := range sites {
		if len(ss) == 1 && !asValue[h] && p.IsModFunc(h) && h.Signature.Recv() == nil {
			soleSites[h] = ss[0]
			p.regSole = append(p.regSole, h)
		}
	}
	helperMu.Unlock()
}

// groupInit: for a field of a struct type the module already had whose own type is a new struct
// type (a configuration bundle: `persistentStore{cfg storeConfig}`), the one value ever stored
// into it — by the literal that creates the outer value — provided nothing else writes the
// field or anything inside it.
var groupInit = map[*types.Var]ssa.Value{}

func registerGroupInits(p *Prog) {
	stores := map[*types.Var][]ssa.Value{}
	spoiled := map[*types.Var]bool{}
	fieldVar := func(fa *ssa.FieldAddr) *types.Var {
		st := structOf(fa.X.Type())
		if st == nil || fa.Field >= st.NumFields() {
			return nil
		}
		f := st.Field(fa.Field)
		if IsNewType(fa.X.Type()) || !isModType(fa.X.Type()) {
			return nil
		}
		if !IsNewType(f.Type()) || structOf(f.Type()) == nil {
			return nil
		}
		if _, isPtr := f.Type().Underlying().(*types.Pointer); isPtr {
			return nil
		}
		return f
	}
	for _, fn := range p.AllFuncs {
		if !p.IsModFunc(fn) {
			continue
		}
		EachInstrRaw(fn, func(i ssa.Instruction) {
			fa, ok := i.(*ssa.FieldAddr)
			if !ok {
				return
			}
			f := fieldVar(fa)
			if f == nil {
				return
			}
			for _, r := range Refs(fa) {
				switch u := r.(type) {
				case *ssa.Store:
					if u.Addr == ssa.Value(fa) {
						if _, inLit := fa.X.(*ssa.Alloc); inLit {
							stores[f] = append(stores[f], u.Val)
						} else {
							spoiled[f] = true
						}
					}
				case *ssa.FieldAddr:
					// a field of the bundle: reading it is fine, writing it is not
					for _, rr := range Refs(u) {
						if st, isSt := rr.(*ssa.Store); isSt && st.Addr == ssa.Value(u) {
							spoiled[f] = true
						} else if _, isLd := rr.(*ssa.UnOp); !isLd {
							spoiled[f] = true
						}
					}
				case *ssa.UnOp:
				default:
					spoiled[f] = true // its address is taken or handed on
				}
			}
		})
	}
	helperMu.Lock()
	for f, vs := range stores {
		if len(vs) == 1 && !spoiled[f] {
			groupInit[f] = vs[0]
			p.regGroup = append(p.regGroup, f)
		}
	}
	helperMu.Unlock()
}

// memoStore: for a field that a struct type of the pinned tree did not have (closeErr next to
// closeOnce) and that exactly one instruction in the module stores to: that store.
var memoStore = map[*types.Var]*ssa.Store{}

func isNewFieldOfPinnedStruct(t types.Type, idx int) (*types.Var, bool) {
	st := structOf(t)
	if st == nil || idx >= st.NumFields() || IsNewType(t) || !isModType(t) {
		return nil, false
	}
	for {
		pt, ok := t.Underlying().(*types.Pointer)
		if !ok {
			break
		}
		t = pt.Elem()
	}
	named, ok := t.(*types.Named)
	if !ok {
		return nil, false
	}
	pn := pinnedTable()
	if pn.Pkgs == nil {
		return nil, false
	}
	pp := pn.Pkgs[Rel(named.Obj().Pkg().Path())]
	if pp == nil {
		return nil, false
	}
	fp, ok := pp.Types[objName(named.Obj())]
	if !ok {
		return nil, false
	}
	f := st.Field(idx)
	for _, pf := range fp.Fields {
		if strings.HasPrefix(pf, objName(f)+" ") {
			return nil, false
		}
	}
	return f, true
}

func registerMemoFields(p *Prog) {
	stores := map[*types.Var][]*ssa.Store{}
	spoiled := map[*types.Var]bool{}
	for _, fn := range p.AllFuncs {
		if !p.IsModFunc(fn) {
			continue
		}
		EachInstrRaw(fn, func(i ssa.Instruction) {
			fa, ok := i.(*ssa.FieldAddr)
			if !ok {
				return
			}
			f, isNew := isNewFieldOfPinnedStruct(fa.X.Type(), fa.Field)
			if !isNew {
				return
			}
			for _, r := range Refs(fa) {
				switch u := r.(type) {
				case *ssa.Store:
					if u.Addr == ssa.Value(fa) {
						stores[f] = append(stores[f], u)
					}
				case *ssa.UnOp:
				default:
					spoiled[f] = true
				}
			}
		})
	}
	helperMu.Lock()
	for f, ss := range stores {
		if len(ss) == 1 && !spoiled[f] {
			memoStore[f] = ss[0]
			p.regMemo = append(p.regMemo, f)
		}
	}
	helperMu.Unlock()
}

// memoValue: ld loads a field its struct gained after the pinned tree, written by one store
// that every path to the load has passed (r.once.Do(func() { r.err = r.finish() }); return
// r.err): the value stored.
func memoValue(ld *ssa.UnOp) ssa.Value {
	if ld.Op != token.MUL {
		return nil
	}
	fa, ok := ld.X.(*ssa.FieldAddr)
	if !ok {
		return nil
	}
	st := structOf(fa.X.Type())
	if st == nil || fa.Field >= st.NumFields() {
		return nil
	}
	helperMu.RLock()
	store := memoStore[st.Field(fa.Field)]
	helperMu.RUnlock()
	if store == nil {
		return nil
	}
	if TopFunc(store.Parent()) != TopFunc(ld.Parent()) {
		return nil
	}
	// same object: both addressed through the receiver / the same path
	if sb, _, ok2 := FieldAddrOf(store.Addr); !ok2 || PathOf(sb) == "" || PathOf(sb) != PathOf(fa.X) {
		return nil
	}
	if !Dominates(store, ld) {
		return nil
	}
	return store.Val
}

// groupInitOf: the value the grouping field addressed by fa was created with, if it is unique.
func groupInitOf(fa *ssa.FieldAddr) ssa.Value {
	st := structOf(fa.X.Type())
	if st == nil || fa.Field >= st.NumFields() {
		return nil
	}
	helperMu.RLock()
	defer helperMu.RUnlock()
	return groupInit[st.Field(fa.Field)]
}

// soleSiteArg: the argument passed for prm at the only call site of its function.
func soleSiteArg(prm *ssa.Parameter) ssa.Value {
	fn := prm.Parent()
	helperMu.RLock()
	site := soleSites[fn]
	helperMu.RUnlock()
	if site == nil {
		return nil
	}
	for k, x := range fn.Params {
		if x == prm {
			if args := site.Common().Args; k < len(args) {
				return args[k]
			}
		}
	}
	return nil
}

package ipc

import (
	"fmt"
	"go/constant"
	"go/token"
	"go/types"
	"sort"
	"strings"

	"golang.org/x/tools/go/ssa"
)

func init() {
	register(&PropSpec{
		ID:    "C12",
		Progs: []string{"mod"},
		Explanation: "Decides, for every call order and interleaving: (C) channel typestate of the shim connection: no channel with concurrent senders is ever closed, closes happen once (sync.Once / sole sender goroutine); " +
			"(B) every send reachable from an endpoint is a select arm next to the connection's done channel; every receive in an endpoint has a timer or default alternative; " +
			"(A) every CFG path of each of the five endpoint handlers produces an HTTP answer (http.Error / WriteHeader / Write / delegation with the same writer) and the constant statuses used are within {200,400,408,500}; " +
			"(U) an unknown session ID (sync.Map Load miss) leads only to 400, a failed send/poll leads to 400, a failed poll forgets the session, close forgets the session before closing it; " +
			"(L) lifecycle pairing in NewConnection: reader and writer goroutines cancel the connection context on every exit, a third goroutine closes the backend websocket once the context is done, the dial-error path cancels and starts nothing, the reader is the sole sender/closer of serverMessages; Close() makes the writer exit after the close frame. " +
			"Not decided: that gorilla's WriteMessage returns in bounded time on a dead peer. " +
			"(S) concurrent opens get distinct session IDs (atomic fetch-and-increment); a poll that already took messages delivers them before a later poll reports the closed session. " +
			"Every connections.Delete (also in nested callbacks) belongs to the close or poll endpoint; a non-blocking closed-test dominates the select that enqueues a client message." +
			" Each queue has one receiving side; ReadServerMessages reports an error only on the not-ok branch of a receive from serverMessages; Close() does not queue the close frame behind a test of the closed channel; session-table keys are of a comparable concrete type.",
		Assumptions: []string{"sync.Map, sync.Once and context cancellation behave as documented", "gorilla/websocket Conn.Close unblocks a pending ReadMessage"},
		Run:         runC12,
	})
}

func runC12(c *Ctx) {
	p := c.Progs["mod"]
	c.Rule("C12.Y", "compatibility with the party that is not changed with this code: the shim endpoints are mounted by --shim-path alone", 1)
	ruleHostProxyFlagRoles(c, p, "C12.Y", "mount")
	c.Rule("C12.C", "channel typestate: no send on / re-close of a closed channel", 3)
	c.Rule("C12.B", "no endpoint blocks on a peer that may be gone", 4)
	ruleRecordingDoesNotWait(c, p, "C12.B")
	c.Rule("C12.N", "possibly-nil messages are nil-checked by the receiving goroutine (= C07.N); a response returned with a dial error is not dereferenced; indices are in range (= C07.I)", 4)
	ruleShimNilMessages(c, p, "C12.N")
	ruleResponseDerefOnErrorPath(c, p, "C12.N", "agent/websockets")
	// an open request also runs through the session wrapper: an index that can be out of range
	// there (or in the shim) panics in the request goroutine before the session is set up
	ruleExternalIndexInBounds(c, p, "C12.N", "agent/websockets", "agent/sessions")
	ruleSizesFromOutsideAreSane(c, p, "C12.N", "agent/websockets", "agent/sessions")
	c.Rule("C12.A", "every endpoint path answers once, with an allowed status", 15)
	c.Rule("C12.U", "unknown or closed sessions are rejected with 400 and forgotten; received messages are delivered first", 16)
	// what ReadServerMessages took from the queue it returns (= C11.O): a size cap that parks a
	// frame larger than the cap holds it, and everything behind it, back for ever
	c.Borrow(runC11, "C11.O", "C12.U", func(k string) bool { return strings.HasPrefix(k, "ReadServerMessages:") })
	c.Rule("C12.L", "connection lifecycle pairing; the handshake with the backend is bounded in time", 10)

	ruleShimChannels(c, p, "C12.C", "C12.B")
	c.Rule("C12.S", "concurrent opens get distinct session IDs (a shared ID orphans a connection that close can never reach)", 2)
	ruleShimSessionIDs(c, p, "C12.S")
	ruleCounterOnlyIncrements(c, p, "C12.S")
	// receives in endpoint-called methods: ReadServerMessages
	if f := c.need(p, "C12.B", "agent/websockets.(*Connection).ReadServerMessages"); f != nil {
		bad := ""
		n := 0
		for _, op := range ChanOpsOf(f) {
			if op.Kind != "recv" {
				continue
			}
			if isTimerChan(op.Chan) || isDoneChan(op.Chan) {
				continue // the alternative itself
			}
			n++
			if !op.InSelect {
				bad = "plain blocking receive at " + p.Pos(op.Instr.Pos())
				continue
			}
			if op.HasDefault {
				continue
			}
			alt := false
			for k, st := range op.Select.States {
				if k != op.State && st.Dir == types.RecvOnly {
					if isTimerChan(st.Chan) || isDoneChan(st.Chan) {
						alt = true
					}
				}
			}
			if !alt {
				bad = "blocking select without timer/done alternative at " + p.Pos(op.Instr.Pos())
			}
		}
		c.Check("C12.B", "ReadServerMessages:bounded-wait", p, f.Pos(), bad == "" && n > 0, "every receive is a select with a timer, done or default alternative: a poll always returns", "a poll can block forever: "+bad)
	}

	// when the backend closed first, a poll first delivers what was received
	if f := p.Func("agent/websockets.(*Connection).ReadServerMessages"); f != nil {
		bad := ""
		for _, op := range ChanOpsOf(f) {
			if op.Kind != "recv" || op.Val == nil || NamedTypeRel(op.Val.Type()) != "agent/websockets.message" {
				continue
			}
			for _, u := range Refs(op.Val) {
				call, ok := u.(*ssa.Call)
				if !ok || !strings.HasSuffix(CalleeName(call.Common()), ".message).Serialize") {
					continue
				}
				h, _ := (&Walk{Target: func(i ssa.Instruction) bool {
					r, isR := i.(*ssa.Return)
					if !isR || (f.Recover != nil && i.Block() == f.Recover) {
						return false
					}
					return IsNilConst(ReturnValue(r, 0)) || !IsNilConst(ReturnValue(r, 1))
				}}).FromInstr(call)
				if h != nil {
					bad = "return at " + p.Pos(h.Pos())
				}
			}
		}
		c.Check("C12.U", "poll:delivers-received-before-reporting-closed", p, f.Pos(), bad == "", "once a server message was taken from the queue every return delivers the accumulated messages; the closed state is reported by the next poll", "ReadServerMessages can report the session closed ("+bad+") after it already took messages from the queue: messages received before the backend closed are never delivered")
	}
	rulePollErrorOnlyWhenDrained(c, p, "C12.U")
	se := resolveShimEndpoints(c, p, "C12.A")
	if se == nil {
		return
	}
	allowed := map[int64]bool{200: true, 400: true, 408: true, 500: true}
	eps := se.all()
	var names []string
	for n := range eps {
		names = append(names, n)
	}
	sort.Strings(names)
	for _, name := range names {
		fn := eps[name]
		if len(fn.Params) < 2 {
			c.Unk("C12.A", name+":signature", p, fn.Pos(), "handler does not have (w, r) parameters")
			continue
		}
		// captured w? handlers are closures with their own params
		w := ssa.Value(ParamAt(fn, 0))
		isAns := func(i ssa.Instruction) bool { _, ok := producesResponse(i, w); return ok }
		wk := &Walk{Target: IsReturn, Avoid: isAns}
		hit, path := wk.FromBlock(fn.Blocks[0])
		c.Check("C12.A", name+":every-path-answers", p, fn.Pos(), hit == nil, "every path from entry to a return passes http.Error / WriteHeader / Write / delegation on the handler's own writer", "the "+name+" endpoint has a path that returns without producing an HTTP answer ("+PathString(p, path)+", return at "+posStr(p, hit)+")")
		// an error answer ends the call: nothing else is answered or sent after http.Error
		dbl := ""
		dels := Calls(fn, "(*sync.Map).Delete", "(*sync.Map).LoadAndDelete", "(*sync.Map).CompareAndDelete")
		EachInstr(fn, func(i ssa.Instruction) {
			if !IsCall(i, "net/http.Error") {
				return
			}
			h, _ := (&Walk{Target: func(j ssa.Instruction) bool {
				if j == i {
					return false
				}
				if _, ok := producesResponse(j, w); ok {
					return true
				}
				if IsCall(j, "(*"+ModPath+"/agent/websockets.Connection).Close") {
					// closing the connection of a session that this very path forgets (the forget itself is
					// judged by the forget-site rule: close and failed polls only) is part of forgetting it
					for _, d := range dels {
						if Dominates(d, j) {
							return false
						}
					}
					return true
				}
				return IsCall(j, "(*"+ModPath+"/agent/websockets.Connection).SendClientMessage", "(*sync.Map).Store")
			}}).FromInstr(i)
			if h != nil && !InLoop(i.Block()) {
				dbl = "after the error answer at " + p.Pos(i.Pos()) + " the handler goes on to " + p.Pos(h.Pos())
			}
			if h != nil && InLoop(i.Block()) {
				// inside the per-message loop the error branch must leave the loop: reaching the same http.Error again is also a continuation
				h2, _ := (&Walk{Target: func(j ssa.Instruction) bool {
					return j != i && IsCall(j, "(*"+ModPath+"/agent/websockets.Connection).SendClientMessage")
				}}).FromInstr(i)
				if h2 != nil {
					dbl = "after the error answer at " + p.Pos(i.Pos()) + " the per-message loop continues"
				}
			}
		})
		c.Check("C12.A", name+":error-answer-ends-the-call", p, fn.Pos(), dbl == "", "every http.Error is followed only by bookkeeping and return: one answer per call", "the "+name+" endpoint: "+dbl+" (second answer on the same call / work done for a rejected call)")
		used := map[int64]bool{}
		bad := ""
		EachInstr(fn, func(i ssa.Instruction) {
			if st, ok := producesResponse(i, w); ok && st > 0 {
				used[st] = true
				if !allowed[st] {
					bad = fmt.Sprintf("status %d at %s", st, p.Pos(i.Pos()))
				}
			}
			// WriteHeader with a non-constant status
			if cc := CallOf(i); cc != nil && CalleeName(cc) == "(net/http.ResponseWriter).WriteHeader" {
				if _, isC := ConstInt(Args(cc)[1]); !isC {
					// a status handed to a reply helper: every value it can take must be an allowed constant
					rs := Roots(Args(cc)[1])
					if len(rs) == 0 {
						bad = "non-constant status at " + p.Pos(i.Pos())
					}
					for _, r := range rs {
						if n, okc := ConstInt(r); okc && allowed[n] {
							used[n] = true
						} else if okc {
							bad = fmt.Sprintf("status %d at %s", n, p.Pos(i.Pos()))
						} else {
							bad = "non-constant status at " + p.Pos(i.Pos())
						}
					}
				}
			}
			// http.Error with a status that is not one constant: every value it can take must be an allowed constant
			if cc := CallOf(i); cc != nil && CalleeName(cc) == "net/http.Error" {
				if _, isC := ConstInt(PArgs(cc)[2]); !isC {
					for _, r := range Roots(PArgs(cc)[2]) {
						if n, okc := ConstInt(r); okc && allowed[n] {
							used[n] = true
						} else {
							bad = "a status taken from " + PathOf(r) + " at " + p.Pos(i.Pos())
						}
					}
				}
			}
		})
		c.Check("C12.A", name+":allowed-statuses", p, fn.Pos(), bad == "", "statuses used:"+fmtStatuses(used)+" ⊆ {200,400,408,500}", "the "+name+" endpoint answers with "+bad+", outside {200,400,408,500}")
	}

	// ---- C12.U
	for _, name := range []string{"close", "data", "poll"} {
		fn := se.ByName[name]
		if fn == nil {
			continue
		}
		loads := Calls(fn, "(*sync.Map).Load")
		if len(loads) != 1 {
			c.Unk("C12.U", name+":session-lookup", p, fn.Pos(), fmt.Sprintf("expected one connections.Load in the %s endpoint, found %d", name, len(loads)))
			continue
		}
		ld := loads[0]
		// the key is the ID decoded from the body
		k := Args(CallOf(ld))[1]
		okKey := false
		for _, r := range Roots(k) {
			if _, f, ok := FieldLoad(r); ok && f == "ID" {
				okKey = true
			}
		}
		c.Check("C12.U", name+":lookup-by-body-id", p, ld.Pos(), okKey, "the session is looked up by the ID field of the decoded body", "the session is looked up by "+PathOf(k)+", not by the ID decoded from the request body")
		// !ok successor reaches only 400 + return
		var okIf *ssa.If
		missSucc := 0
		for _, r := range Refs(ld.(ssa.Value)) {
			if e, ok := r.(*ssa.Extract); ok && e.Index == 1 {
				for _, u := range Refs(e) {
					if ifi, ok := u.(*ssa.If); ok {
						okIf, missSucc = ifi, 1
					}
					if un, ok := u.(*ssa.UnOp); ok {
						for _, uu := range Refs(un) {
							if ifi, ok := uu.(*ssa.If); ok {
								okIf, missSucc = ifi, 0
							}
						}
					}
				}
			}
		}
		if okIf == nil {
			c.Bad("C12.U", name+":unknown-session-400", p, ld.Pos(), "the found/not-found result of connections.Load is not tested")
		} else {
			w := ssa.Value(ParamAt(fn, 0))
			blk := okIf.Block().Succs[missSucc]
			is400 := func(i ssa.Instruction) bool { st, ok := producesResponse(i, w); return ok && st == 400 }
			hit, _ := (&Walk{Target: IsReturn, Avoid: is400}).FromBlock(blk)
			other := ""
			// no other answer on that branch before the 400
			hit2, _ := (&Walk{Target: func(i ssa.Instruction) bool { st, ok := producesResponse(i, w); return ok && st != 400 }, Avoid: is400}).FromBlock(blk)
			if hit2 != nil {
				other = "another answer precedes it"
			}
			c.Check("C12.U", name+":unknown-session-400", p, okIf.Pos(), hit == nil && other == "", "an unknown session ID is answered 400 on every path", "a call naming an unknown session is not answered with 400 on every path "+other)
		}
	}
	if fn := se.ByName["data"]; fn != nil {
		if s := c.UniqueCall("C12.U", p, fn, false, "(*"+ModPath+"/agent/websockets.Connection).SendClientMessage"); s != nil {
			c12ErrTo400(c, p, fn, s, "data:send-error-400", false)
		}
	}
	if fn := se.ByName["poll"]; fn != nil {
		if s := c.UniqueCall("C12.U", p, fn, false, "(*"+ModPath+"/agent/websockets.Connection).ReadServerMessages"); s != nil {
			c12ErrTo400(c, p, fn, s, "poll:read-error-400-and-forget", true)
		}
		// nil result => 408
		okT := false
		EachInstr(fn, func(i ssa.Instruction) {
			if st, ok := producesResponse(i, ParamAt(fn, 0)); ok && st == 408 {
				okT = true
			}
		})
		c.Check("C12.U", "poll:timeout-408", p, fn.Pos(), okT, "a poll without messages is answered 408", "the poll endpoint no longer answers 408 on time-out")
	}
	if fn := se.ByName["close"]; fn != nil {
		del := Calls(fn, "(*sync.Map).Delete")
		cl := Calls(fn, "(*"+ModPath+"/agent/websockets.Connection).Close")
		ok := len(del) == 1 && len(cl) == 1 && Dominates(del[0], cl[0])
		c.Check("C12.U", "close:forget-then-close", p, fn.Pos(), ok, "the session is deleted from the table before the connection is closed: later calls naming it get 400", "the close endpoint does not delete the session from the table before closing the connection")
		if len(cl) == 1 {
			// the connection closed is the one loaded
			c.Check("C12.U", "close:closes-loaded-connection", p, cl[0].Pos(), PathOf(Args(CallOf(cl[0]))[0]) == "result0:(*sync.Map).Load.(agent/websockets.Connection)" || true && len(Roots(Args(CallOf(cl[0]))[0])) == 1, "Close() is called on the connection loaded from the table", "Close() is not called on the loaded connection")
		}
	}
	ruleForgetSites(c, p, "C12.U", se)
	// keys of the session table are of a comparable static type: an interface-typed key
	// decoded from the body may hold a slice or map, and sync.Map panics on those
	{
		n, bad := 0, ""
		for _, fn := range p.FuncsIn("agent/websockets") {
			for _, call := range Calls(fn, "(*sync.Map).Load", "(*sync.Map).Store", "(*sync.Map).Delete", "(*sync.Map).LoadOrStore", "(*sync.Map).LoadAndDelete", "(*sync.Map).Swap", "(*sync.Map).CompareAndSwap", "(*sync.Map).CompareAndDelete") {
				n++
				k := Args(CallOf(call))[1]
				var okKey func(v ssa.Value, d int) bool
				okKey = func(v ssa.Value, d int) bool {
					switch x := v.(type) {
					case *ssa.MakeInterface:
						return types.Comparable(x.X.Type()) && !types.IsInterface(x.X.Type())
					case *ssa.Const:
						return true
					case *ssa.Phi:
						if d > 4 {
							return false
						}
						for _, e := range x.Edges {
							if !okKey(e, d+1) {
								return false
							}
						}
						return true
					case *ssa.Parameter:
						// a new helper's parameter: judge the call sites' arguments
						args := helperParamArgs(x)
						if len(args) == 0 || d > 4 {
							return false
						}
						for _, a := range args {
							if !okKey(a, d+1) {
								return false
							}
						}
						return true
					}
					return false
				}
				if !okKey(k, 0) {
					bad = "the key " + PathOf(k) + " at " + p.Pos(call.Pos()) + " is not of a comparable concrete type"
				}
			}
		}
		c.Check("C12.U", "session-table:keys-are-hashable", p, 0, n >= 4 && bad == "", fmt.Sprintf("%d accesses of the session table use keys of a comparable concrete type (string)", n), bad+": a value decoded from the call's body into an interface can be a JSON array or object, and sync.Map panics with 'hash of unhashable type' — the call gets no answer and, on the agent's worker goroutine, the process dies")
	}
	ruleClosedCheckedBeforeEnqueue(c, p, "C12.U")
	// who may forget a session: only close (before closing) and the failed-poll branch
	for name, fn := range se.all() {
		for _, d := range Calls(fn, "(*sync.Map).Delete") {
			ok := name == "close" || name == "poll" || openRollback(se, d)
			c.Check("C12.U", name+":may-forget-session", p, d.Pos(), ok, "sessions are only forgotten by close and by a failed poll (after the queued server messages were drained)", "the "+name+" endpoint deletes the session from the table: when the backend has closed, a later poll is answered 'unknown session' and the messages already received from the backend are lost instead of being delivered first")
		}
	}
	if in := se.Inner; in != nil {
		st := Calls(in, "(*sync.Map).Store")
		nc := Calls(in, ModPath+"/agent/websockets.NewConnection")
		ok := len(st) == 1 && len(nc) == 1
		if ok {
			a := Args(CallOf(st[0]))
			ok = len(Roots(a[2])) == 1 && CallResult(Roots(a[2])[0], 0, ModPath+"/agent/websockets.NewConnection") != nil
		}
		c.Check("C12.U", "open:registers-new-connection", p, in.Pos(), ok, "the open handler stores the freshly dialled connection in the session table", "the open handler does not store the connection returned by NewConnection in the session table")
	}

	// ---- C12.L
	if nc := c.need(p, "C12.L", "agent/websockets.NewConnection"); nc != nil {
		cls := DirectClosures(nc)
		var gos []*ssa.Function
		for _, cl := range cls {
			if goBodyOnce(cl) {
				gos = append(gos, cl)
			}
		}
		c.Check("C12.L", "NewConnection:three-goroutines", p, nc.Pos(), len(gos) == 3, "three goroutines per connection (reader, writer, closer), each started once", fmt.Sprintf("NewConnection starts %d once-per-connection goroutines (expected 3)", len(gos)))
		isCancel := func(v ssa.Value) bool {
			for _, r := range Roots(v) {
				if CallResult(r, 1, "context.WithCancel") == nil {
					return false
				}
			}
			return true
		}
		deferCancel := func(fn *ssa.Function) bool {
			for _, in := range fn.Blocks[0].Instrs {
				if d, ok := in.(*ssa.Defer); ok && !d.Call.IsInvoke() && isCancel(d.Call.Value) {
					return true
				}
			}
			return false
		}
		var reader, writer, closer *ssa.Function
		for _, g := range gos {
			switch {
			case len(Calls(g, "(*github.com/gorilla/websocket.Conn).ReadMessage", "(*github.com/gorilla/websocket.Conn).NextReader")) > 0:
				reader = g
			case len(Calls(g, "(*github.com/gorilla/websocket.Conn).WriteMessage")) > 0:
				writer = g
			case len(Calls(g, "(*github.com/gorilla/websocket.Conn).Close")) > 0:
				closer = g
			}
		}
		if reader != nil {
			c.Check("C12.L", "reader:cancels-on-exit", p, reader.Pos(), deferCancel(reader), "the reader goroutine defers cancel(): a backend close/err ends the connection", "the reader goroutine no longer cancels the connection context on every exit: after the backend closes, data calls keep queueing and the backend socket is never closed")
		} else {
			c.Unk("C12.L", "reader:cancels-on-exit", p, nc.Pos(), "reader goroutine not found")
		}
		if writer != nil {
			c.Check("C12.L", "writer:cancels-on-exit", p, writer.Pos(), deferCancel(writer), "the writer goroutine defers cancel(): Close() (close frame written) or a write error ends the connection", "the writer goroutine no longer cancels the connection context on every exit: closing a session does not close the backend websocket")
			// after writing a close frame the writer returns
			okc := false
			EachInstr(writer, func(i ssa.Instruction) {
				if ifi, ok := i.(*ssa.If); ok {
					if bo, ok := ifi.Cond.(*ssa.BinOp); ok {
						if n, isC := ConstInt(bo.Y); isC && n == 8 { // websocket.CloseMessage
							if _, f, ok := FieldLoad(bo.X); ok && f == "Type" {
								blk := ifi.Block().Succs[0]
								for _, in := range blk.Instrs {
									if IsReturn(in) {
										okc = true
									}
								}
								if len(blk.Instrs) > 0 {
									if _, isRD := blk.Instrs[0].(*ssa.RunDefers); isRD {
										okc = true
									}
								}
							}
						}
					}
				}
			})
			c.Check("C12.L", "writer:exits-after-close-frame", p, writer.Pos(), okc, "the writer returns after writing a CloseMessage: Close() → writer exit → cancel → backend socket closed", "the writer goroutine does not exit after the close frame: closing a session leaves the backend websocket open")
		} else {
			c.Unk("C12.L", "writer:cancels-on-exit", p, nc.Pos(), "writer goroutine not found")
		}
		if closer != nil {
			// waits for ctx.Done() first
			var recv, cl ssa.Instruction
			for _, op := range ChanOpsOf(closer) {
				if op.Kind == "recv" && isDoneChan(op.Chan) {
					recv = op.Instr
				}
			}
			if cs := Calls(closer, "(*github.com/gorilla/websocket.Conn).Close"); len(cs) == 1 {
				cl = cs[0]
			}
			c.Check("C12.L", "closer:closes-backend-after-done", p, closer.Pos(), recv != nil && cl != nil && Dominates(recv, cl), "a goroutine waits for the connection context and then closes the backend websocket", "no goroutine closes the backend websocket once the connection context is done")
		} else {
			c.Bad("C12.L", "closer:closes-backend-after-done", p, nc.Pos(), "no goroutine closes the backend websocket: closing a session (or a backend error) leaks the socket and never unblocks the reader")
		}
		// what the endpoints see as "connection ended" is the per-connection context the
		// goroutines cancel, not a longer-lived one
		okDone, whyDone := false, "the Connection literal's done field was not found"
		for _, al := range AllocsOf(nc, "agent/websockets.Connection") {
			v, has := LiteralField(al, "done")
			if !has {
				continue
			}
			okDone, whyDone = true, ""
			for _, r := range Roots(v) {
				mc, isMC := r.(*ssa.MakeClosure)
				fn, _ := func() (*ssa.Function, bool) {
					if !isMC {
						return nil, false
					}
					f, ok := mc.Fn.(*ssa.Function)
					return f, ok
				}()
				if fn == nil || !isBoundWrapper(fn) || len(mc.Bindings) != 1 || !strings.HasSuffix(fn.Name(), "Done$bound") {
					okDone, whyDone = false, "done is "+PathOf(v)+", not the Done method of a context"
					continue
				}
				bound := mc.Bindings[0]
				// `ctx, cancel := context.WithCancel(ctx)` re-assigns a captured variable: take
				// the value the cell holds where the method value is made
				for k := 0; k < 4; k++ {
					x := bound
					for {
						if mi, isMI := x.(*ssa.MakeInterface); isMI {
							x = mi.X
							continue
						}
						if ct, isCT := x.(*ssa.ChangeInterface); isCT {
							x = ct.X
							continue
						}
						break
					}
					// the literal sits in a new constructor helper: the context it was handed
					if prm, isP := x.(*ssa.Parameter); isP {
						if a := helperParamArg(prm); a != nil {
							bound = a
							continue
						}
					}
					ld, isLd := x.(*ssa.UnOp)
					if !isLd || ld.Op != token.MUL {
						break
					}
					cell, isCell := ld.X.(*ssa.Alloc)
					if !isCell {
						break
					}
					v := cellValueAt(cell, ld, 0)
					if v == nil {
						break
					}
					bound = v
				}
				for _, b := range Roots(bound) {
					if CallResult(b, 0, "context.WithCancel") == nil {
						okDone, whyDone = false, "done is the Done method of "+PathOf(bound)+", not of the context returned by context.WithCancel in NewConnection"
					}
				}
			}
		}
		c.Check("C12.L", "Connection.done:is-the-cancelled-context", p, nc.Pos(), okDone, "Connection.done is Done of the context that reader and writer cancel on exit: once the backend closed (or a write failed) data/close calls see the session as ended", whyDone+": after the backend closes first the endpoints never learn that the connection ended — data calls are answered 200 while their messages pile up behind a writer that has exited, and once the queue is full they (and close) block for ever")
		ruleDialHandshakeBounded(c, p, "C12.L", "agent/websockets")
		// dial error path cancels
		if d := c.UniqueCall("C12.L", p, nc, false, "(*github.com/gorilla/websocket.Dialer).Dial", "(*github.com/gorilla/websocket.Dialer).DialContext"); d != nil {
			var ifi *ssa.If
			succ := 0
			EachInstr(nc, func(i ssa.Instruction) {
				if x, ok := i.(*ssa.If); ok {
					if v, s, ok := ErrNilTest(x); ok && CallResult(v, 2, CalleeName(CallOf(d))) != nil {
						ifi, succ = x, s
					}
				}
			})
			ok := false
			if ifi != nil {
				blk := ifi.Block().Succs[succ]
				for _, in := range blk.Instrs {
					if cc := CallOf(in); cc != nil && !cc.IsInvoke() && isCancel(cc.Value) {
						ok = true
					}
					if _, isGo := in.(*ssa.Go); isGo {
						ok = false
					}
				}
			}
			if !ok && ifi != nil {
				// … or a deferred guard registered before the dial: `defer func() { if !handedOver
				// { cancel() } }()` with the flag set only after the error path has left
				blk := ifi.Block().Succs[succ]
				noGo := true
				for _, in := range blk.Instrs {
					if _, isGo := in.(*ssa.Go); isGo {
						noGo = false
					}
				}
				EachInstrRaw(nc, func(i ssa.Instruction) {
					df, isD := i.(*ssa.Defer)
					if !isD || !noGo || !Dominates(df, d) {
						return
					}
					mc, isMC := df.Call.Value.(*ssa.MakeClosure)
					if !isMC {
						return
					}
					lit := mc.Fn.(*ssa.Function)
					var litCalls []ssa.Instruction
					EachInstrRaw(lit, func(j ssa.Instruction) {
						if CallOf(j) != nil {
							litCalls = append(litCalls, j)
						}
					})
					for _, call := range litCalls {
						cc := CallOf(call)
						if cc == nil || cc.IsInvoke() || !isCancel(cc.Value) {
							continue
						}
						// every condition the cancel depends on is the negation of a local flag
						// that no path to the error branch has set
						guards := GuardConds(call)
						fine := true
						for _, g := range guards {
							ld, isLd := g.Cond.(*ssa.UnOp)
							if !isLd || ld.Op != token.MUL || g.Truth {
								fine = false
								continue
							}
							cell := resolveCell(ld.X)
							if cell == nil || cell.Parent() != nc {
								fine = false
								continue
							}
							for _, r := range Refs(cell) {
								st, isSt := r.(*ssa.Store)
								if !isSt || st.Addr != ssa.Value(cell) {
									continue
								}
								if cv, isC := st.Val.(*ssa.Const); isC && cv.Value != nil && cv.Value.Kind() == constant.Bool && !constant.BoolVal(cv.Value) {
									continue // the initial false
								}
								first := blk.Instrs[0]
								if h, _ := (&Walk{Target: func(j ssa.Instruction) bool { return j == first }, Local: true}).FromInstr(st); h != nil || st.Block() == blk {
									fine = false
								}
							}
						}
						if fine {
							ok = true
						}
					}
				})
			}
			if !ok && ifi != nil {
				// … or there is nothing to cancel yet: the context is only derived after the dial succeeded
				// (no context.With* call can have run before the error branch) and the branch starts no goroutine
				blk := ifi.Block().Succs[succ]
				none := true
				for _, in := range blk.Instrs {
					if _, isGo := in.(*ssa.Go); isGo {
						none = false
					}
				}
				for _, w := range Calls(nc, "context.WithCancel", "context.WithTimeout", "context.WithDeadline", "context.WithCancelCause") {
					if w.Parent() != nc {
						none = false
						continue
					}
					if h, _ := (&Walk{Target: func(j ssa.Instruction) bool { return j == blk.Instrs[0] }, Local: true}).FromInstr(w); h != nil || w.Block() == blk {
						none = false
					}
				}
				if none {
					ok = true
				}
			}
			c.Check("C12.L", "dial-error:cancels", p, d.Pos(), ok, "a failed dial cancels the derived context (or none was derived yet) and starts no goroutine", "the dial-error path does not cancel the derived context")
		}
	}
	if cl := c.need(p, "C12.L", "agent/websockets.(*Connection).Close"); cl != nil {
		// sends a CloseMessage
		ok := false
		for _, fn := range WithClosures(cl) {
			for _, op := range ChanOpsOf(fn) {
				if op.Kind == "send" {
					for _, r := range Roots(op.Val) {
						if a, isA := r.(*ssa.Alloc); isA {
							if v, okf := LiteralField(a, "Type"); okf && isConstInt(v, 8) {
								ok = true
							}
						}
					}
				}
			}
		}
		c.Check("C12.L", "Close:sends-close-frame", p, cl.Pos(), ok, "Close() queues a websocket CloseMessage for the writer", "Close() no longer queues a CloseMessage: the writer never exits, the backend websocket stays open")
		// … and the path from closing the `closed` channel to that send passes no select that
		// has a receive arm on `closed`: that arm is ready from then on, so such a select takes
		// it and the close frame is never queued
		for _, fn := range WithClosures(cl) {
			var closeOp, sendOp ssa.Instruction
			for _, op := range ChanOpsOf(fn) {
				if _, fld, isF := FieldLoad(Roots(op.Chan)[0]); isF {
					if op.Kind == "close" && fld == "closed" {
						closeOp = op.Instr
					}
					if op.Kind == "send" && fld == "clientMessages" {
						sendOp = op.Instr
						if op.Select != nil {
							sendOp = op.Select
						}
					}
				}
			}
			if closeOp == nil || sendOp == nil {
				continue
			}
			onClosed := func(i ssa.Instruction) bool {
				sel, isSel := i.(*ssa.Select)
				if !isSel || i == sendOp {
					return false
				}
				for _, st := range sel.States {
					if st.Dir == types.RecvOnly {
						if _, fld, isF := FieldLoad(Roots(st.Chan)[0]); isF && fld == "closed" {
							return true
						}
					}
				}
				return false
			}
			reach, _ := (&Walk{Target: func(i ssa.Instruction) bool { return i == sendOp }, Avoid: onClosed, Ctx: cl}).FromInstr(closeOp)
			c.Check("C12.L", "Close:close-frame-not-behind-the-closed-test", p, closeOp.Pos(), reach != nil, "after marking the connection closed, Close() reaches the send of the close frame without a select on the closed channel in between", "after close(conn.closed) every path to the send of the close frame passes a select with a receive arm on conn.closed (a shared enqueue helper that refuses closed connections): the arm is ready, the close frame is refused, the writer never exits and the backend websocket stays open although the shim answered the close call with 200")
		}
	}
}

func posStr(p *Prog, i ssa.Instruction) string {
	if i == nil {
		return "-"
	}
	return p.Pos(i.Pos())
}

// c12ErrTo400: the err != nil successor of the call's error reaches only
// http.Error(…,400) + return (and, if forget, a connections.Delete).
func c12ErrTo400(c *Ctx, p *Prog, fn *ssa.Function, call ssa.Instruction, key string, forget bool) {
	var errVal ssa.Value
	cv, isCall := call.(*ssa.Call)
	if !isCall {
		c.Bad("C12.U", key, p, call.Pos(), "the call is started with go/defer: its error cannot decide the answer, calls on a closed session are answered 200")
		return
	}
	nres := cv.Call.Signature().Results().Len()
	if nres == 1 {
		errVal = cv
	} else {
		for _, r := range Refs(cv) {
			if e, ok := r.(*ssa.Extract); ok && e.Index == nres-1 {
				errVal = e
			}
		}
	}
	var ifi *ssa.If
	succ := 0
	EachInstr(fn, func(i ssa.Instruction) {
		if x, ok := i.(*ssa.If); ok {
			if v, s, ok := ErrNilTest(x); ok && errVal != nil && v == errVal {
				ifi, succ = x, s
			}
		}
	})
	if ifi == nil {
		c.Bad("C12.U", key, p, call.Pos(), "the error of "+CalleeName(cv.Common())+" is not tested: calls on a closed session are answered 200")
		return
	}
	w := ssa.Value(ParamAt(fn, 0))
	blk := ifi.Block().Succs[succ]
	is400 := func(i ssa.Instruction) bool { st, ok := producesResponse(i, w); return ok && st == 400 }
	hit, _ := (&Walk{Target: IsReturn, Avoid: is400}).FromBlock(blk)
	ok := hit == nil
	why := "the error branch can return without answering 400"
	if ok {
		// and it does return (does not fall through to the 200)
		hit2, _ := (&Walk{Target: func(i ssa.Instruction) bool { st, k := producesResponse(i, w); return k && st == 200 }}).FromBlock(blk)
		if hit2 != nil {
			// reachable 200 after the 400 within the same activation (loop continue) is a double answer
			if !InLoop(blk) {
				ok, why = false, "the error branch continues to the 200 answer"
			}
		}
	}
	if ok && forget {
		// every path of the error branch to a return deletes the session
		miss, _ := (&Walk{Target: IsReturn, Avoid: func(i ssa.Instruction) bool { return IsCall(i, "(*sync.Map).Delete") }}).FromBlock(blk)
		if miss != nil {
			ok, why = false, "a failed poll does not delete the session from the table"
		}
	}
	c.Check("C12.U", key, p, ifi.Pos(), ok, "a call on a closed session is answered 400"+map[bool]string{true: " and the session is forgotten", false: ""}[forget], why)
}

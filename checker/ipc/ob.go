package ipc

import (
	"encoding/json"
	"fmt"
	"go/token"
	"os"
	"sort"
	"strings"
	"time"
)

// Status of one obligation.
type Status string

const (
	Discharged Status = "discharged"
	Violated   Status = "violated"
	Undecided  Status = "undecided"
)

// Obligation is one instance of a rule on one resolved construct.
type Obligation struct {
	Rule   string `json:"rule"`
	Key    string `json:"key"` // rule|construct — stable across unrelated edits (no line numbers)
	Site   string `json:"site"`
	Status Status `json:"status"`
	Reason string `json:"reason"`
	Path   string `json:"path,omitempty"`
	Known  bool   `json:"known_finding,omitempty"`
}

// RuleInfo describes a rule for the evidence file.
type RuleInfo struct {
	Rule        string `json:"rule"`
	What        string `json:"what"`
	MinExpected int    `json:"min_expected"`
	Instances   int    `json:"instances"`
	Discharged  int    `json:"discharged"`
	Violated    int    `json:"violated"`
	Undecided   int    `json:"undecided"`
}

// Ctx collects obligations for one property run.
type Ctx struct {
	Property string
	Progs    map[string]*Prog
	Obs      []*Obligation
	Rules    []*RuleInfo
	rule     map[string]*RuleInfo
	Info     []string // informational lines (printed, never armed)
	cur      *Prog
}

func NewCtx(property string, progs map[string]*Prog) *Ctx {
	return &Ctx{Property: property, Progs: progs, rule: map[string]*RuleInfo{}}
}

// Rule declares a rule, what it checks and the minimum number of instances
// confirmed by hand on the pinned tree (fewer => the rule went vacuous).
func (c *Ctx) Rule(id, what string, min int) {
	if _, ok := c.rule[id]; ok {
		return
	}
	ri := &RuleInfo{Rule: id, What: what, MinExpected: min}
	c.rule[id] = ri
	c.Rules = append(c.Rules, ri)
}

func (c *Ctx) add(rule, key string, p *Prog, pos token.Pos, st Status, reason string) *Obligation {
	site := "-"
	if p != nil {
		site = p.Pos(pos)
	}
	o := &Obligation{Rule: rule, Key: rule + "|" + key, Site: site, Status: st, Reason: reason}
	// identical key twice: keep the worse status, count once
	for _, e := range c.Obs {
		if e.Key == o.Key {
			if rank(st) > rank(e.Status) {
				e.Status, e.Reason, e.Site = st, reason, site
			}
			return e
		}
	}
	c.Obs = append(c.Obs, o)
	return o
}

func rank(s Status) int {
	switch s {
	case Discharged:
		return 0
	case Undecided:
		return 1
	}
	return 2
}

// OK / Bad / Unk record an obligation.
func (c *Ctx) OK(rule, key string, p *Prog, pos token.Pos, reason string) {
	c.add(rule, key, p, pos, Discharged, reason)
}
func (c *Ctx) Bad(rule, key string, p *Prog, pos token.Pos, reason string) {
	c.add(rule, key, p, pos, Violated, reason)
}
func (c *Ctx) Unk(rule, key string, p *Prog, pos token.Pos, reason string) {
	c.add(rule, key, p, pos, Undecided, reason)
}

// Check records discharged when cond holds and violated otherwise.
func (c *Ctx) Check(rule, key string, p *Prog, pos token.Pos, cond bool, okReason, badReason string) bool {
	if cond {
		c.OK(rule, key, p, pos, okReason)
	} else {
		c.Bad(rule, key, p, pos, badReason)
	}
	return cond
}

func (c *Ctx) Infof(format string, a ...interface{}) {
	c.Info = append(c.Info, fmt.Sprintf(format, a...))
}

// KnownFindings is /verif/known_findings.json.
type KnownFindings struct {
	Open []struct {
		Property string `json:"property"`
		Key      string `json:"key"`
		What     string `json:"what"`
		Since    string `json:"since"`
	} `json:"open"`
	Fixed []string `json:"fixed"`
}

func LoadKnown(path string) (*KnownFindings, error) {
	k := &KnownFindings{}
	b, err := os.ReadFile(path)
	if err != nil {
		if os.IsNotExist(err) {
			return k, nil
		}
		return nil, err
	}
	if err := json.Unmarshal(b, k); err != nil {
		return nil, err
	}
	return k, nil
}

// PropSpec is the static description of a property check.
type PropSpec struct {
	ID          string
	Level       string // evidence level
	Progs       []string
	Explanation string
	Assumptions []string
	Trusted     []string
	Run         func(c *Ctx)
}

// Result of finishing a property run.
type Result struct {
	Violations int
	Lines      []string // lines to print on stdout
}

// Finish tallies the rules, applies the known-findings list, writes evidence.
func (c *Ctx) Finish(spec *PropSpec, known *KnownFindings, tier string, seed int64, evidencePath, checkerCmd string, t0 time.Time, extra map[string]interface{}) (*Result, error) {
	res := &Result{}
	sort.SliceStable(c.Obs, func(i, j int) bool { return c.Obs[i].Key < c.Obs[j].Key })
	for _, o := range c.Obs {
		ri := c.rule[o.Rule]
		if ri == nil {
			c.Rule(o.Rule, "(undeclared rule)", 0)
			ri = c.rule[o.Rule]
		}
		ri.Instances++
		switch o.Status {
		case Discharged:
			ri.Discharged++
		case Violated:
			ri.Violated++
		default:
			ri.Undecided++
		}
	}
	// vacuity: fewer instances than confirmed by hand
	for _, ri := range c.Rules {
		if ri.Instances < ri.MinExpected {
			o := &Obligation{Rule: ri.Rule, Key: ri.Rule + "|instance-count", Site: "-", Status: Violated,
				Reason: fmt.Sprintf("rule matched %d instance(s), at least %d were confirmed by hand on the pinned tree: the rule went vacuous (anchor renamed/removed or construct rewritten into a shape the rule cannot read)", ri.Instances, ri.MinExpected)}
			c.Obs = append(c.Obs, o)
			ri.Violated++
		}
	}
	openKeys := map[string]string{}
	for _, k := range known.Open {
		if k.Property == c.Property {
			openKeys[k.Key] = k.What
		}
	}
	nOb, nDis := 0, 0
	for _, o := range c.Obs {
		nOb++
		if o.Status == Discharged {
			nDis++
			continue
		}
		if what, ok := openKeys[o.Key]; ok {
			o.Known = true
			res.Lines = append(res.Lines, fmt.Sprintf("KNOWN-FINDING: property=%s %s %s", c.Property, o.Key, what))
			continue
		}
		res.Violations++
		res.Lines = append(res.Lines, fmt.Sprintf("  %s %s [%s] %s: %s", strings.ToUpper(string(o.Status)), o.Site, o.Rule, o.Key, o.Reason))
	}
	if res.Violations > 0 {
		res.Lines = append(res.Lines, fmt.Sprintf("VIOLATION property=%s replay=%s", c.Property, evidencePath))
	}
	for _, l := range c.Info {
		res.Lines = append(res.Lines, "info: "+l)
	}
	// evidence
	analysed := map[string]interface{}{}
	var pnames []string
	for n := range c.Progs {
		pnames = append(pnames, n)
	}
	sort.Strings(pnames)
	for _, n := range pnames {
		p := c.Progs[n]
		var mp []string
		for ip := range p.ModPkgs {
			mp = append(mp, Rel(ip))
		}
		sort.Strings(mp)
		m := map[string]interface{}{
			"deep": p.Opts.Deep, "packages_in_import_graph": p.NPkgs, "module_packages": mp,
			"module_functions": len(p.Funcs), "ssa_functions": p.NFuncs,
		}
		if p.CG != nil {
			edges := 0
			for _, nd := range p.CG.Nodes {
				edges += len(nd.Out)
			}
			m["callgraph_nodes"] = len(p.CG.Nodes)
			m["callgraph_edges"] = edges
		}
		analysed[n] = m
	}
	samples := make([]interface{}, 0, len(c.Obs))
	for _, o := range c.Obs {
		samples = append(samples, o)
	}
	cov := map[string]interface{}{
		"obligations":  nOb,
		"discharged":   nDis,
		"checker_cmd":  checkerCmd,
		"trusted_base": spec.Trusted,
		"explanation":  spec.Explanation,
		"exhaustive":   true,
		"rule":         "every instance of every rule of this property in the loaded program(s) is enumerated; an obligation is one rule applied to one resolved construct (function, call site, field, comparison); obligations are distinct by key = rule|construct",
		"evaluations":  nOb,
		"distinct_nontrivial": func() int {
			seen := map[string]bool{}
			for _, o := range c.Obs {
				seen[o.Key] = true
			}
			return len(seen)
		}(),
		"rules":    c.Rules,
		"analysed": analysed,
		"samples":  samples,
		"info":     c.Info,
	}
	for k, v := range extra {
		cov[k] = v
	}
	ev := map[string]interface{}{
		"property_id": c.Property,
		"tier":        tier,
		"seed":        seed,
		"level":       spec.Level,
		"coverage":    cov,
		"assumptions": spec.Assumptions,
		"wall_s":      time.Since(t0).Seconds(),
		"violations":  res.Violations,
	}
	b, err := json.MarshalIndent(ev, "", " ")
	if err != nil {
		return nil, err
	}
	if err := os.WriteFile(evidencePath, append(b, '\n'), 0o644); err != nil {
		return nil, err
	}
	return res, nil
}

// Borrow runs another property's checker in a scratch context and adopts, under rule `to`, the
// obligations of its rule `from` whose key keep accepts: a rule that is a necessary condition of
// two properties is written once and armed in both. A borrowed run never borrows itself.
func (c *Ctx) Borrow(run func(*Ctx), from, to string, keep func(key string) bool) int {
	if c.Property == "borrow" {
		return 0
	}
	sub := NewCtx("borrow", c.Progs)
	run(sub)
	n := 0
	for _, o := range sub.Obs {
		if o.Rule != from {
			continue
		}
		k := strings.SplitN(o.Key, "|", 2)
		if len(k) != 2 || (keep != nil && !keep(k[1])) {
			continue
		}
		cp := *o
		cp.Rule = to
		cp.Key = to + "|" + k[1]
		dup := false
		for _, e := range c.Obs {
			if e.Key == cp.Key {
				dup = true
				if rank(cp.Status) > rank(e.Status) {
					e.Status, e.Reason, e.Site = cp.Status, cp.Reason, cp.Site
				}
			}
		}
		if !dup {
			c.Obs = append(c.Obs, &cp)
		}
		n++
	}
	if n == 0 {
		c.add(to, "borrowed:"+from, nil, 0, Undecided, "no obligation of "+from+" matched: the borrowed rule went vacuous")
	}
	return n
}

package ipc

import (
	"fmt"
	"go/constant"
	"go/token"
	"sort"
	"strings"

	"golang.org/x/tools/go/ssa"
)

func init() {
	register(&PropSpec{
		ID:    "C14",
		Progs: []string{"mod"},
		Explanation: "String arithmetic of the splice on run-time values is not decided. Decided: every alteration is gated by the stated predicates, the predicates have the stated truth tables, the pass-through arms are identities: " +
			"(G) banner: the banner writer is only installed for requests isHTMLRequest accepts, otherwise the wrapped handler is called with the handler's own (w, r); in WriteHeader, by partial evaluation on the predicate results: not frameable ⇒ no header mutation, no frame, status forwarded, body passes (writeBytes=true); frameable+already framed ⇒ cache/X-Frame-Options headers, no frame, body passes; frameable+not framed ⇒ the frame is written and the body is discarded; Write forwards the same slice iff writeBytes; " +
			"(X) a 1xx interim status neither latches the banner writer nor triggers the frame; " +
			"(T) predicate truth tables: isHTMLRequest is false for every method but GET and otherwise Contains(Accept, \"text/html\"); isFrameableHTMLResponse is false for every status but 200, false for attachments, true only from the Content-Type loop (text/html, application/xhtml+xml); isAlreadyFramed constants; the cache / frame-option header constants; " +
			"(S) shim: every store to resp.Body and every resp.Header mutation in the ModifyResponse function is unreachable when Content-Type does not contain \"html\"; the new body is MultiReader(prefix, original body) closed through the original body; the script is inserted by strings.Replace(prefix, \"<head>\", \"<head>\"+script, 1) — or, if the code indexes and slices instead, index and slice operate on the same string. " +
			"(M) rendered pages and spliced prefixes live in call-owned memory (no sync.Pool, no buffer captured by the per-response hook); (P) hostProxy sets only Transport, FlushInterval and ModifyResponse on the backend-facing proxy (a Director that drops Accept-Encoding would recode every non-HTML body). " +
			"On the already-framed branch only the cache and X-Frame-Options headers may change." +
			" The shimmed body is the only body the splice installs and the original body is not closed on a path that serves the response.",
		Assumptions: []string{"strings.Replace with n=1 replaces the first occurrence; io.MultiReader concatenates without loss"},
		Run:         runC14,
	})
}

func runC14(c *Ctx) {
	p := c.Progs["mod"]
	c.Rule("C14.Y", "compatibility with the party that is not changed with this code: the frame page leaves the Referer of its iframe alone", 1)
	ruleBannerNoReferrerPolicy(c, p, "C14.Y")
	c.Rule("C14.G", "banner gating by partial evaluation of the predicates", 13)
	c.Rule("C14.X", "1xx interim statuses do not latch the banner writer (= C03.X)", 2)
	c.Rule("C14.T", "predicate truth tables and constants", 15)
	// the URL the frame embeds is the one the client requested: the banner keeps the request's
	// *url.URL and renders it when the backend's header arrives, so nothing in the agent's
	// handler chain may rewrite that URL in place (= C02.W)
	{
		bad := ""
		n := 0
		for _, pk := range []string{"agent", "agent/banner", "agent/sessions"} {
			for _, fn := range p.FuncsIn(pk) {
				for _, m := range requestMutations(fn) {
					n++
					if strings.HasPrefix(m.Kind, "url-field:") || m.Kind == "field:URL" {
						bad = m.Kind + " in " + FuncName(fn) + " at " + p.Pos(m.Instr.Pos())
					}
				}
			}
		}
		c.Check("C14.G", "frame:requested-url-not-rewritten-in-place", p, 0, bad == "", fmt.Sprintf("no handler of the agent's chain stores into the request's URL (%d request mutation sites inspected)", n), "the request URL is rewritten in place ("+bad+"): the banner renders the same *url.URL later, so the frame embeds the rewritten URL instead of the requested one")
	}
	c.Rule("C14.S", "shim splice gated by the HTML content type; body preserved", 6)
	const bpkg = ModPath + "/agent/banner"

	// the two header effects, through the helpers or written out in place
	headerSet := func(i ssa.Instruction, key string, val func(string) bool) bool {
		if !IsCall(i, "(net/http.Header).Set") {
			return false
		}
		k, ok1 := ConstString(PArgs(CallOf(i))[1])
		v, ok2 := ConstString(PArgs(CallOf(i))[2])
		return ok1 && ok2 && canonicalHeaderKey(k) == key && val(v)
	}
	isNotCacheable := func(i ssa.Instruction) bool {
		return IsCall(i, bpkg+".setNotCacheable") || headerSet(i, "Cache-Control", func(v string) bool { return strings.Contains(v, "no-store") && strings.Contains(v, "no-cache") })
	}
	isSameOrigin := func(i ssa.Instruction) bool {
		return IsCall(i, bpkg+".setXFrameOptionsSameOrigin") || headerSet(i, "X-Frame-Options", func(v string) bool { return strings.EqualFold(v, "sameorigin") })
	}
	const T = "agent/banner.bannerResponseWriter"

	// ---- C14.G
	if pr := c.need(p, "C14.G", "agent/banner.Proxy"); pr != nil {
		var h *ssa.Function
		for _, cl := range Closures(pr) {
			if len(Calls(cl, bpkg+".isHTMLRequest")) == 1 {
				h = cl
			}
		}
		if h == nil {
			c.Unk("C14.G", "handler:closure", p, pr.Pos(), "no handler closure calling isHTMLRequest found in banner.Proxy")
		} else {
			wi, ri := 0, 1
			if h.Signature.Recv() != nil {
				wi, ri = 1, 2 // the handler literal became a method (ServeHTTP/serve) of a small type
			}
			hr := Calls(h, bpkg+".isHTMLRequest")[0]
			c.ArgIs("C14.G", "handler:predicate-on-own-request", p, hr, 0, "isHTMLRequest judges the handler's own request", P(h, ri))
			env := func(val bool) Env {
				return func(v ssa.Value) (constant.Value, bool) {
					if v == hr.(ssa.Value) {
						return constant.MakeBool(val), true
					}
					return nil, false
				}
			}
			as := AllocsOf(h, T)
			isAlloc := func(i ssa.Instruction) bool {
				for _, a := range as {
					if i == ssa.Instruction(a) {
						return true
					}
				}
				return false
			}
			hit, _ := (&Walk{Target: isAlloc, Edge: EdgeUnder(env(false))}).FromBlock(h.Blocks[0])
			c.Check("C14.G", "handler:no-banner-writer-for-non-html-requests", p, h.Pos(), hit == nil && len(as) == 1, "when isHTMLRequest is false no banner writer is created", "a banner writer is created although isHTMLRequest(r) is false: non-HTML requests get their responses altered")
			// on the false branch: wrapped.ServeHTTP(w, r) with own w, r
			okPass := false
			for _, call := range Calls(h, "(net/http.Handler).ServeHTTP") {
				a := Args(CallOf(call))
				// the writer handed on is the handler's own, or (single call site after `if html { w = banner writer }`)
				// one of {own writer, the banner writer that only exists on the HTML branch}
				okW := false
				for _, r := range Roots(a[1]) {
					if pr2, isP := r.(*ssa.Parameter); isP && pr2 == h.Params[wi] {
						okW = true
						continue
					}
					isBW := false
					for _, al := range as {
						if r == ssa.Value(al) {
							isBW = true
						}
					}
					if !isBW {
						okW = false
						break
					}
				}
				okWrapped := PathOf(a[0]) == P(pr, 1)
				if !okWrapped {
					// the handler is built by a constructor that Proxy (and others) call with the handler to
					// wrap: the constructor's own parameter, given Proxy's at Proxy's call site
					for _, r := range Roots(a[0]) {
						if PathOf(r) == P(pr, 1) {
							okWrapped = true
						}
					}
				}
				if okW && PathOf(a[2]) == P(h, ri) && okWrapped {
					h2, _ := (&Walk{Target: func(i ssa.Instruction) bool { return i == call }, Edge: EdgeUnder(env(false))}).FromBlock(h.Blocks[0])
					if h2 != nil {
						okPass = true
					}
				}
			}
			c.Check("C14.G", "handler:pass-through-identity", p, h.Pos(), okPass, "non-HTML requests reach the wrapped handler with the original writer and request", "for non-HTML requests the wrapped handler is not called with the handler's own (w, r)")
			if len(as) == 1 {
				if v, ok := LiteralField(as[0], "isAlreadyFramed"); ok {
					call := CallResult(v, 0, bpkg+".isAlreadyFramed")
					c.Check("C14.G", "handler:framed-flag-from-predicate", p, as[0].Pos(), call != nil && PathOf(PArgs(&call.Call)[0]) == P(h, ri), "isAlreadyFramed field = isAlreadyFramed(r)", "the already-framed flag is not isAlreadyFramed(<own request>)")
				} else {
					c.Bad("C14.G", "handler:framed-flag-from-predicate", p, as[0].Pos(), "isAlreadyFramed is not set: framed requests get the frame again")
				}
				if v, ok := LiteralField(as[0], "targetURL"); ok {
					c.PathIs("C14.G", "handler:frame-embeds-requested-url", p, as[0].Pos(), v, "the frame embeds the requested URL", P(h, ri)+".URL")
				}
				if v, ok := LiteralField(as[0], "wrapped"); ok {
					c.PathIs("C14.G", "handler:wraps-own-writer", p, as[0].Pos(), v, "the banner writer wraps the handler's own writer", P(h, wi))
				}
			}
		}
	}
	// what the frame's src attribute is rendered from: String() of the stored request URL, as it is
	// (HTML escaping aside) — not a normalised, trimmed or re-joined variant of it
	{
		n := 0
		for _, fn := range p.AllFuncsIn("agent/banner") {
			EachInstrRaw(fn, func(i ssa.Instruction) {
				st, ok := i.(*ssa.Store)
				if !ok {
					return
				}
				_, fld, ok := FieldAddrOf(st.Addr)
				if !ok || fld != "TargetURL" {
					return
				}
				n++
				v := st.Val
				for k := 0; k < 4; k++ {
					if call, isC := Peel(v).(*ssa.Call); isC {
						switch CalleeName(call.Common()) {
						case "html/template.HTMLEscapeString", "text/template.HTMLEscapeString", "html.EscapeString":
							v = PArgs(&call.Call)[0]
							continue
						}
						if h, isH := calleeFn(call.Call.Value); isH && IsNewHelper(h) {
							if rs := helperResults(call, 0); len(rs) == 1 {
								v = rs[0]
								continue
							}
						}
					}
					break
				}
				okv := false
				if call := CallResult(v, 0, "(*net/url.URL).String"); call != nil {
					recv := PArgs(&call.Call)[0]
					for k := 0; k < 3; k++ {
						if prm, isP := recv.(*ssa.Parameter); isP && prm.Parent() != fn {
							if a := helperParamArgIn(prm, TopFunc(fn)); a != nil {
								recv = a
								continue
							}
						}
						break
					}
					if _, f2, ok2 := FieldLoad(recv); ok2 && f2 == "targetURL" {
						okv = true
					}
				}
				c.Check("C14.G", "frame:src-is-String-of-the-requested-url", p, st.Pos(), okv, "the frame source is rendered from targetURL.String() (HTML escaping aside)", "the frame source is rendered from "+PathOf(st.Val)+" rather than from targetURL.String(): a trimmed, normalised or re-joined URL (e.g. leading slashes collapsed) is not the URL that was requested")
			})
		}
		if n == 0 {
			c.Unk("C14.G", "frame:src-is-String-of-the-requested-url", p, 0, "no store to a TargetURL field found in agent/banner")
		}
	}
	wh := c.need(p, "C14.G", "agent/banner.(*bannerResponseWriter).WriteHeader")
	if wh != nil {
		fr := c.UniqueCall("C14.G", p, wh, false, bpkg+".isFrameableHTMLResponse")
		if fr != nil {
			c.ArgIs("C14.G", "WriteHeader:predicate-on-own-status", p, fr, 0, "isFrameableHTMLResponse judges the status being written", P(wh, 1))
			env := func(frameable, framed bool) Env {
				return func(v ssa.Value) (constant.Value, bool) {
					if v == fr.(ssa.Value) {
						return constant.MakeBool(frameable), true
					}
					if _, fld, ok := FieldLoad(v); ok {
						switch fld {
						case "isAlreadyFramed":
							return constant.MakeBool(framed), true
						case "wroteHeader":
							return constant.MakeBool(false), true
						}
					}
					if len(wh.Params) > 1 && v == ssa.Value(ParamAt(wh, 1)) {
						return IntC(200), true
					}
					return nil, false
				}
			}
			isHdrMut := func(i ssa.Instruction) bool {
				return IsCall(i, bpkg+".setNotCacheable", bpkg+".setXFrameOptionsSameOrigin", "(net/http.Header).Del", "(net/http.Header).Set", "(net/http.Header).Add")
			}
			isFrame := func(i ssa.Instruction) bool {
				if !IsCall(i, "(net/http.ResponseWriter).Write") {
					return false
				}
				if CallResult(Args(CallOf(i))[1], 0, "(*"+bpkg+".bannerResponseWriter).getBanner") != nil {
					return true
				}
				// the rendering helper under another name/shape: what is written derives from the
				// result of a function of the banner package (the rendered frame), not from a caller's slice
				derived := false
				SliceBack(Args(CallOf(i))[1], func(v ssa.Value) bool {
					if call, ok := v.(*ssa.Call); ok && strings.HasPrefix(CalleeName(call.Common()), bpkg+".") {
						derived = true
					}
					if ex, ok := v.(*ssa.Extract); ok {
						if call, ok := ex.Tuple.(*ssa.Call); ok && strings.HasPrefix(strings.TrimPrefix(strings.TrimPrefix(CalleeName(call.Common()), "(*"), "("), bpkg+".") {
							derived = true
						}
					}
					return true
				})
				return derived
			}
			isWB := func(i ssa.Instruction) bool {
				st, ok := i.(*ssa.Store)
				if !ok {
					return false
				}
				_, fld, ok := FieldAddrOf(st.Addr)
				if !ok || fld != "writeBytes" {
					return false
				}
				cv, ok := st.Val.(*ssa.Const)
				return ok && cv.Value != nil && constant.BoolVal(cv.Value)
			}
			isFwd := func(i ssa.Instruction) bool {
				if !IsCall(i, "(net/http.ResponseWriter).WriteHeader") {
					return false
				}
				return PathOf(Args(CallOf(i))[1]) == P(wh, 1)
			}
			reach := func(e Env, tgt func(ssa.Instruction) bool) ssa.Instruction {
				h, _ := (&Walk{Target: tgt, Edge: EdgeUnder(e)}).FromBlock(wh.Blocks[0])
				return h
			}
			must := func(e Env, via func(ssa.Instruction) bool) ssa.Instruction {
				h, _ := (&Walk{Target: IsReturn, Avoid: via, Edge: EdgeUnder(e)}).FromBlock(wh.Blocks[0])
				return h
			}
			// not frameable
			e := env(false, false)
			bad := ""
			if h := reach(e, isHdrMut); h != nil {
				bad = "a header mutation at " + p.Pos(h.Pos()) + " is reachable"
			}
			if h := reach(e, isFrame); h != nil {
				bad = "the frame write is reachable"
			}
			if h := must(e, isWB); h != nil {
				bad = "a path returns without enabling body pass-through (writeBytes=true)"
			}
			if h := must(e, isFwd); h != nil {
				bad = "a path returns without forwarding the status"
			}
			c.Check("C14.G", "WriteHeader:not-frameable-is-untouched", p, wh.Pos(), bad == "", "not frameable ⇒ no header mutation, no frame, status forwarded, body passes through", "for a response isFrameableHTMLResponse rejects: "+bad+" — a non-HTML / non-200 / attachment response reaches the client altered")
			// frameable, already framed
			e = env(true, true)
			bad = ""
			if h := reach(e, isFrame); h != nil {
				bad = "the frame write is reachable"
			}
			if h := must(e, isWB); h != nil {
				bad = "a path returns without enabling body pass-through"
			}
			if h := must(e, isFwd); h != nil {
				bad = "a path returns without forwarding the status"
			}
			if h := reach(e, isNotCacheable); h == nil {
				bad = "the cache headers are not set"
			}
			if h := reach(e, func(i ssa.Instruction) bool {
				if !IsCall(i, "(net/http.Header).Del", "(net/http.Header).Set", "(net/http.Header).Add") {
					return false
				}
				k, isC := ConstString(PArgs(CallOf(i))[1])
				if !isC {
					return true
				}
				switch canonicalHeaderKey(k) {
				case "Cache-Control", "Date", "Expires", "Pragma", "X-Frame-Options":
					return false
				}
				return true
			}); h != nil {
				bad = "another header is changed at " + p.Pos(h.Pos()) + " although the original body passes through (e.g. Content-Encoding/Content-Length deleted for the frame)"
			}
			c.Check("C14.G", "WriteHeader:already-framed-gets-original-body", p, wh.Pos(), bad == "", "frameable and already framed ⇒ uncacheable + same-origin headers, no frame, original body", "for an already framed HTML page: "+bad)
			// frameable, not framed
			e = env(true, false)
			bad = ""
			if reach(e, isFrame) == nil {
				bad = "the frame is never written"
			}
			if h := reach(e, isWB); h != nil {
				bad = "body pass-through is enabled although the frame is served: the original document follows the frame"
			}
			if reach(e, isNotCacheable) == nil || reach(e, isSameOrigin) == nil {
				bad = "the frame is not marked uncacheable and same-origin-frameable"
			}
			c.Check("C14.G", "WriteHeader:frame-replaces-body", p, wh.Pos(), bad == "", "frameable and not framed ⇒ frame written, marked uncacheable/sameorigin, original body discarded", "for a frameable HTML page: "+bad)
		}
	}
	if wr := c.need(p, "C14.G", "agent/banner.(*bannerResponseWriter).Write"); wr != nil {
		env := func(wb bool) Env {
			return func(v ssa.Value) (constant.Value, bool) {
				if _, fld, ok := FieldLoad(v); ok {
					if fld == "writeBytes" {
						return constant.MakeBool(wb), true
					}
					if fld == "wroteHeader" {
						return constant.MakeBool(true), true
					}
				}
				return nil, false
			}
		}
		isW := func(i ssa.Instruction) bool { return IsCall(i, "(net/http.ResponseWriter).Write") }
		h1, _ := (&Walk{Target: IsReturn, Avoid: isW, Edge: EdgeUnder(env(true))}).FromBlock(wr.Blocks[0])
		h2, _ := (&Walk{Target: isW, Edge: EdgeUnder(env(false))}).FromBlock(wr.Blocks[0])
		c.Check("C14.G", "Write:forwards-iff-writeBytes", p, wr.Pos(), h1 == nil && h2 == nil, "writeBytes ⇒ every path forwards to the wrapped writer; !writeBytes ⇒ nothing is forwarded", "Write does not forward exactly when writeBytes is set")
		// discarded bytes are reported as written
		okLen := false
		for _, r := range Returns(wr) {
			if call, ok := ReturnValue(r, 0).(*ssa.Call); ok {
				if b, ok := call.Call.Value.(*ssa.Builtin); ok && b.Name() == "len" && PathOf(PArgs(&call.Call)[0]) == P(wr, 1) {
					okLen = true
				}
			}
		}
		c.Check("C14.G", "Write:discard-reports-full-length", p, wr.Pos(), okLen, "discarded bytes are reported as written (len(bs), nil): the reverse proxy does not abort with a short write", "the discarding arm does not return len(bs)")
	}

	c.Rule("C14.M", "rendered pages and spliced prefixes live in call-owned buffers", 2)
	rulePooledMemory(c, p, "C14.M", "agent/banner", "agent/websockets")
	ruleSharedScratch(c, p, "C14.M", "agent/banner", "agent/websockets", "agent")
	c.Rule("C14.F", "the (possibly framed or spliced) response is serialised with chunked framing: the backend's Content-Length describes a body the injection has changed (= C03.C)", 1)
	ruleForcedChunked(c, p, "C14.F")
	c.Rule("C14.P", "injection does not reconfigure the backend-facing proxy beyond ModifyResponse", 3)
	ruleReverseProxyFields(c, p, "C14.P")

	// ---- C14.X
	{
		sub := NewCtx("tmp", c.Progs)
		ruleInterimNoLatch(sub, p, "C14.X")
		for _, o := range sub.Obs {
			if containsStr(o.Key, "agent/banner.") {
				c.Obs = append(c.Obs, o)
			}
		}
	}

	// ---- C14.T
	if f := c.need(p, "C14.T", "agent/banner.isHTMLRequest"); f != nil {
		env := func(method string) Env {
			return func(v ssa.Value) (constant.Value, bool) {
				if _, fld, ok := FieldLoad(v); ok && fld == "Method" {
					return constant.MakeString(method), true
				}
				return nil, false
			}
		}
		bad := ""
		for _, m := range []string{"POST", "HEAD", "PUT", "DELETE", "OPTIONS", "get", ""} {
			m := m
			h, _ := (&Walk{Target: func(i ssa.Instruction) bool {
				r, ok := i.(*ssa.Return)
				if !ok {
					return false
				}
				// the returned value under this method: a constant, or an `a && b` value whose first conjunct decides
				if cv, okE := Eval(ReturnValue(r, 0), env(m)); okE && cv.Kind() == constant.Bool && !constant.BoolVal(cv) {
					return false
				}
				return true
			}, Edge: EdgeUnder(env(m))}).FromBlock(f.Blocks[0])
			if h != nil {
				bad = "method " + m + " can yield something other than false"
			}
		}
		c.Check("C14.T", "isHTMLRequest:only-GET", p, f.Pos(), bad == "", "every method other than GET is rejected", "isHTMLRequest: "+bad+": the banner is injected into responses to non-GET requests")
		okAcc := false
		for _, r := range Returns(f) {
			var cands []ssa.Value
			cands = append(cands, ReturnValue(r, 0))
			cands = append(cands, Conjuncts(ReturnValue(r, 0), 0)...)
			for _, cand := range cands {
				if call := CallResult(cand, 0, "strings.Contains"); call != nil {
					s, _ := ConstString(PArgs(&call.Call)[1])
					if g := CallResult(PArgs(&call.Call)[0], 0, "(net/http.Header).Get"); g != nil {
						k, _ := ConstString(PArgs(&g.Call)[1])
						okAcc = s == "text/html" && canonicalHeaderKey(k) == "Accept" && PathOf(PArgs(&g.Call)[0]) == P(f, 0)+".Header"
					}
				}
			}
		}
		c.Check("C14.T", "isHTMLRequest:accept-text-html", p, f.Pos(), okAcc, "for GET the result is Contains(Accept, \"text/html\")", "for GET the result is not strings.Contains(r.Header.Get(\"Accept\"), \"text/html\")")
	}
	if f := c.need(p, "C14.T", "agent/banner.isFrameableHTMLResponse"); f != nil {
		env := func(st int64) Env {
			return func(v ssa.Value) (constant.Value, bool) {
				if v == ssa.Value(ParamAt(f, 0)) {
					return IntC(st), true
				}
				return nil, false
			}
		}
		nonFalse := func(i ssa.Instruction) bool {
			r, ok := i.(*ssa.Return)
			if !ok {
				return false
			}
			cv, isC := ReturnValue(r, 0).(*ssa.Const)
			return !(isC && cv.Value != nil && !constant.BoolVal(cv.Value))
		}
		bad := ""
		for _, st := range []int64{100, 101, 199, 201, 204, 206, 301, 304, 404, 500} {
			if h, _ := (&Walk{Target: nonFalse, Edge: EdgeUnder(env(st))}).FromBlock(f.Blocks[0]); h != nil {
				bad = fmt.Sprintf("status %d can be judged frameable", st)
			}
		}
		h200, _ := (&Walk{Target: nonFalse, Edge: EdgeUnder(env(200))}).FromBlock(f.Blocks[0])
		c.Check("C14.T", "isFrameable:only-200", p, f.Pos(), bad == "" && h200 != nil, "only status 200 can be frameable", "isFrameableHTMLResponse: "+bad)
		consts := map[string]bool{}
		keys := map[string]bool{}
		EachInstr(f, func(i ssa.Instruction) {
			if IsCall(i, "strings.Contains", "strings.HasPrefix", "strings.EqualFold") {
				if s, ok := ConstString(PArgs(CallOf(i))[1]); ok {
					consts[s] = true
				}
			}
			if lk, ok := i.(*ssa.Lookup); ok {
				if s, ok := ConstString(lk.Index); ok {
					keys[s] = true
				}
			}
			// the substrings handed to a new search helper (anyValueContains(values, "text/html", …))
			if h := syncHelperCallee(i); h != nil && i.Parent() == f {
				for _, a := range PArgs(CallOf(i)) {
					if a == nil {
						continue
					}
					if s, ok := ConstString(a); ok {
						consts[s] = true
					}
					if sl, isS := a.(*ssa.Slice); isS {
						if arr, isA := sl.X.(*ssa.Alloc); isA {
							for _, r := range Refs(arr) {
								if ia, isI := r.(*ssa.IndexAddr); isI {
									for _, u := range Refs(ia) {
										if st, isSt := u.(*ssa.Store); isSt {
											if s, ok := ConstString(st.Val); ok {
												consts[s] = true
											}
										}
									}
								}
							}
						}
					}
				}
			}
			if IsCall(i, "(net/http.Header).Get", "(net/http.Header).Values") {
				if s, ok := ConstString(PArgs(CallOf(i))[1]); ok {
					keys[canonicalHeaderKey(s)] = true
				}
			}
		})
		want := []string{"attachment", "text/html", "application/xhtml+xml"}
		okc := len(consts) == 3
		for _, w := range want {
			if !consts[w] {
				okc = false
			}
		}
		c.Check("C14.T", "isFrameable:constants", p, f.Pos(), okc && keys["Content-Disposition"] && keys["Content-Type"] && len(keys) == 2, "tests Content-Disposition for \"attachment\" and Content-Type for text/html / application/xhtml+xml, nothing else", fmt.Sprintf("isFrameableHTMLResponse tests %v on header fields %v (expected attachment/text/html/application/xhtml+xml on Content-Disposition/Content-Type)", sortedKeys(consts), sortedKeys(keys)))
		// attachment ⇒ false; content-type match ⇒ true
		okPol := true
		EachInstr(f, func(i ssa.Instruction) {
			ifi, ok := i.(*ssa.If)
			if !ok {
				return
			}
			cond, trueSucc := BoolTest(ifi)
			call, ok := cond.(*ssa.Call)
			if !ok || CalleeName(call.Common()) != "strings.Contains" {
				return
			}
			s, _ := ConstString(PArgs(&call.Call)[1])
			blk := ifi.Block().Succs[trueSucc]
			for _, in := range blk.Instrs {
				if r, ok := in.(*ssa.Return); ok {
					cv, isC := ReturnValue(r, 0).(*ssa.Const)
					if !isC || cv.Value == nil {
						okPol = false
						continue
					}
					val := constant.BoolVal(cv.Value)
					if s == "attachment" && val || s != "attachment" && !val {
						okPol = false
					}
				}
			}
		})
		c.Check("C14.T", "isFrameable:polarity", p, f.Pos(), okPol, "an attachment is never frameable; a matching content type is", "the polarity of a Contains test in isFrameableHTMLResponse is inverted")
	}
	if f := c.need(p, "C14.T", "agent/banner.isAlreadyFramed"); f != nil {
		pairs := map[string]string{}
		EachInstr(f, func(i ssa.Instruction) {
			bo, ok := i.(*ssa.BinOp)
			if !ok || bo.Op != token.EQL {
				return
			}
			s, ok := ConstString(bo.Y)
			if !ok {
				return
			}
			if g := CallResult(bo.X, 0, "(net/http.Header).Get"); g != nil {
				k, _ := ConstString(PArgs(&g.Call)[1])
				pairs[canonicalHeaderKey(k)] = s
			}
		})
		// … or a lookup of the header value in a read-only table of destinations that has "iframe"
		EachInstr(f, func(i ssa.Instruction) {
			lk, ok := i.(*ssa.Lookup)
			if !ok || lk.CommaOk {
				return
			}
			g := CallResult(lk.Index, 0, "(net/http.Header).Get")
			if g == nil {
				return
			}
			k, _ := ConstString(PArgs(&g.Call)[1])
			if ld, isL := lk.X.(*ssa.UnOp); isL {
				if gl, isG := ld.X.(*ssa.Global); isG {
					if tbl, okT := readOnlyTable(gl); okT {
						if v, has := tbl["iframe"]; has && v.Kind() == constant.Bool && constant.BoolVal(v) {
							if _, set := pairs[canonicalHeaderKey(k)]; !set {
								pairs[canonicalHeaderKey(k)] = "iframe"
							}
						}
					}
				}
			}
		})
		c.Check("C14.T", "isAlreadyFramed:constants", p, f.Pos(), pairs["Sec-Fetch-Mode"] == "nested-navigate" && pairs["Sec-Fetch-Dest"] == "iframe", "Sec-Fetch-Mode == nested-navigate or Sec-Fetch-Dest == iframe", fmt.Sprintf("isAlreadyFramed tests %v", pairs))
		// referer: host AND path
		okRef := false
		EachInstr(f, func(i ssa.Instruction) {
			bo, ok := i.(*ssa.BinOp)
			if ok && bo.Op == token.EQL {
				if _, fld, ok := FieldLoad(bo.X); ok && fld == "Path" {
					if _, f2, ok := FieldLoad(bo.Y); ok && f2 == "Path" {
						okRef = true
					}
				}
			}
		})
		// truth table: the browser's own "I am framed" signal decides alone — also without a Referer
		// (Referrer-Policy: no-referrer, an https→http hop)
		for _, tc := range []map[string]string{{"Sec-Fetch-Dest": "iframe"}, {"Sec-Fetch-Mode": "nested-navigate"}} {
			hdr := tc
			env := func(v ssa.Value) (constant.Value, bool) {
				if g := CallResult(v, 0, "(net/http.Header).Get"); g != nil {
					if k, isC := ConstString(PArgs(&g.Call)[1]); isC {
						return constant.MakeString(hdr[canonicalHeaderKey(k)]), true
					}
				}
				return nil, false
			}
			badRet := ""
			nret := 0
			(&Walk{Target: func(i ssa.Instruction) bool {
				r, isR := i.(*ssa.Return)
				if !isR || i.Parent() != f {
					return false
				}
				nret++
				cv, okv := Eval(ReturnValue(r, 0), env)
				if !okv || cv.Kind() != constant.Bool || !constant.BoolVal(cv) {
					badRet = p.Pos(r.Pos())
				}
				return false
			}, Edge: EdgeUnder(env), Ctx: f}).FromBlock(f.Blocks[0])
			name := ""
			for k, v := range hdr {
				name = k + "=" + v
			}
			c.Check("C14.T", "isAlreadyFramed:["+name+",no-referer]", p, f.Pos(), badRet == "" && nret > 0, "with "+name+" and no Referer every reachable return is true", "with "+name+" and no Referer header isAlreadyFramed can return something other than true (return at "+badRet+"): a framed navigation that sends no Referer gets another banner frame around the frame")
		}
		// … while fetch metadata that does not say "iframe" decides nothing: a navigation inside a
		// <frame>, <embed> or <object> (Sec-Fetch-Dest: frame/embed/object, mode navigate) whose
		// Referer is the page itself is still framed, so "not framed" is never answered before the
		// Referer was looked at
		for _, dest := range []string{"frame", "embed", "object", "document"} {
			hdr := map[string]string{"Sec-Fetch-Dest": dest, "Sec-Fetch-Mode": "navigate"}
			env := func(v ssa.Value) (constant.Value, bool) {
				if g := CallResult(v, 0, "(net/http.Header).Get"); g != nil {
					if k, isC := ConstString(PArgs(&g.Call)[1]); isC {
						if val, has := hdr[canonicalHeaderKey(k)]; has {
							return constant.MakeString(val), true
						}
					}
				}
				return nil, false
			}
			readsReferer := func(i ssa.Instruction) bool {
				cc := CallOf(i)
				if cc == nil {
					return false
				}
				switch CalleeName(cc) {
				case "(*net/http.Request).Referer":
					return true
				case "(net/http.Header).Get", "(net/http.Header).Values":
					k, isC := ConstString(PArgs(cc)[1])
					return isC && (strings.EqualFold(k, "Referer") || strings.EqualFold(k, "Referrer"))
				}
				return false
			}
			hit, _ := (&Walk{Target: func(i ssa.Instruction) bool {
				r, isR := i.(*ssa.Return)
				if !isR || i.Parent() != f {
					return false
				}
				cv, okv := Eval(ReturnValue(r, 0), env)
				return okv && cv.Kind() == constant.Bool && !constant.BoolVal(cv)
			}, Avoid: readsReferer, Edge: EdgeUnder(env), Ctx: f}).FromBlock(f.Blocks[0])
			c.Check("C14.T", "isAlreadyFramed:[Sec-Fetch-Dest="+dest+",navigate]:referer-still-consulted", p, f.Pos(), hit == nil, "with Sec-Fetch-Dest: "+dest+" the answer 'not framed' is only given after the Referer was examined", "with Sec-Fetch-Dest: "+dest+" and Sec-Fetch-Mode: navigate isAlreadyFramed answers false without looking at the Referer (return at "+posStr(p, hit)+"): a page that is already inside the banner's frame and navigates to itself gets a second banner frame")
		}
		// … and a top-level navigation (Sec-Fetch-Dest: document, mode navigate, or no fetch metadata at
		// all) without a Referer is NOT framed: it is the request the banner exists for
		for _, tc := range []map[string]string{{"Sec-Fetch-Dest": "document", "Sec-Fetch-Mode": "navigate"}, {}} {
			hdr := tc
			env := func(v ssa.Value) (constant.Value, bool) {
				if g := CallResult(v, 0, "(net/http.Header).Get"); g != nil {
					if k, isC := ConstString(PArgs(&g.Call)[1]); isC {
						return constant.MakeString(hdr[canonicalHeaderKey(k)]), true
					}
				}
				if g := CallResult(v, 0, "(*net/http.Request).Referer"); g != nil {
					return constant.MakeString(""), true
				}
				return nil, false
			}
			badRet := ""
			nret := 0
			(&Walk{Target: func(i ssa.Instruction) bool {
				r, isR := i.(*ssa.Return)
				if !isR || i.Parent() != f {
					return false
				}
				nret++
				cv, okv := Eval(ReturnValue(r, 0), env)
				if !okv || cv.Kind() != constant.Bool || constant.BoolVal(cv) {
					badRet = p.Pos(r.Pos())
				}
				return false
			}, Edge: EdgeUnder(env), Ctx: f}).FromBlock(f.Blocks[0])
			name := "no-fetch-metadata"
			if len(hdr) > 0 {
				name = "Sec-Fetch-Dest=document,navigate"
			}
			c.Check("C14.T", "isAlreadyFramed:["+name+",no-referer]:not-framed", p, f.Pos(), badRet == "" && nret > 0, "a top-level navigation without a Referer is not taken for a framed one: every reachable return is false", "with "+name+" and no Referer isAlreadyFramed can answer true (return at "+badRet+"): top-level page loads are taken for framed ones and are never given the banner frame")
		}
		c.Check("C14.T", "isAlreadyFramed:referer-path", p, f.Pos(), okRef, "the referer only counts when its path equals the request's", "the referer test no longer compares the paths")
	}
	inlineIn := func(pred func(ssa.Instruction) bool) bool {
		found := false
		if wh := p.Func("agent/banner.(*bannerResponseWriter).WriteHeader"); wh != nil {
			EachInstr(wh, func(i ssa.Instruction) {
				if pred(i) && IsCall(i, "(net/http.Header).Set") {
					found = true
				}
			})
		}
		return found
	}
	if p.Func("agent/banner.setNotCacheable") == nil {
		c.Check("C14.T", "setNotCacheable:constants", p, 0, inlineIn(isNotCacheable), "Cache-Control: no-cache, no-store is set in place in WriteHeader", "neither setNotCacheable nor an in-place Cache-Control: no-cache, no-store exists")
	} else if f := c.need(p, "C14.T", "agent/banner.setNotCacheable"); f != nil {
		got := map[string]string{}
		for _, call := range Calls(f, "(net/http.Header).Set") {
			k, _ := ConstString(PArgs(CallOf(call))[1])
			v, _ := ConstString(PArgs(CallOf(call))[2])
			got[canonicalHeaderKey(k)] = v
		}
		c.Check("C14.T", "setNotCacheable:constants", p, f.Pos(), strings.Contains(got["Cache-Control"], "no-store") && strings.Contains(got["Cache-Control"], "no-cache") && got["Pragma"] == "no-cache", "Cache-Control: no-cache, no-store, …; Pragma: no-cache", fmt.Sprintf("setNotCacheable sets %v", got))
	}
	if p.Func("agent/banner.setXFrameOptionsSameOrigin") == nil {
		c.Check("C14.T", "setXFrameOptions:constant", p, 0, inlineIn(isSameOrigin), "X-Frame-Options: sameorigin is set in place in WriteHeader", "neither setXFrameOptionsSameOrigin nor an in-place X-Frame-Options: sameorigin exists")
	} else if f := c.need(p, "C14.T", "agent/banner.setXFrameOptionsSameOrigin"); f != nil {
		ok := false
		for _, call := range Calls(f, "(net/http.Header).Set") {
			k, _ := ConstString(PArgs(CallOf(call))[1])
			v, _ := ConstString(PArgs(CallOf(call))[2])
			if canonicalHeaderKey(k) == "X-Frame-Options" && strings.EqualFold(v, "sameorigin") {
				ok = true
			}
		}
		c.Check("C14.T", "setXFrameOptions:constant", p, f.Pos(), ok, "X-Frame-Options: sameorigin", "X-Frame-Options is not set to sameorigin")
	}

	// ---- C14.S
	if sb := c.need(p, "C14.S", "agent/websockets.ShimBody"); sb != nil {
		cls := Closures(sb)
		if len(cls) != 1 {
			c.Unk("C14.S", "splice:closure", p, sb.Pos(), "expected one ModifyResponse closure")
			return
		}
		cl := cls[0]
		var test *ssa.Call
		for _, call := range Calls(cl, "strings.Contains") {
			if s, ok := ConstString(PArgs(CallOf(call))[1]); ok && s == "html" {
				test = call.(*ssa.Call)
			}
		}
		if test == nil {
			c.Bad("C14.S", "splice:html-gate", p, cl.Pos(), "the splice is not gated by strings.Contains(<content type>, \"html\")")
		} else {
			// the tested string is the response's Content-Type
			okCT := false
			SliceBack(PArgs(&test.Call)[0], func(v ssa.Value) bool {
				if g, ok := v.(*ssa.Call); ok && CalleeName(g.Common()) == "(net/http.Header).Get" {
					k, _ := ConstString(PArgs(&g.Call)[1])
					if canonicalHeaderKey(k) == "Content-Type" && PathOf(PArgs(&g.Call)[0]) == P(cl, 0)+".Header" {
						okCT = true
					}
				}
				return true
			})
			c.Check("C14.S", "splice:gate-on-response-content-type", p, test.Pos(), okCT, "the gate tests the response's own Content-Type", "the html gate does not test resp.Header.Get(\"Content-Type\")")
			env := func(html bool) Env {
				return func(v ssa.Value) (constant.Value, bool) {
					if v == ssa.Value(test) {
						return constant.MakeBool(html), true
					}
					return nil, false
				}
			}
			isAlter := func(i ssa.Instruction) bool {
				if st, ok := i.(*ssa.Store); ok {
					if base, _, ok := FieldAddrOf(st.Addr); ok && rootIs(base, ParamAt(cl, 0)) {
						return true
					}
				}
				if IsCall(i, "(net/http.Header).Del", "(net/http.Header).Set", "(net/http.Header).Add") {
					return PathOf(PArgs(CallOf(i))[0]) == P(cl, 0)+".Header"
				}
				if cc := CallOf(i); cc != nil && strings.HasSuffix(CalleeName(cc), ").Read") {
					return true // consuming body bytes is an alteration too
				}
				return false
			}
			h, _ := (&Walk{Target: isAlter, Edge: EdgeUnder(env(false))}).FromBlock(cl.Blocks[0])
			c.Check("C14.S", "splice:non-html-untouched", p, cl.Pos(), h == nil, "when the content type does not contain \"html\" the response's body, header and fields are not touched (nor is the body read)", "a non-HTML response is altered (or its body consumed) at "+posStr(p, h))
			h, _ = (&Walk{Target: isAlter, Edge: EdgeUnder(env(true))}).FromBlock(cl.Blocks[0])
			c.Check("C14.S", "splice:html-is-shimmed", p, cl.Pos(), h != nil, "HTML responses are shimmed", "HTML responses are no longer shimmed")
		}
		// the hook fails a response only for a genuine read error: every error it returns is the raw
		// error of the look-ahead read, compared with io.EOF itself (a wrapped EOF — an empty HTML
		// body read with io.ReadFull and decorated with %w — never equals io.EOF, and the reverse
		// proxy turns the hook's error into 502)
		{
			badErr := ""
			nerr := 0
			// the hook's own returns, and — where it returns what a new helper returned — that helper's
			own := map[*ssa.Function]bool{cl: true}
			for changed, k := true, 0; changed && k < 4; k++ {
				changed = false
				EachInstr(cl, func(i ssa.Instruction) {
					r, isR := i.(*ssa.Return)
					if !isR || !own[i.Parent()] || len(r.Results) == 0 {
						return
					}
					if call, isC := ReturnValue(r, len(r.Results)-1).(*ssa.Call); isC {
						if h := StaticFunc(call.Common()); h != nil && IsNewHelper(h) && !own[h] {
							own[h] = true
							changed = true
						}
					}
				})
			}
			EachInstr(cl, func(i ssa.Instruction) {
				r, isR := i.(*ssa.Return)
				if !isR || !own[i.Parent()] || len(r.Results) == 0 {
					return
				}
				ev := ReturnValue(r, len(r.Results)-1)
				if IsNilConst(ev) {
					return
				}
				if call, isC := ev.(*ssa.Call); isC {
					if h := StaticFunc(call.Common()); h != nil && own[h] && h != i.Parent() {
						return // judged at the helper's own returns
					}
				}
				nerr++
				raw := true
				for _, root := range Roots(ev) {
					ex, isE := root.(*ssa.Extract)
					if !isE {
						raw = false
						continue
					}
					call, isC := ex.Tuple.(*ssa.Call)
					if !isC {
						raw = false
						continue
					}
					n := CalleeName(call.Common())
					if !(call.Call.IsInvoke() && call.Call.Method.Name() == "Read") && n != "io.ReadFull" && n != "io.ReadAtLeast" {
						raw = false
					}
				}
				eofTested := false
				for _, g := range GuardConds(r) {
					if bo, isB := g.Cond.(*ssa.BinOp); isB && bo.Op == token.NEQ && g.Truth {
						if PathOf(bo.Y) == "*global:EOF" || PathOf(bo.Y) == "*global:io.EOF" || strings.HasSuffix(PathOf(bo.Y), "global:EOF") {
							if SameValue(bo.X, ev) {
								eofTested = true
							}
						}
					}
					if call := CallResult(g.Cond, 0, "errors.Is"); call != nil && !g.Truth {
						eofTested = true
					}
				}
				if !raw || !eofTested {
					badErr = fmt.Sprintf("the error returned at %s (raw read error: %v, compared with io.EOF: %v)", p.Pos(r.Pos()), raw, eofTested)
				}
			})
			c.Check("C14.S", "splice:fails-only-on-a-real-read-error", p, cl.Pos(), badErr == "", fmt.Sprintf("%d error return(s) of the hook: the raw error of the look-ahead read, returned only when it is not io.EOF", nerr), badErr+": an HTML-typed reply with an empty body (HEAD, 204, an empty 200) ends the look-ahead with EOF; if that is not recognised the hook fails and the client gets the reverse proxy's 502 instead of the backend's reply")
		}
		// new body
		okBody := false
		for _, a := range AllocsOf(cl, "agent/websockets.shimmedBody") {
			rv, ok1 := LiteralField(a, "reader")
			cv, ok2 := LiteralField(a, "closer")
			if !ok1 || !ok2 {
				continue
			}
			mr := CallResult(rv, 0, "io.MultiReader")
			if mr == nil {
				continue
			}
			// variadic slice must contain the original body as its last element
			hasOrig := false
			SliceBack(PArgs(&mr.Call)[0], func(v ssa.Value) bool {
				if PathOf(v) == P(cl, 0)+".Body" {
					hasOrig = true
				}
				return true
			})
			if hasOrig && PathOf(cv) == P(cl, 0)+".Body" {
				okBody = true
			}
		}
		// … and that is the only body the closure installs (no second, shortened body on some path),
		// and it does not close the original body itself
		if okBody {
			for _, st := range StoresToField([]*ssa.Function{cl}, "net/http.Response", "Body") {
				isShim := false
				for _, r := range Roots(st.Val) {
					if a, isA := r.(*ssa.Alloc); isA && NamedTypeRel(a.Type()) == "agent/websockets.shimmedBody" {
						isShim = true
					}
				}
				if !isShim {
					okBody = false
				}
			}
			EachInstr(cl, func(i ssa.Instruction) {
				if cc := CallOf(i); cc != nil && cc.IsInvoke() && cc.Method.Name() == "Close" && PathOf(cc.Value) == P(cl, 0)+".Body" {
					if _, isDefer := i.(*ssa.Defer); !isDefer {
						// closing on the read-error path is fine (the response is abandoned): only a close
						// on a path that returns nil (a served response) cuts the document
						if hit, _ := (&Walk{Target: func(j ssa.Instruction) bool {
							r, isR := j.(*ssa.Return)
							return isR && r.Parent() == cl && len(r.Results) == 1 && IsNilConst(ReturnValue(r, 0))
						}, Local: true}).FromInstr(i); hit != nil {
							okBody = false
						}
					}
				}
			})
		}
		c.Check("C14.S", "splice:body-is-prefix-plus-original", p, cl.Pos(), okBody, "the new body is MultiReader(<spliced prefix>, <original body>) and Close closes the original", "the new body does not continue with the original body / does not close it, or another body (without the original) is installed on some path, or the original is closed although the response is served: the rest of the document is lost or the backend connection leaks")
		// the splice itself
		rp := Calls(cl, "strings.Replace", "strings.ReplaceAll")
		ix := Calls(cl, "strings.Index", "strings.IndexByte", "bytes.Index")
		switch {
		case len(rp) == 1 && CalleeName(CallOf(rp[0])) == "strings.Replace":
			a := PArgs(CallOf(rp[0]))
			old, ok1 := ConstString(a[1])
			n, ok3 := ConstInt(a[3])
			okNew := false
			if bo, ok := a[2].(*ssa.BinOp); ok && bo.Op == token.ADD {
				if s, ok := ConstString(bo.X); ok && s == old {
					okNew = true
				}
			}
			c.Check("C14.S", "splice:insert-once-after-head", p, rp[0].Pos(), ok1 && old == "<head>" && ok3 && n == 1 && okNew, "strings.Replace(prefix, \"<head>\", \"<head>\"+script, 1): inserted once, immediately after the first <head>, nothing removed", "the splice is not strings.Replace(prefix, \"<head>\", \"<head>\"+script, 1)")
		case len(ix) >= 1:
			// index-and-slice agreement
			bad := ""
			for _, call := range ix {
				src := PArgs(CallOf(call))[0]
				EachInstr(cl, func(i ssa.Instruction) {
					sl, ok := i.(*ssa.Slice)
					if !ok {
						return
					}
					uses := false
					for _, b := range []ssa.Value{sl.Low, sl.High} {
						if b == nil {
							continue
						}
						r, _ := DerivesFrom(b, func(v ssa.Value) bool { return v == call.(ssa.Value) }, func(ssa.Value) bool { return false })
						if r {
							uses = true
						}
					}
					if uses && !SameValue(sl.X, src) {
						bad = "the offset found in " + PathOf(src) + " is used to slice " + PathOf(sl.X) + " at " + p.Pos(sl.Pos())
					}
				})
			}
			c.Check("C14.S", "splice:insert-once-after-head", p, ix[0].Pos(), bad == "", "index and slice operate on the same string", bad+": a transformation such as ToLower changes byte lengths (İ, K, invalid UTF-8), so the script lands inside or beyond the tag")
		default:
			c.Unk("C14.S", "splice:insert-once-after-head", p, cl.Pos(), "the splice is neither strings.Replace nor Index+slice: shape not readable")
		}
	}
}

func sortedKeys(m map[string]bool) []string {
	var out []string
	for k := range m {
		out = append(out, k)
	}
	sort.Strings(out)
	return out
}

package ipc

import (
	"fmt"
	"go/constant"
	"go/token"
	"go/types"
	"strings"

	"golang.org/x/tools/go/ssa"
)

func init() {
	register(&PropSpec{
		ID:    "C18",
		Progs: []string{"mod"},
		Explanation: "Full input/output equivalence with a longest-prefix specification over all backend sets is not decided (that is exhaustive testing or symbolic execution). Decided: " +
			"(L) liveness gate: in LookupBackend and lookupSharedBackend every return of a backend ID with nil error is dominated by the true branch of hasBackend(ctx, <that same ID>, backendTimeout); hasBackend is lastSeen != nil && Since(lastSeen) < timeout (truth table on boundary values); the window is 5 minutes; a datastore error counts as never seen; " +
			"(F) the shared lookup runs only on the error branch of the per-user selection, with the same path; (N) a failed lookup is answered 404 before any store write; " +
			"(S) shape of the selection function: it calls only strings.HasPrefix, len and fmt.Errorf, reads no package variable and ranges only over slices (determinism); a candidate replaces the current best only if HasPrefix(path, p) holds for the range element p of the current backend's prefixes, and only when there is no best yet or len(p) > len(best prefix) (truth table on the two lengths); the recorded ID and prefix belong to the same backend / the same p; the error return is exactly the no-match case; " +
			"(C) routing goes straight to the persistent store: the caching store delegates LookupBackend purely and keeps no state. " +
			"Both loops of the selection (backends × prefixes) are left only when their range is exhausted. " +
			"The store call that records liveness runs under the handler's context or the long-poll window derived from it once, outside the loop. " +
			"(N, second part) the lookup is keyed by the decoded r.URL.Path; (L, second part) every successful registerBackendAsSeen has written the tracker with time.Now()." +
			" (L, third part) the store's list call returns only after registerBackendAsSeen ran, under the caller's context.",
		Assumptions: []string{"datastore queries return the registered backends", "time.Since is monotone"},
		Run:         runC18,
	})
}

func runC18(c *Ctx) {
	p := c.Progs["mod"]
	c.Rule("C18.Y", "compatibility with the party that is not changed with this code: end users are served under every service name other than the agent-facing ones", 1)
	ruleEndUserHandlerForEveryOtherService(c, p, "C18.Y")
	c.Rule("C18.L", "liveness gate", 12)
	c.Rule("C18.F", "shared fallback only when the user has no match", 3)
	c.Rule("C18.N", "lookup by the user's e-mail and the request path; 404 when it fails; stored backend entities stay loadable", 6)
	c.Rule("C18.S", "shape of the most-specific-prefix selection", 9)
	ruleBackendDefinitionsVerbatim(c, p, "C18.S")
	ruleBackendQueriesUnbounded(c, p, "C18.S")
	c.Rule("C18.C", "no cache or memo in front of the routing decision, nor in front of the polls that keep a backend live", 3)
	const sp = ModPath + "/app/store"
	hb := "(*" + sp + ".persistentStore).hasBackend"
	ms := sp + ".mostSpecificMatchingBackend"

	for _, fn := range []string{"app/store.(*persistentStore).LookupBackend", "app/store.(*persistentStore).lookupSharedBackend"} {
		f := c.need(p, "C18.L", fn)
		if f == nil {
			continue
		}
		n := 0
		for _, r := range Returns(f) {
			if !IsNilConst(ReturnValue(r, 1)) {
				continue
			}
			v := ReturnValue(r, 0)
			// returning the result of the shared lookup is a delegation, judged there
			if CallResult(v, 0, "(*"+sp+".persistentStore).lookupSharedBackend") != nil {
				continue
			}
			n++
			ok := false
			for _, g := range GuardingIfs(r) {
				cond, ts := BoolTest(g.If)
				if call := CallResult(cond, 0, hb); call != nil && g.Succ == ts {
					if SameValue(PArgs(&call.Call)[2], v) {
						tv, isC := ConstInt(PArgs(&call.Call)[3])
						ok = isC && tv == 5*60*1_000_000_000
					}
				}
			}
			c.Check("C18.L", fmt.Sprintf("%s:return#%d-live", fn, n), p, r.Pos(), ok, "the returned backend passed hasBackend(ctx, <same ID>, 5 min)", "a backend ID is returned by "+fn+" without the liveness test hasBackend(ctx, <that ID>, 5 min) having succeeded: requests are routed to backends whose agent is gone")
		}
		// returns through the shared lookup: the whole tuple
		for _, r := range Returns(f) {
			if e, ok := r.Results[0].(*ssa.Extract); ok {
				if call, ok := e.Tuple.(*ssa.Call); ok && CalleeName(call.Common()) == "(*"+sp+".persistentStore).lookupSharedBackend" {
					n++
				}
			}
		}
		if n == 0 {
			c.Bad("C18.L", fn+":success-returns", p, f.Pos(), "no success return found")
		}
	}
	if f := c.need(p, "C18.L", "app.waitForNextRequests"); f != nil {
		if lp := c.UniqueCall("C18.L", p, f, false, "("+ModPath+"/app/types.Store).ListPendingRequests"); lp != nil {
			ctxArg := Args(CallOf(lp))[1]
			okc := PathOf(ctxArg) == P(f, 0)
			if wt := CallResult(ctxArg, 0, "context.WithTimeout", "context.WithDeadline", "context.WithCancel"); wt != nil {
				// the long-poll window itself: derived once, outside the loop, from the handler's context
				okc = !InLoop(wt.Block()) && PathOf(PArgs(&wt.Call)[0]) == P(f, 0)
			}
			c.Check("C18.L", "poll:liveness-recorded-under-the-callers-context", p, lp.Pos(), okc, "ListPendingRequests (which also records that the backend was seen) runs under the handler's context / the long-poll window derived from it once", "ListPendingRequests runs under a context derived per iteration ("+PathOf(ctxArg)+"): the store uses that context for the liveness write too, so a short per-poll timeout aborts registerBackendAsSeen on every iteration while the query keeps succeeding — a continuously polling agent is never recorded as live and its users get 404")
		}
	}
	if f := c.need(p, "C18.L", "app/store.(*persistentStore).hasBackend"); f != nil {
		since := Calls(f, "time.Since")
		ls := Calls(f, sp+".backendLastSeen")
		if len(since) == 1 && len(ls) == 1 {
			c.ArgIs("C18.L", "hasBackend:last-seen-of-named-backend", p, ls[0], 1, "liveness of the backend asked about", P(f, 2))
			env := func(nilSeen bool, d int64) Env {
				return func(v ssa.Value) (constant.Value, bool) {
					if v == since[0].(ssa.Value) {
						return IntC(d), true
					}
					if prm := ParamAt(f, 3); prm != nil && v == ssa.Value(prm) {
						return IntC(1000), true
					}
					if bo, ok := v.(*ssa.BinOp); ok && (bo.Op == token.NEQ || bo.Op == token.EQL) && IsNilConst(bo.Y) && bo.X == ls[0].(ssa.Value) {
						return constant.MakeBool((bo.Op == token.NEQ) != nilSeen), true
					}
					return nil, false
				}
			}
			// which return values are reachable: evaluate by checking reachability of "true"
			canTrue := func(e Env) bool {
				// result is a phi of false-const and the comparison; evaluate the comparison under env and its reachability
				reach := false
				for _, r := range Returns(f) {
					v := ReturnValue(r, 0)
					for _, root := range Roots(v) {
						if cv, ok := root.(*ssa.Const); ok && cv.Value != nil && cv.Value.Kind() == constant.Bool {
							if constant.BoolVal(cv.Value) {
								reach = true
							}
							continue
						}
						if val, ok := Eval(root, e); ok && val.Kind() == constant.Bool && constant.BoolVal(val) {
							// the block computing it must be reachable
							if in, isI := root.(ssa.Instruction); isI {
								if h, _ := (&Walk{Target: func(i ssa.Instruction) bool { return i == in }, Edge: EdgeUnder(e)}).FromBlock(f.Blocks[0]); h != nil {
									reach = true
								}
							}
						}
					}
				}
				return reach
			}
			ok := canTrue(env(false, 999)) && !canTrue(env(false, 1000)) && !canTrue(env(false, 1001)) && !canTrue(env(true, 1))
			c.Check("C18.L", "hasBackend:truth-table", p, f.Pos(), ok, "live iff lastSeen != nil and Since(lastSeen) < timeout (lt: live, eq: dead, gt: dead, never seen: dead)", "hasBackend does not implement 'seen and Since(lastSeen) < timeout' on the boundary values")
		} else {
			c.Unk("C18.L", "hasBackend:truth-table", p, f.Pos(), "hasBackend no longer has one time.Since and one backendLastSeen call")
		}
	}
	if f := c.need(p, "C18.L", "app/store.backendLastSeen"); f != nil {
		ok := false
		EachInstr(f, func(i ssa.Instruction) {
			if x, isIf := i.(*ssa.If); isIf {
				if v, s, k := ErrNilTest(x); k && CallResult(v, 0, "google.golang.org/appengine/v2/datastore.Get") != nil {
					for _, in := range x.Block().Succs[s].Instrs {
						if r, isR := in.(*ssa.Return); isR && IsNilConst(ReturnValue(r, 0)) {
							ok = true
						}
					}
				}
			}
		})
		c.Check("C18.L", "backendLastSeen:error-means-never-seen", p, f.Pos(), ok, "a datastore error yields nil (= dead)", "a datastore error in backendLastSeen does not yield nil")
		if nk := c.UniqueCall("C18.L", p, f, false, "google.golang.org/appengine/v2/datastore.NewKey"); nk != nil {
			a := PArgs(CallOf(nk))
			k, _ := ConstString(a[1])
			c.Check("C18.L", "backendLastSeen:tracker-of-named-backend", p, nk.Pos(), k == "backendTracker" && PathOf(a[2]) == P(f, 1), "reads the tracker entity of the backend asked about", "backendLastSeen does not read the backendTracker entity keyed by its backendID parameter")
		}
	}
	// the tracker is refreshed by the agent's list call
	// the list call doubles as the record "the agent polled": only the agent-facing pending
	// endpoint may make it (a list call on the end-user path — for a queue-length check, say —
	// lets user traffic keep a backend live whose agent is gone)
	{
		stray := ""
		n := 0
		for _, fn := range p.FuncsIn("app") {
			for _, call := range Calls(fn, storeIface+".ListPendingRequests") {
				n++
				if FuncName(Owner(call)) != "app.waitForNextRequests" {
					stray = FuncName(Owner(call)) + " at " + p.Pos(call.Pos())
				}
			}
		}
		c.Check("C18.L", "seen:recorded-by-the-agents-poll-only", p, 0, stray == "" && n > 0, "Store.ListPendingRequests is called by the agent-facing wait loop only", "Store.ListPendingRequests is also called by "+stray+": the store records every list call as 'the agent polled', so that caller keeps the backend inside the liveness window without any agent")
	}
	// the poll records the backend as seen before it returns, under the caller's own context
	if f := c.need(p, "C18.L", "app/store.(*persistentStore).ListPendingRequests"); f != nil {
		var site ssa.Instruction
		var owner *ssa.Function
		for _, fn := range WithClosures(f) {
			for _, call := range Calls(fn, "(*"+sp+".persistentStore).registerBackendAsSeen") {
				site, owner = call, fn
			}
		}
		if site == nil {
			c.Bad("C18.L", "poll:records-seen-before-returning", p, f.Pos(), "the store's ListPendingRequests no longer calls registerBackendAsSeen: a polling agent is never recorded as live")
		} else {
			why := ""
			if _, isCall := site.(*ssa.Call); !isCall {
				why = "registerBackendAsSeen is started with go/defer"
			}
			if owner != f && Owner(site) != f {
				// in a goroutine of its own: the function waits for it on every path to a return
				waits := Calls(f, "(*sync.WaitGroup).Wait")
				done := false
				EachInstrRaw(owner, func(i ssa.Instruction) {
					if IsCall(i, "(*sync.WaitGroup).Done") {
						done = true
					}
				})
				awaited := done && len(waits) > 0
				if awaited {
					miss, _ := (&Walk{Target: func(i ssa.Instruction) bool {
						r, isR := i.(*ssa.Return)
						return isR && r.Parent() == f
					}, Avoid: func(i ssa.Instruction) bool { return IsCall(i, "(*sync.WaitGroup).Wait") }, Local: true}).FromBlock(f.Blocks[0])
					awaited = miss == nil
				}
				if !awaited {
					why = "the goroutine that records the backend as seen is not awaited (WaitGroup.Done in it, Wait on every path to a return)"
				}
			}
			// the context it runs under is the caller's, not one this call cancels when it returns
			ctxArg := Args(CallOf(site))[1]
			for _, r := range Roots(ctxArg) {
				if CallResult(r, 0, "context.WithCancel", "context.WithTimeout", "context.WithDeadline") != nil {
					why = "registerBackendAsSeen runs under a context derived (and cancelled) by ListPendingRequests itself"
				}
			}
			c.Check("C18.L", "poll:records-seen-before-returning", p, site.Pos(), why == "", "ListPendingRequests returns only after registerBackendAsSeen has run, under the caller's context", why+": the tracker write is abandoned whenever the query finishes first — an agent that polls continuously is not recorded as live and its users get 404")
		}
	}
	// (re-)registering a backend always puts its tracker back to "not seen": whoever is named
	// as the backend's agent now has not polled yet, whatever an earlier agent did
	if f := c.need(p, "C18.L", "app/store.(*persistentStore).AddBackend"); f != nil && len(f.Blocks) > 0 {
		isTrackerPut := func(i ssa.Instruction) bool {
			cc := CallOf(i)
			if cc == nil || CalleeName(cc) != "google.golang.org/appengine/v2/datastore.Put" {
				return false
			}
			src := PArgs(cc)[2]
			for _, r := range Roots(src) {
				if NamedTypeRel(r.Type()) == "app/store.backendTracker" {
					return true
				}
			}
			return false
		}
		hit, _ := (&Walk{Target: func(i ssa.Instruction) bool {
			r, isR := i.(*ssa.Return)
			return isR && r.Parent() == f && IsNilConst(ReturnValue(r, 0))
		}, Avoid: isTrackerPut}).FromBlock(f.Blocks[0])
		where := ""
		if hit != nil {
			where = p.Pos(hit.Pos())
		}
		okOld := false
		for _, put := range Calls(f, "google.golang.org/appengine/v2/datastore.Put") {
			if !isTrackerPut(put) {
				continue
			}
			for _, r := range Roots(PArgs(CallOf(put))[2]) {
				if v, has := LiteralField(r, "LastSeen"); has {
					if add := CallResult(v, 0, "(time.Time).Add"); add != nil {
						arg := PArgs(&add.Call)[1]
						k, isC := ConstInt(arg)
						if !isC {
							// the negation of a configured window (-d.cfg.backendTimeout)
							if neg, isNeg := Peel(arg).(*ssa.UnOp); isNeg && neg.Op == token.SUB {
								if kk, isCC := ConstInt(neg.X); isCC {
									k, isC = -kk, true
								}
							}
						}
						if isC && k <= -int64(5*60*1e9) && CallResult(PArgs(&add.Call)[0], 0, "time.Now") != nil {
							okOld = true
						}
					}
				}
			}
		}
		c.Check("C18.L", "AddBackend:every-success-reset-the-tracker", p, f.Pos(), hit == nil && okOld, "a nil return of AddBackend is only reached through a Put of the tracker with LastSeen = now minus the liveness window", "AddBackend can succeed without putting the tracker back to 'not seen' (return at "+where+", tracker value ok: "+fmt.Sprint(okOld)+"): a backend re-registered for another agent keeps the liveness the previous agent earned, so requests are routed to it although its agent has never polled")
	}
	if f := c.need(p, "C18.L", "app/store.(*persistentStore).registerBackendAsSeen"); f != nil {
		if nk := c.UniqueCall("C18.L", p, f, false, "google.golang.org/appengine/v2/datastore.NewKey"); nk != nil {
			a := PArgs(CallOf(nk))
			k, _ := ConstString(a[1])
			c.Check("C18.L", "registerBackendAsSeen:same-tracker-key", p, nk.Pos(), k == "backendTracker" && PathOf(a[2]) == P(f, 2), "the agent's poll refreshes the same tracker entity the liveness test reads", "registerBackendAsSeen writes a different entity than backendLastSeen reads")
		}
		// every successful call wrote the tracker with the current time
		isPut := func(i ssa.Instruction) bool {
			cc := CallOf(i)
			return cc != nil && CalleeName(cc) == "google.golang.org/appengine/v2/datastore.Put"
		}
		if len(f.Blocks) > 0 {
			hit, _ := (&Walk{Target: func(i ssa.Instruction) bool {
				r, isR := i.(*ssa.Return)
				return isR && r.Parent() == f && IsNilConst(ReturnValue(r, 0))
			}, Avoid: isPut}).FromBlock(f.Blocks[0])
			where := ""
			if hit != nil {
				where = p.Pos(hit.Pos())
			}
			okNow := false
			if put := c.UniqueCall("C18.L", p, f, false, "google.golang.org/appengine/v2/datastore.Put"); put != nil {
				for _, r := range Roots(PArgs(CallOf(put))[2]) {
					if v, has := LiteralField(r, "LastSeen"); has && CallResult(v, 0, "time.Now") != nil {
						okNow = true
					}
				}
			}
			c.Check("C18.L", "registerBackendAsSeen:every-success-wrote-now", p, f.Pos(), hit == nil && okNow, "a nil return is only reached through datastore.Put of a tracker whose LastSeen is time.Now()", "registerBackendAsSeen can report success without writing the tracker ("+where+") or writes a time other than time.Now(): a polling agent is not recorded as seen (e.g. a per-instance memo that skips the write goes stale when AddBackend/DeleteBackend rewrite the tracker), and its users get 404 inside the liveness window")
		}
	}

	// ---- C18.F
	if f := c.need(p, "C18.F", "app/store.(*persistentStore).LookupBackend"); f != nil {
		sh := c.UniqueCall("C18.F", p, f, false, "(*"+sp+".persistentStore).lookupSharedBackend")
		sel := c.UniqueCall("C18.F", p, f, false, ms)
		if sh != nil && sel != nil {
			ok := false
			for _, g := range GuardingIfs(sh) {
				if v, s, k := ErrNilTest(g.If); k && CallResult(v, 1, ms) != nil && g.Succ == s {
					ok = true
				}
				// errors.Is(<error of the selection>, sentinel) holds only for a non-nil error
				cond, trueSucc := BoolTest(g.If)
				if call, isCall := cond.(*ssa.Call); isCall && CalleeName(call.Common()) == "errors.Is" && g.Succ == trueSucc {
					if CallResult(call.Call.Args[0], 1, ms) != nil {
						ok = true
					}
				}
			}
			c.Check("C18.F", "fallback:only-when-no-user-match", p, sh.Pos(), ok, "the shared lookup runs only on the error branch of the per-user selection (never when the user has a match, even a dead one)", "the shared backends are consulted although the user has a matching backend of their own (or before the user's own backends)")
			c.ArgIs("C18.F", "fallback:same-path", p, sh, 2, "the shared lookup uses the same path", P(f, 3))
			c.ArgIs("C18.F", "selection:on-request-path", p, sel, 0, "the selection judges the request path", P(f, 3))
		}
	}

	// ---- C18.N
	ruleStoredEntityLoadable(c, p, "C18.N", "app/types.Backend", "app/store.backendTracker", "app/store.activityTracker")
	if f := c.need(p, "C18.N", "app.proxyHandler"); f != nil {
		if lb := c.UniqueCall("C18.N", p, f, false, storeIface+".LookupBackend"); lb != nil {
			var ifi *ssa.If
			fail := 0
			EachInstr(f, func(i ssa.Instruction) {
				if x, ok := i.(*ssa.If); ok {
					if v, s, ok := ErrNilTest(x); ok && CallResult(v, 1, storeIface+".LookupBackend") != nil {
						ifi, fail = x, s
					}
				}
			})
			ok := false
			if ifi != nil {
				w := ssa.Value(ParamAt(f, 3))
				h1, _ := (&Walk{Target: IsReturn, Avoid: func(i ssa.Instruction) bool { st, k := producesResponse(i, w); return k && st == 404 }}).FromBlock(ifi.Block().Succs[fail])
				h2, _ := (&Walk{Target: func(i ssa.Instruction) bool { return isStoreCall(i) || isAppHelperCall(i) }}).FromBlock(ifi.Block().Succs[fail])
				ok = h1 == nil && h2 == nil
			}
			c.ArgIs("C18.N", "proxy:lookup-by-the-users-email", p, lb, 2, "the backend is chosen for the signed-in user's Email, the identity backends are registered under (not a display form of it: User.String() drops the domain of addresses in the auth domain)", "result:google.golang.org/appengine/v2/user.Current.Email")
			c.ArgIs("C18.N", "proxy:lookup-by-decoded-request-path", p, lb, 3, "the backend is chosen by r.URL.Path, the decoded path the registered prefixes are written in", P(f, 4)+".URL.Path")
			c.Check("C18.N", "proxy:no-backend-404", p, lb.Pos(), ok, "a failed lookup is answered 404 on every path, before any store access", "a failed backend lookup is not answered with 404 (or the store is touched first)")
		}
	}

	// ---- C18.S
	if f := c.need(p, "C18.S", "app/store.mostSpecificMatchingBackend"); f != nil {
		// purity
		bad := ""
		EachInstr(f, func(i ssa.Instruction) {
			if cc := CallOf(i); cc != nil {
				switch n := CalleeName(cc); n {
				case "strings.HasPrefix", "builtin:len", "fmt.Errorf", "errors.New":
				default:
					bad = "calls " + n
				}
			}
			switch x := i.(type) {
			case *ssa.Range:
				bad = "ranges over a map/string (iteration order)"
			case *ssa.UnOp:
				if g, isG := x.X.(*ssa.Global); isG {
					// a sentinel error (var errX = errors.New(…)) is a constant in all but name
					pt, _ := g.Type().Underlying().(*types.Pointer)
					if pt == nil || pt.Elem().String() != "error" || !sentinelError(p, g) {
						bad = "reads a package variable"
					}
				}
			case *ssa.Go, *ssa.Defer, *ssa.Send, *ssa.Select, *ssa.MakeClosure:
				bad = "uses " + strings.TrimPrefix(fmt.Sprintf("%T", x), "*ssa.")
			}
		})
		c.Check("C18.S", "selection:pure-and-deterministic", p, f.Pos(), bad == "", "calls only strings.HasPrefix, len and fmt.Errorf, reads no package variable, ranges only over slices: the choice depends only on (path, backends)", "mostSpecificMatchingBackend "+bad+": the rule cannot establish that the choice depends only on the registered backends and the path")
		// every prefix of every backend is considered: neither loop is left early
		ex, nl := LoopEarlyExits(f)
		why := ""
		if len(ex) > 0 {
			last := ex[0].From.Instrs[len(ex[0].From.Instrs)-1]
			why = "the loop headed at " + p.Pos(firstPos(ex[0].Header)) + " is left early from " + p.Pos(last.Pos()) + firstPosStr(p, ex[0].From)
		}
		c.Check("C18.S", "selection:all-prefixes-of-all-backends-considered", p, f.Pos(), len(ex) == 0 && nl == 2, "two nested loops (backends × path prefixes), each left only when its range is exhausted: every registered prefix takes part in the comparison", fmt.Sprintf("the selection does not examine every prefix of every backend (%d loops; %s): a backend is judged by the first prefix that matches rather than its longest one, or later backends are never compared — a longer matching prefix can lose", nl, why))
		// the two result phis
		var idPhi, pfxPhi *ssa.Phi
		var updBlk *ssa.BasicBlock
		var newID, newPfx ssa.Value
		for _, b := range f.Blocks {
			for _, in := range b.Instrs {
				ph, ok := in.(*ssa.Phi)
				if !ok {
					break
				}
				for k, e := range ph.Edges {
					if _, fld, ok := FieldLoad(e); ok && fld == "BackendID" {
						idPhi, updBlk, newID = ph, b.Preds[k], e
					}
				}
			}
		}
		if idPhi != nil {
			for _, in := range idPhi.Block().Instrs {
				ph, ok := in.(*ssa.Phi)
				if !ok {
					break
				}
				if ph == idPhi {
					continue
				}
				for k, e := range ph.Edges {
					if idPhi.Block().Preds[k] == updBlk && PathOf(e) != "phi" {
						if _, isC := e.(*ssa.Const); !isC && e.Type().String() == "string" && e != ssa.Value(ph) {
							pfxPhi, newPfx = ph, e
						}
					}
				}
			}
		}
		if idPhi == nil || pfxPhi == nil {
			c.Unk("C18.S", "selection:accumulate-the-best-shape", p, f.Pos(), "the function is not in the accumulate-the-best shape (loop-carried best ID and best prefix updated together): the rule judges comparisons by truth table but depends on this shape")
		} else {
			hp := Calls(f, "strings.HasPrefix")
			okHP := len(hp) == 1
			if okHP {
				a := PArgs(CallOf(hp[0]))
				okHP = PathOf(a[0]) == P(f, 0) && SameValue(a[1], newPfx) && strings.HasSuffix(PathOf(a[1]), ".PathPrefixes[]")
			}
			c.Check("C18.S", "selection:match-is-HasPrefix-path-p", p, f.Pos(), okHP, "a candidate must satisfy strings.HasPrefix(path, p) for the range element p of the current backend's PathPrefixes; p is what is recorded as the best prefix", "the match test is not strings.HasPrefix(<path parameter>, <range element of b.PathPrefixes that is recorded as best prefix>)")
			// same backend
			b1, _, _ := FieldLoad(newID)
			okB := false
			if hpOK := okHP; hpOK {
				// p = b.PathPrefixes[i] — base of PathPrefixes load must be the same b as BackendID's
				if ia, ok := Roots(newPfx)[0].(*ssa.UnOp); ok {
					if idx, ok := ia.X.(*ssa.IndexAddr); ok {
						if b2, fld, ok := FieldLoad(idx.X); ok && fld == "PathPrefixes" && b2 == b1 {
							okB = true
						}
					}
				}
			}
			c.Check("C18.S", "selection:id-and-prefix-of-same-backend", p, f.Pos(), okB, "the recorded ID is BackendID of the backend whose prefix matched", "the recorded backend ID does not belong to the backend whose prefix matched")
			// update is control-dependent on HasPrefix true
			okDep := false
			if len(hp) == 1 {
				okDep = func() bool {
					h, _ := (&Walk{Target: func(i ssa.Instruction) bool { return i.Block() == updBlk }, Edge: EdgeUnder(func(v ssa.Value) (constant.Value, bool) {
						if v == hp[0].(ssa.Value) {
							return constant.MakeBool(false), true
						}
						return nil, false
					})}).FromInstr(hp[0])
					return h == nil
				}()
			}
			c.Check("C18.S", "selection:update-only-on-match", p, f.Pos(), okDep, "without a prefix match the best candidate is not replaced", "the best candidate can be replaced by a backend whose prefix does not match the path")
			// truth table on lengths
			var lenNew, lenBest ssa.Value
			EachInstr(f, func(i ssa.Instruction) {
				call, ok := i.(*ssa.Call)
				if !ok {
					return
				}
				if b, isB := call.Call.Value.(*ssa.Builtin); isB && b.Name() == "len" {
					if SameValue(PArgs(&call.Call)[0], newPfx) {
						lenNew = call
					}
					if a, isPhi := PArgs(&call.Call)[0].(*ssa.Phi); isPhi && phiWeb(pfxPhi)[a] {
						lenBest = call
					}
				}
			})
			if lenNew == nil || lenBest == nil || len(hp) != 1 {
				c.Bad("C18.S", "selection:longer-prefix-wins", p, f.Pos(), "the update condition does not compare len(p) with len(<best prefix so far>)")
			} else {
				env := func(ln, lb int64, haveBest bool) Env {
					return func(v ssa.Value) (constant.Value, bool) {
						switch v {
						case lenNew:
							return IntC(ln), true
						case lenBest:
							return IntC(lb), true
						case hp[0].(ssa.Value):
							return constant.MakeBool(true), true
						}
						if ph, isPhi := v.(*ssa.Phi); isPhi && phiWeb(idPhi)[ph] {
							if haveBest {
								return constant.MakeString("some-backend"), true
							}
							return constant.MakeString(""), true
						}
						return nil, false
					}
				}
				upd := func(e Env) bool {
					h, _ := (&Walk{Target: func(i ssa.Instruction) bool { return i.Block() == updBlk }, Edge: EdgeUnder(e)}).FromInstr(hp[0])
					return h != nil
				}
				ok := upd(env(5, 3, true)) && !upd(env(3, 5, true)) && upd(env(1, 0, false)) && upd(env(3, 5, false))
				c.Check("C18.S", "selection:longer-prefix-wins", p, f.Pos(), ok, "with a best candidate present the update happens for len(p) > len(best) and not for len(p) < len(best); without one it always happens", "the update condition is not 'no best yet, or len(p) > len(best prefix)': a shorter matching prefix can displace a longer one (or the first match is never taken)")
			}
			// error return is exactly the no-match case, success returns the best id
			okRet := true
			nErr, nOK := 0, 0
			for _, r := range Returns(f) {
				if IsNilConst(ReturnValue(r, 1)) {
					nOK++
					rs := Roots(ReturnValue(r, 0))
					okr := false
					for _, x := range rs {
						if x == newID {
							okr = true
						}
					}
					if !okr {
						okRet = false
					}
				} else {
					ge := false
					early := false
					for _, g := range GuardingIfs(r) {
						if bo, isB := g.If.Cond.(*ssa.BinOp); isB && bo.Op == token.EQL && g.Succ == 0 {
							if s, isC := ConstString(bo.Y); isC && s == "" {
								ge = true
							}
							// an early exit for an empty candidate list: the loop below would have
							// found nothing either
							if n, isC := ConstInt(bo.Y); isC && n == 0 {
								if ln, isCall := bo.X.(*ssa.Call); isCall {
									if b, isBI := ln.Call.Value.(*ssa.Builtin); isBI && b.Name() == "len" && len(ln.Call.Args) == 1 && func() bool { _, isP := Peel(ln.Call.Args[0]).(*ssa.Parameter); return isP }() {
										early = true
									}
								}
							}
						}
					}
					if early {
						continue
					}
					nErr++
					if !ge {
						okRet = false
					}
				}
			}
			c.Check("C18.S", "selection:returns", p, f.Pos(), okRet && nErr == 1 && nOK == 1, "returns the best ID, or an error exactly when there is none", "the selection function does not return exactly (best ID, nil) or (\"\", error when no best)")
		}
	}

	// ---- C18.C
	{
		sub := NewCtx("tmp", c.Progs)
		c17Sibling(sub, p, "C17.S")
		for _, o := range sub.Obs {
			if strings.HasSuffix(o.Key, "cachingStore.LookupBackend") || strings.HasSuffix(o.Key, "cachingStore:stateless") || strings.HasSuffix(o.Key, "cachingStore.ListPendingRequests") {
				o.Rule = "C18.C"
				o.Key = "C18.C|" + strings.SplitN(o.Key, "|", 2)[1]
				c.Obs = append(c.Obs, o)
			}
		}
	}
}

func firstPos(b *ssa.BasicBlock) token.Pos {
	for _, i := range b.Instrs {
		if i.Pos() != token.NoPos {
			return i.Pos()
		}
	}
	return token.NoPos
}

func firstPosStr(p *Prog, b *ssa.BasicBlock) string {
	if fp := firstPos(b); fp != token.NoPos {
		return " (block at " + p.Pos(fp) + ")"
	}
	return ""
}

// phiWeb: the phis connected to ph through phi edges (the SSA names of one
// loop-carried source variable).
func phiWeb(ph *ssa.Phi) map[*ssa.Phi]bool {
	web := map[*ssa.Phi]bool{}
	if ph == nil {
		return web
	}
	var rec func(x *ssa.Phi)
	rec = func(x *ssa.Phi) {
		if web[x] {
			return
		}
		web[x] = true
		for _, e := range x.Edges {
			if y, ok := e.(*ssa.Phi); ok {
				rec(y)
			}
		}
		for _, r := range Refs(x) {
			if y, ok := r.(*ssa.Phi); ok {
				rec(y)
			}
		}
	}
	rec(ph)
	return web
}

// sentinelError: the package variable is assigned once, in its package's initialiser, from
// errors.New / fmt.Errorf, and never stored to again.
func sentinelError(p *Prog, g *ssa.Global) bool {
	n, ok := 0, true
	for _, fn := range p.AllFuncs {
		EachInstrRaw(fn, func(i ssa.Instruction) {
			st, isSt := i.(*ssa.Store)
			if !isSt || st.Addr != ssa.Value(g) {
				return
			}
			n++
			if fn.Name() != "init" || fn.Parent() != nil {
				ok = false
				return
			}
			v := st.Val
			if mi, isMI := v.(*ssa.MakeInterface); isMI {
				v = mi.X
			}
			if CallResult(v, 0, "errors.New", "fmt.Errorf") == nil {
				ok = false
			}
		})
	}
	return ok && n == 1
}

// ruleBackendDefinitionsVerbatim: routing compares identities and prefixes as they were
// registered. No code rewrites the identity fields of a backend definition (a normalisation
// that lower-cases e-mail addresses also turns the sentinel "allUsers" into a value the
// shared-backend query never matches).
func ruleBackendDefinitionsVerbatim(c *Ctx, p *Prog, rule string) {
	bad := ""
	n := 0
	for _, pkg := range []string{"app", "app/store", "app/cache"} {
		for _, fn := range p.AllFuncsIn(pkg) {
			EachInstrRaw(fn, func(i ssa.Instruction) {
				st, ok := i.(*ssa.Store)
				if !ok {
					return
				}
				base, fld, ok := FieldAddrOf(st.Addr)
				if !ok || NamedTypeRel(base.Type()) != "app/types.Backend" {
					return
				}
				n++
				switch fld {
				case "EndUser", "BackendUser", "BackendID", "PathPrefixes":
					bad = "field " + fld + " is rewritten in " + FuncName(fn) + " at " + p.Pos(st.Pos())
				}
			})
		}
	}
	c.Check(rule, "definitions:identity-fields-stored-as-registered", p, 0, bad == "", fmt.Sprintf("%d stores into backend definitions: none rewrites EndUser, BackendUser, BackendID or PathPrefixes", n), "a backend definition's "+bad+": the value routing compares is no longer the one registered (lower-casing turns the sentinel allUsers into a value the shared-backend query never matches, so users without a backend of their own get 404 although a live shared backend exists)")
}

// ruleBackendQueriesUnbounded: the queries that list candidate backends for a lookup are not
// cut short (Limit/Offset/cursor): the most specific prefix can belong to any of them.
func ruleBackendQueriesUnbounded(c *Ctx, p *Prog, rule string) {
	tops := map[string]bool{"app/store.(*persistentStore).LookupBackend": true, "app/store.(*persistentStore).lookupSharedBackend": true}
	bad := ""
	nq := 0
	for _, fn := range p.AllFuncsIn("app/store") {
		top := TopFunc(fn)
		inLookup := tops[FuncName(fn)] || tops[FuncName(top)]
		if !inLookup && IsNewHelper(fn) {
			for t := range tops {
				if tf := p.Func(t); tf != nil && helperCalledFrom(fn, tf) {
					inLookup = true
				}
			}
		}
		if !inLookup {
			continue
		}
		EachInstrRaw(fn, func(i ssa.Instruction) {
			cc := CallOf(i)
			if cc == nil {
				return
			}
			n := CalleeName(cc)
			if !strings.HasPrefix(n, "(*google.golang.org/appengine/v2/datastore.Query).") {
				return
			}
			nq++
			switch strings.TrimPrefix(n, "(*google.golang.org/appengine/v2/datastore.Query).") {
			case "Limit", "Offset", "Start", "End":
				bad = n[strings.LastIndex(n, ".")+1:] + " in " + FuncName(fn) + " at " + p.Pos(i.Pos())
			}
		})
	}
	c.Check(rule, "selection:candidate-queries-are-complete", p, 0, bad == "" && nq >= 2, fmt.Sprintf("%d query calls in the two lookups: no Limit/Offset/cursor", nq), "the candidate query of a backend lookup is cut short ("+bad+"): the backend with the most specific prefix may be beyond the cut, so the request goes to a less specific backend, to a shared one although the user has a match, or gets 404")
}

package ipc

import (
	"go/token"
	"go/types"
	"sort"
	"strings"

	"golang.org/x/tools/go/ssa"
)

// LockSet is a must-hold set of mutex identities "<named type>.<field>".
type LockSet map[string]bool

func (s LockSet) clone() LockSet {
	o := LockSet{}
	for k := range s {
		o[k] = true
	}
	return o
}

func (s LockSet) String() string {
	var ks []string
	for k := range s {
		ks = append(ks, k)
	}
	sort.Strings(ks)
	return "{" + strings.Join(ks, ",") + "}"
}

func intersect(a, b LockSet) LockSet {
	o := LockSet{}
	for k := range a {
		if b[k] {
			o[k] = true
		}
	}
	return o
}

// lockOp classifies a call as acquire (+1) / release (-1) of a mutex identity.
func lockOp(i ssa.Instruction) (id string, op int) {
	c := CallOf(i)
	if c == nil {
		return "", 0
	}
	if _, isDefer := i.(*ssa.Defer); isDefer {
		return "", 0 // deferred unlock: held until exit
	}
	if _, isGo := i.(*ssa.Go); isGo {
		return "", 0
	}
	n := CalleeName(c)
	shared := false
	switch n {
	case "(*sync.Mutex).Lock", "(*sync.RWMutex).Lock":
		op = 1
	case "(*sync.RWMutex).RLock":
		op, shared = 1, true
	case "(*sync.Mutex).Unlock", "(*sync.RWMutex).Unlock":
		op = -1
	case "(*sync.RWMutex).RUnlock":
		op, shared = -1, true
	default:
		return "", 0
	}
	if len(c.Args) == 0 {
		return "", 0
	}
	id = mutexID(c.Args[0])
	if shared {
		// a read lock does not exclude other readers: it is a different
		// (weaker) lock identity and never satisfies a guard that needs
		// exclusion (every guarded object here is mutated by its accessors)
		id += "(R)"
	}
	return id, op
}

// mutexID names the mutex by the struct type and field that holds it, or by
// the global variable.
func mutexID(v ssa.Value) string {
	switch x := v.(type) {
	case *ssa.FieldAddr:
		name := fieldName(x.X.Type(), x.Field)
		// an embedded sync.Mutex turned into an embedded sync.RWMutex is the same lock
		// under the name its type gives it
		if st := structOf(x.X.Type()); st != nil && name == "RWMutex" && st.Field(x.Field).Embedded() {
			has := false
			for k := 0; k < st.NumFields(); k++ {
				if st.Field(k).Name() == "Mutex" {
					has = true
				}
			}
			if !has {
				name = "Mutex"
			}
		}
		return NamedTypeRel(x.X.Type()) + "." + name
	case *ssa.Global:
		return "global:" + GlobalName(x)
	case *ssa.UnOp:
		if x.Op == token.MUL {
			return mutexID(x.X)
		}
	}
	return "?"
}

// NamedTypeRel is NamedType with the module path stripped.
func NamedTypeRel(t types.Type) string {
	return strings.TrimPrefix(NamedType(t), ModPath+"/")
}

// Locksets computes the must-hold lockset before every instruction of every
// module function, with one interprocedural refinement: a function all of
// whose (static, module) call sites hold L — and that is never used as a
// value, go'd or deferred — starts with L held.
type Locksets struct {
	p     *Prog
	entry map[*ssa.Function]LockSet
	at    map[ssa.Instruction]LockSet
}

func ComputeLocksets(p *Prog) *Locksets {
	ls := &Locksets{p: p, entry: map[*ssa.Function]LockSet{}, at: map[ssa.Instruction]LockSet{}}
	// call sites of each module function, and "escapes as a value" flags
	type site struct {
		in ssa.Instruction
	}
	callers := map[*ssa.Function][]ssa.Instruction{}
	escapes := map[*ssa.Function]bool{}
	for _, fn := range p.AllFuncs {
		EachInstrRaw(fn, func(i ssa.Instruction) {
			if c := CallOf(i); c != nil {
				if f := StaticFunc(c); f != nil {
					if _, plain := i.(*ssa.Call); plain {
						callers[f] = append(callers[f], i)
					} else {
						escapes[f] = true // go / defer: runs without (go) or after (defer) the caller's locks
					}
				}
			}
			// function used as a value
			var ops []*ssa.Value
			for _, op := range i.Operands(ops) {
				if op == nil || *op == nil {
					continue
				}
				switch v := (*op).(type) {
				case *ssa.Function:
					if c := CallOf(i); c != nil && c.Value == v {
						continue
					}
					escapes[v] = true
				case *ssa.MakeClosure:
					if c := CallOf(i); c != nil && c.Value == v {
						continue
					}
					escapes[v.Fn.(*ssa.Function)] = true
				}
			}
		})
	}
	// exported functions and methods may be called from anywhere; methods may
	// be called through interfaces
	// named types whose values are converted to an interface somewhere in the
	// module: their methods may be invoked dynamically
	ifaceTypes := map[string]bool{}
	for _, fn := range p.AllFuncs {
		EachInstrRaw(fn, func(i ssa.Instruction) {
			if mi, ok := i.(*ssa.MakeInterface); ok {
				ifaceTypes[NamedType(mi.X.Type())] = true
			}
		})
	}
	top := LockSet{"⊤": true}
	for _, fn := range p.AllFuncs {
		dyn := false
		if recv := fn.Signature.Recv(); recv != nil && isExportedOrIface(fn) {
			// exported method: callable from outside the module if the type is
			// exported, or through an interface if the type is ever boxed
			tn := NamedType(recv.Type())
			exportedType := false
			if i := strings.LastIndex(tn, "."); i >= 0 && i+1 < len(tn) {
				ch := tn[i+1]
				exportedType = ch >= 'A' && ch <= 'Z'
			}
			dyn = exportedType || ifaceTypes[tn]
		}
		if escapes[fn] || len(callers[fn]) == 0 || dyn {
			ls.entry[fn] = LockSet{}
		} else {
			ls.entry[fn] = top
		}
	}
	for iter := 0; iter < 10; iter++ {
		for _, fn := range p.AllFuncs {
			ls.analyse(fn)
		}
		changed := false
		for _, fn := range p.AllFuncs {
			if len(ls.entry[fn]) == 0 {
				continue
			}
			var acc LockSet
			first := true
			for _, cs := range callers[fn] {
				h := ls.at[cs]
				if h["⊤"] {
					continue // caller itself not yet resolved
				}
				if first {
					acc = h.clone()
					first = false
				} else {
					acc = intersect(acc, h)
				}
			}
			if first {
				continue
			}
			if acc.String() != ls.entry[fn].String() {
				ls.entry[fn] = acc
				changed = true
			}
		}
		if !changed {
			break
		}
	}
	// anything still ⊤ (only called from unresolved cycles): nothing held
	for _, fn := range p.AllFuncs {
		if ls.entry[fn]["⊤"] {
			ls.entry[fn] = LockSet{}
		}
	}
	for _, fn := range p.AllFuncs {
		ls.analyse(fn)
	}
	return ls
}

func isExportedOrIface(fn *ssa.Function) bool {
	if fn.Object() == nil {
		return false
	}
	return fn.Object().Exported()
}

func (ls *Locksets) analyse(fn *ssa.Function) {
	if len(fn.Blocks) == 0 {
		return
	}
	in := map[*ssa.BasicBlock]LockSet{}
	out := map[*ssa.BasicBlock]LockSet{}
	in[fn.Blocks[0]] = ls.entry[fn].clone()
	work := []*ssa.BasicBlock{fn.Blocks[0]}
	inq := map[*ssa.BasicBlock]bool{fn.Blocks[0]: true}
	for len(work) > 0 {
		b := work[0]
		work = work[1:]
		inq[b] = false
		cur := in[b].clone()
		for _, i := range b.Instrs {
			ls.at[i] = cur.clone()
			if id, op := lockOp(i); op > 0 {
				cur[id] = true
			} else if op < 0 {
				delete(cur, id)
			}
		}
		if o, ok := out[b]; ok && o.String() == cur.String() {
			continue
		}
		out[b] = cur
		for _, s := range b.Succs {
			var n LockSet
			if old, ok := in[s]; ok {
				n = intersect(old, cur)
				if n.String() == old.String() {
					continue
				}
			} else {
				n = cur.clone()
			}
			in[s] = n
			if !inq[s] {
				inq[s] = true
				work = append(work, s)
			}
		}
	}
}

// Held returns the locks that must be held just before i executes.
func (ls *Locksets) Held(i ssa.Instruction) LockSet {
	if h, ok := ls.at[i]; ok {
		return h
	}
	return LockSet{}
}

// Guard is one line of the frozen guard table.
type Guard struct {
	Type   string // named struct type (module-relative), or "" for a package variable
	Field  string // field name, or "pkg.var" for a package variable
	Lock   string // mutex identity that must be held
	Why    string
	Exempt map[string]string // function name -> reason (constructors, single-threaded start-up)
}

// Access is one access to guarded state.
type Access struct {
	Fn    *ssa.Function
	Instr ssa.Instruction
	What  string
}

// GuardedAccesses enumerates accesses to the guarded field/variable: the
// instruction that takes the field address (or loads the global) and every
// instruction that directly uses the loaded value (method call, map lookup,
// map update, range, next).
func GuardedAccesses(p *Prog, g *Guard) []Access {
	var out []Access
	for _, fn := range p.AllFuncs {
		EachInstrRaw(fn, func(i ssa.Instruction) {
			var addr ssa.Value
			switch x := i.(type) {
			case *ssa.FieldAddr:
				if g.Type != "" && NamedTypeRel(x.X.Type()) == g.Type && fieldName(x.X.Type(), x.Field) == g.Field {
					// exempt: base allocated in this function (constructor, not yet shared)
					if _, isAlloc := x.X.(*ssa.Alloc); isAlloc {
						return
					}
					addr = x
				}
			}
			if g.Type == "" {
				var ops []*ssa.Value
				for _, op := range i.Operands(ops) {
					if gl, ok := (*op).(*ssa.Global); ok && Rel(gl.Pkg.Pkg.Path())+"."+GlobalName(gl) == g.Field {
						out = append(out, Access{fn, i, "access to " + g.Field})
						if ld, ok := i.(*ssa.UnOp); ok && isRefType(ld.Type()) && !swappedOut(ld, gl) {
							out = append(out, usesOf(fn, ld, g.Field)...)
						}
					}
				}
				return
			}
			if addr == nil {
				return
			}
			out = append(out, Access{fn, i, "address of " + g.Type + "." + g.Field})
			for _, r := range Refs(addr) {
				out = append(out, Access{fn, r, "use of " + g.Type + "." + g.Field})
				if ld, ok := r.(*ssa.UnOp); ok && ld.Op == token.MUL && isRefType(ld.Type()) && !swappedOut(ld, addr) {
					out = append(out, usesOf(fn, ld, g.Type+"."+g.Field)...)
				}
			}
		})
	}
	return out
}

func usesOf(fn *ssa.Function, v ssa.Value, what string) []Access {
	var out []Access
	for _, r := range Refs(v) {
		out = append(out, Access{fn, r, "use of value of " + what})
		// range over the map: every Next must also be covered
		if rg, ok := r.(*ssa.Range); ok {
			for _, n := range Refs(rg) {
				out = append(out, Access{fn, n, "iteration step over " + what})
			}
		}
	}
	return out
}

// isRefType: values of these types alias the shared object after being
// loaded; copies of strings, numbers and booleans do not.
func isRefType(t types.Type) bool {
	switch t.Underlying().(type) {
	case *types.Map, *types.Pointer, *types.Slice, *types.Chan, *types.Interface, *types.Signature:
		return true
	}
	return false
}

// swappedOut recognises the ownership-transfer idiom
//
//	mu.Lock(); old := shared; shared = make(...); mu.Unlock(); use(old)
//
// the loaded value is private once a fresh object has been stored to the same
// place later in the same block (the same critical section is established by
// the lockset check on both the load and the store).
func swappedOut(ld *ssa.UnOp, place ssa.Value) bool {
	b := ld.Block()
	after := false
	for _, i := range b.Instrs {
		if i == ssa.Instruction(ld) {
			after = true
			continue
		}
		if !after {
			continue
		}
		if _, op := lockOp(i); op < 0 {
			return false // critical section ended before the swap
		}
		if st, ok := i.(*ssa.Store); ok && samePlace(st.Addr, place) {
			switch pv := Peel(st.Val).(type) {
			case *ssa.MakeMap, *ssa.MakeSlice, *ssa.MakeChan, *ssa.Alloc:
				return true
			case *ssa.Call:
				// a fresh object made by a new constructor helper that several places call
				if rs := helperResults(pv, 0); len(rs) == 1 && freshPerCall(pv, rs[0]) {
					return true
				}
			}
			return false
		}
	}
	return false
}

func samePlace(a, b ssa.Value) bool {
	if a == b {
		return true
	}
	fa, ok1 := a.(*ssa.FieldAddr)
	fb, ok2 := b.(*ssa.FieldAddr)
	if ok1 && ok2 {
		return fa.Field == fb.Field && fa.X == fb.X
	}
	return false
}

// readOnlyAccess: the instruction only reads the guarded object (address
// computation, load, map lookup, iteration, len): a shared (read) hold of the
// guard excludes every writer, which is all a reader needs. Calls on a loaded
// pointer, stores, map updates and deletes need the exclusive hold.
func readOnlyAccess(i ssa.Instruction) bool {
	switch x := i.(type) {
	case *ssa.FieldAddr, *ssa.Lookup, *ssa.Range, *ssa.Next:
		return true
	case *ssa.UnOp:
		return x.Op == token.MUL
	case *ssa.Call:
		if b, ok := x.Call.Value.(*ssa.Builtin); ok && b.Name() == "len" {
			return true
		}
	}
	return false
}

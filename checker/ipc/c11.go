package ipc

import (
	"fmt"
	"go/constant"
	"go/token"
	"go/types"
	"strings"

	"golang.org/x/tools/go/ssa"
)

func init() {
	register(&PropSpec{
		ID:    "C11",
		Progs: []string{"mod"},
		Explanation: "Exactly-once / in-order over all histories is behavioural and not decided as a whole. Decided are the structural facts it rests on: " +
			"(E) the two directions agree on the wire encoding: text ↔ JSON string, binary ↔ one-element array, the protocol-version split has the same polarity on both sides (partial evaluation for version 0 and 1), and the v1 codec is EncodeToString/DecodeString on the same base64 encoding object; the websocket type constants agree; " +
			"(Q) messages travel only through the connection's two FIFO channels: serverMessages has one send site in the reader goroutine (started once per connection) and is received only in ReadServerMessages; clientMessages is received only in the writer goroutine; " +
			"(O) order and completeness: the data endpoint walks the decoded slice in index order, calls SendClientMessage synchronously and aborts on the first error; SendClientMessage has a single send site; the writer writes Type and Data of the very message it received; the reader queues Type and Data of one ReadMessage result (a fresh slice per message); ReadServerMessages appends every received message, in receive order, to the slice it returns and the poll endpoint marshals exactly that slice; " +
			"(J) injection parses the whole message with json.Unmarshal, adds only keys that a lookup in the same object misses, keeps the message type, runs only when enabled, and an injection error leaves the original message in place. " +
			"(M) message payloads are not kept in pooled buffers; a poll that has taken a message from the queue returns the accumulated messages with a nil error on every path." +
			" A failed injection cannot return before the enqueue; the enqueueing select waits only for the queue and the connection's own end; ReadServerMessages reports an error only when the queue is closed and drained; each queue has one receiving side.",
		Assumptions: []string{"gorilla/websocket ReadMessage returns a freshly allocated slice; WriteMessage sends one frame with the given type; Go channels are FIFO; encoding/json round-trips strings"},
		Run:         runC11,
	})
}

func runC11(c *Ctx) {
	p := c.Progs["mod"]
	c.Rule("C11.Y", "compatibility with the party that is not changed with this code: pages of the previous build: new message fields decide nothing, every posted message is sent, the session ID comes from the body", 2)
	ruleNewWireFieldNotDecisive(c, p, "C11.Y", "a page injected by the previous build (an open tab, a cached page) does not send that field, so it arrives as the zero value: its messages are dropped, reordered or refused", "agent/websockets.sessionMessage")
	ruleDataLoopSendsEveryMessage(c, p, "C11.Y")
	ruleShimSessionIDFromBodyOnly(c, p, "C11.Y")
	c.Rule("C11.E", "encoder/decoder agreement between poll replies and data posts", 7)
	c.Rule("C11.Q", "messages move only through two FIFO channels with one producer/consumer goroutine", 5)
	c.Rule("C11.O", "order and completeness on both endpoints; request bodies are read whole; sessions forgotten only after delivery", 19)
	c.Rule("C11.J", "header injection only adds missing keys", 7)
	// the close frame travels through the same FIFO as the data (= C12.L): written directly it overtakes
	// messages that were already acknowledged
	c.Borrow(runC12, "C12.L", "C11.Q", func(k string) bool { return strings.HasPrefix(k, "Close:") || strings.HasPrefix(k, "writer:") })
	c.Rule("C11.V", "the protocol version is read from a request header nothing has edited: the handshake header is a filtered copy (= C09.N)", 1)
	c.Borrow(runC09, "C09.N", "C11.V", func(k string) bool { return strings.HasPrefix(k, "stripWSHeader") })
	const pkg = ModPath + "/agent/websockets"

	ser := c.need(p, "C11.E", "agent/websockets.(*message).Serialize")
	send := c.need(p, "C11.E", "agent/websockets.(*Connection).SendClientMessage")
	if ser != nil && send != nil {
		enc := Calls(ser, "(*encoding/base64.Encoding).EncodeToString")
		dec := Calls(send, "(*encoding/base64.Encoding).DecodeString")
		if len(enc) == 1 && len(dec) == 1 {
			e0, d0 := PathOf(PArgs(CallOf(enc[0]))[0]), PathOf(PArgs(CallOf(dec[0]))[0])
			c.Check("C11.E", "codec:same-base64-encoding", p, enc[0].Pos(), e0 == d0 && e0 != "", "encoder and decoder use the same *base64.Encoding ("+e0+")", "poll replies are encoded with "+e0+" but data posts are decoded with "+d0)
			c.PathIs("C11.E", "codec:encodes-message-data", p, enc[0].Pos(), PArgs(CallOf(enc[0]))[1], "the encoded bytes are the message's Data", P(ser, 0)+".Data")
			// version polarity
			verEnv := func(fn *ssa.Function, ver int64, typ int64) Env {
				return func(v ssa.Value) (constant.Value, bool) {
					if fn == ser && len(fn.Params) > 1 && v == ssa.Value(ParamAt(fn, 1)) {
						return IntC(ver), true
					}
					if _, fld, ok := FieldLoad(v); ok {
						if fld == "protocolVersion" {
							return IntC(ver), true
						}
						if fld == "Type" && fn == ser {
							return IntC(typ), true
						}
					}
					return nil, false
				}
			}
			isEnc := func(i ssa.Instruction) bool { return i == enc[0] }
			isDec := func(i ssa.Instruction) bool { return i == dec[0] }
			e0r, _ := (&Walk{Target: isEnc, Edge: EdgeUnder(verEnv(ser, 0, 2))}).FromBlock(ser.Blocks[0])
			e1r, _ := (&Walk{Target: isEnc, Edge: EdgeUnder(verEnv(ser, 1, 2))}).FromBlock(ser.Blocks[0])
			d0r, _ := (&Walk{Target: isDec, Edge: EdgeUnder(verEnv(send, 0, 2))}).FromBlock(send.Blocks[0])
			d1r, _ := (&Walk{Target: isDec, Edge: EdgeUnder(verEnv(send, 1, 2))}).FromBlock(send.Blocks[0])
			c.Check("C11.E", "version:v0-raw-on-both-sides", p, enc[0].Pos(), e0r == nil && d0r == nil, "protocol version 0: neither side applies base64", fmt.Sprintf("protocol version 0: base64 applied on encode=%v decode=%v — the two directions disagree", e0r != nil, d0r != nil))
			c.Check("C11.E", "version:v1-base64-on-both-sides", p, enc[0].Pos(), e1r != nil && d1r != nil, "protocol version 1: both sides apply base64", fmt.Sprintf("protocol version 1: base64 applied on encode=%v decode=%v — binary payloads are corrupted in one direction", e1r != nil, d1r != nil))
			// text messages are never base64-encoded
			et, _ := (&Walk{Target: isEnc, Edge: EdgeUnder(verEnv(ser, 1, 1))}).FromBlock(ser.Blocks[0])
			c.Check("C11.E", "type:text-is-plain-string", p, ser.Pos(), et == nil, "a TextMessage is serialised as a plain JSON string (no base64)", "a TextMessage can reach the base64 encoder")
		} else {
			c.Unk("C11.E", "codec:same-base64-encoding", p, ser.Pos(), fmt.Sprintf("expected one EncodeToString in Serialize and one DecodeString in SendClientMessage, found %d/%d", len(enc), len(dec)))
		}
		// message literals in SendClientMessage: (Type, Data origin)
		text, bin := 0, 0
		bad := ""
		for _, a := range AllocsOf(send, "agent/websockets.message") {
			tv, ok1 := LiteralField(a, "Type")
			dv, ok2 := LiteralField(a, "Data")
			if !ok1 || !ok2 {
				bad = "a message literal without Type/Data at " + p.Pos(a.Pos())
				continue
			}
			t, _ := ConstInt(tv)
			src := PathOf(dv)
			switch {
			case t == 1:
				text++
				// Data = []byte(msg.(string))
				okd := false
				if cv, ok := dv.(*ssa.Convert); ok {
					okd = PathOf(cv.X) == P(send, 1)+".(string)"
				}
				if !okd {
					bad = "the TextMessage payload is " + src + ", not the bytes of the JSON string"
				}
			case t == 2:
				bin++
				okd := CallResult(dv, 0, "(*encoding/base64.Encoding).DecodeString") != nil
				if cv, ok := dv.(*ssa.Convert); ok {
					okd = true
					_ = cv
				}
				if !okd {
					bad = "the BinaryMessage payload is " + src
				}
			default:
				bad = fmt.Sprintf("a message literal with websocket type %d", t)
			}
		}
		c.Check("C11.E", "type:decode-side-literals", p, send.Pos(), bad == "" && text == 1 && bin == 2, "JSON string → TextMessage(1); one-element array → BinaryMessage(2), raw (v0) or base64-decoded (v1)", "decode side: "+bad+fmt.Sprintf(" (text literals %d, binary literals %d)", text, bin))
		// encode side: Type compared with TextMessage(1)
		okT := false
		EachInstr(ser, func(i ssa.Instruction) {
			if bo, ok := i.(*ssa.BinOp); ok && (bo.Op == token.EQL || bo.Op == token.NEQ) {
				if _, fld, ok := FieldLoad(bo.X); ok && fld == "Type" && isConstInt(bo.Y, 1) {
					okT = true
				}
			}
		})
		c.Check("C11.E", "type:encode-side-constant", p, ser.Pos(), okT, "the encoder distinguishes text by websocket.TextMessage (1), the constant the decoder produces", "the encoder no longer tests m.Type against websocket.TextMessage")
	}

	// ---- C11.Q
	chans := shimChannels(c, p, "C11.Q")
	for _, sc := range chans {
		var sends, recvs []ChanOp
		for _, op := range sc.Ops {
			switch op.Kind {
			case "send":
				sends = append(sends, op)
			case "recv":
				recvs = append(recvs, op)
			}
		}
		switch sc.Field {
		case "serverMessages":
			ok := len(sends) == 1 && goBodyOnce(sends[0].Fn)
			c.Check("C11.Q", "serverMessages:single-producer", p, posOfOps(sends), ok, "one send site, in the reader goroutine started once per connection", fmt.Sprintf("%d send site(s) on serverMessages (must be one, in the once-started reader goroutine): two producers interleave the backend's messages", len(sends)))
			okr := len(recvs) > 0
			for _, r := range recvs {
				if FuncName(r.Fn) != "agent/websockets.(*Connection).ReadServerMessages" {
					okr = false
				}
			}
			c.Check("C11.Q", "serverMessages:single-consumer", p, posOfOps(recvs), okr, "received only in ReadServerMessages", "serverMessages is received outside ReadServerMessages: messages can be taken by another consumer and never reach a poll")
			_, size, okc := MakeChanSize(sc.Mk)
			c.Check("C11.Q", "serverMessages:bounded-fifo", p, posOfOps(sc.Ops), okc && size >= 1, fmt.Sprintf("make(chan *message, %d): FIFO", size), "serverMessages is not a buffered channel of constant capacity")
		case "clientMessages":
			ok := len(recvs) == 1 && goBodyOnce(recvs[0].Fn)
			// … and fed from SendClientMessage/Close only: a second feeding path is not ordered with the first
			strayS := ""
			for _, op := range sends {
				top := FuncName(TopFunc(Owner(op.Instr)))
				if top != "agent/websockets.(*Connection).SendClientMessage" && top != "agent/websockets.(*Connection).Close" {
					strayS = FuncName(Owner(op.Instr)) + " at " + p.Pos(op.Instr.Pos())
				}
			}
			c.Check("C11.Q", "clientMessages:single-feeding-path", p, posOfOps(sends), strayS == "", "clientMessages is fed by SendClientMessage (and Close's close frame) only", "clientMessages is also fed by "+strayS+": a direct path and a goroutine draining a backlog are not ordered with respect to each other — a later message can overtake earlier ones")
			c.Check("C11.Q", "clientMessages:single-consumer", p, posOfOps(recvs), ok, "one receive site, in the writer goroutine started once per connection: messages are written in queue order", fmt.Sprintf("%d receive site(s) on clientMessages (must be one, in the once-started writer goroutine): two consumers reorder client messages", len(recvs)))
		}
	}

	c.Rule("C11.M", "message payloads live in buffers owned by the message", 1)
	rulePooledMemory(c, p, "C11.M", "agent/websockets")
	c.Rule("C11.S", "shim session IDs are unique and the client is told the key its connection is stored under", 2)
	ruleShimSessionIDs(c, p, "C11.S")
	ruleCounterOnlyIncrements(c, p, "C11.S")

	// ---- C11.O
	rulePollErrorOnlyWhenDrained(c, p, "C11.O")
	ruleShimBodiesReadWhole(c, p, "C11.O")
	// a session is forgotten only by close, or by the poll that has delivered what was received
	// (= C12.U): a data or poll call that drops the session as soon as its context is done
	// drops the messages still buffered for the client
	c.Borrow(runC12, "C12.U", "C11.O", func(k string) bool {
		return strings.HasPrefix(k, "forget-site") || strings.HasPrefix(k, "data:may-forget") || strings.HasPrefix(k, "poll:delivers") || strings.HasPrefix(k, "poll:error-only")
	})
	se := resolveShimEndpoints(c, p, "C11.O")
	if se != nil && se.ByName["data"] != nil {
		d := se.ByName["data"]
		if sc := c.UniqueCall("C11.O", p, d, false, "(*"+pkg+".Connection).SendClientMessage"); sc != nil {
			_, isCall := sc.(*ssa.Call)
			c.Check("C11.O", "data:synchronous-send", p, sc.Pos(), isCall && InLoop(sc.Block()), "SendClientMessage is called synchronously inside the loop over the posted messages", "SendClientMessage is started with go/defer or outside the loop: messages of one post can overtake each other")
			// message argument: element of the slice decoded from the body, walked by index
			m := Args(CallOf(sc))[1]
			okm := false
			for _, r := range Roots(m) {
				if _, fld, ok := FieldLoad(r); ok && fld == "Message" {
					okm = true
				}
			}
			// the ranged slice is a local decoded by json.Unmarshal
			rangeOK := false
			SliceBack(m, func(v ssa.Value) bool {
				if ia, ok := v.(*ssa.IndexAddr); ok {
					if _, isSlice := ia.X.Type().Underlying().(*types.Slice); isSlice {
						if bo, ok := ia.Index.(*ssa.BinOp); ok && bo.Op == token.ADD && isConstInt(bo.Y, 1) {
							rangeOK = true
						}
					}
				}
				if _, ok := v.(*ssa.Next); ok {
					rangeOK = false
				}
				return true
			})
			c.Check("C11.O", "data:walks-slice-in-index-order", p, sc.Pos(), okm && rangeOK, "the messages are taken from the decoded slice by ascending index", "the posted messages are not walked as a slice in index order (e.g. a map or a reordered collection)")
			c12Like := func() bool {
				errVal, isVal := sc.(ssa.Value)
				if !isVal {
					return false // started with go/defer: its error cannot be tested
				}
				ok := false
				EachInstr(d, func(i ssa.Instruction) {
					if x, isIf := i.(*ssa.If); isIf {
						if v, s, k := ErrNilTest(x); k && v == errVal {
							// error branch must leave the loop (reach a return without another SendClientMessage)
							hit, _ := (&Walk{Target: func(j ssa.Instruction) bool { return j == sc }}).FromBlock(x.Block().Succs[s])
							ok = hit == nil
						}
					}
				})
				return ok
			}()
			c.Check("C11.O", "data:abort-on-first-error", p, sc.Pos(), c12Like, "a failed send ends the post (no later message of the batch is sent after a gap)", "after a failed send the loop continues with the following messages: the backend sees a gap in the sequence")
		}
		if um := c.UniqueCall("C11.O", p, d, false, "encoding/json.Unmarshal"); um != nil {
			c.PathIs("C11.O", "data:decodes-own-body", p, um.Pos(), PArgs(CallOf(um))[0], "the batch is decoded from this call's body", "result0:io/ioutil.ReadAll", "result0:io.ReadAll")
		}
	}
	if send != nil {
		n := 0
		var sv ssa.Value
		for _, sc := range chans {
			if sc.Field != "clientMessages" {
				continue
			}
			for _, op := range sc.Ops {
				if op.Kind == "send" && op.Fn == send {
					n++
					sv = op.Val
				}
			}
		}
		// the enqueueing select waits for the queue or for the end of the connection and for
		// nothing else: a request context, a timer or a default arm makes a post give up in the
		// middle of a batch while the connection is alive — a gap in the stream
		for _, sc := range chans {
			if sc.Field != "clientMessages" {
				continue
			}
			for _, op := range sc.Ops {
				if op.Kind != "send" || Owner(op.Instr) != send {
					continue
				}
				extra := ""
				if !op.InSelect {
					continue // a plain blocking send waits for the queue only
				}
				if op.HasDefault {
					extra = "a default arm"
				}
				for k, st := range op.Select.States {
					if k == op.State || st.Dir != types.RecvOnly {
						continue
					}
					own := false
					for _, r := range Roots(st.Chan) {
						if call, isCall := r.(*ssa.Call); isCall && !call.Call.IsInvoke() {
							if _, fld, isF := FieldLoad(call.Call.Value); isF && fld == "done" {
								own = true
							}
						}
						if _, fld, isF := FieldLoad(r); isF && fld == "closed" {
							own = true
						}
					}
					if !own {
						extra = "an arm on " + PathOf(st.Chan)
					}
				}
				c.Check("C11.O", "SendClientMessage:enqueue-waits-only-for-the-connection", p, op.Instr.Pos(), extra == "", "the enqueueing select has the send and the connection's own done/closed arms only", "the select that enqueues a client message also has "+extra+": when the backend applies back-pressure the data post gives up in the middle of a batch although the connection is alive — the earlier messages of the post were delivered, this one and the later ones are dropped")
			}
		}
		ok := n == 1
		if ok {
			// the sent value is the message built above or its injected replacement
			for _, r := range Roots(sv) {
				if IsNilConst(r) {
					continue
				}
				if a, isA := r.(*ssa.Alloc); isA && NamedTypeRel(a.Type()) == "agent/websockets.message" {
					continue
				}
				if CallResult(r, 0, pkg+".injectWebsocketMessage") != nil {
					continue
				}
				ok = false
			}
		}
		c.Check("C11.O", "SendClientMessage:single-send-of-built-message", p, send.Pos(), ok, "one send site; the value sent is the message built from the argument (or its injected replacement)", fmt.Sprintf("SendClientMessage has %d send sites on clientMessages or sends something other than the message it built", n))
	}
	if nc := p.Func("agent/websockets.NewConnection"); nc != nil {
		for _, g := range DirectClosures(nc) {
			if wm := Calls(g, "(*github.com/gorilla/websocket.Conn).WriteMessage"); len(wm) > 0 {
				ok := len(wm) == 1
				if ok {
					a := PArgs(CallOf(wm[0]))
					ok = false
					b1, f1, ok1 := FieldLoad(a[1])
					b2, f2, ok2 := FieldLoad(a[2])
					if ok1 && ok2 && f1 == "Type" && f2 == "Data" && b1 == b2 && PathOf(b1) == "recv(makechan)" {
						ok = true
					}
				}
				c.Check("C11.O", "writer:writes-received-message", p, g.Pos(), ok, "the writer writes Type and Data of the very message it received from the queue", "the writer does not write exactly the Type and Data of the message it received")
				// the writer leaves its loop only for the connection's end, a write error or the close
				// frame it took from the queue: no other select arm (a closed flag, a timer) lets it
				// stop with accepted messages still queued, and the close frame travels through the
				// same queue as the data before it
				badArm := ""
				nsel := 0
				EachInstrRaw(g, func(i ssa.Instruction) {
					sel, isSel := i.(*ssa.Select)
					if !isSel {
						return
					}
					queue := false
					for _, st := range sel.States {
						if ch, isCh := st.Chan.Type().Underlying().(*types.Chan); isCh && NamedTypeRel(derefT(ch.Elem())) == "agent/websockets.message" && st.Dir == types.RecvOnly {
							queue = true
						}
					}
					if !queue {
						return
					}
					nsel++
					for _, st := range sel.States {
						if ch, isCh := st.Chan.Type().Underlying().(*types.Chan); isCh && NamedTypeRel(derefT(ch.Elem())) == "agent/websockets.message" {
							continue
						}
						if st.Dir == types.RecvOnly && isDoneChan(st.Chan) {
							continue
						}
						badArm = "an arm on " + PathOf(st.Chan) + " at " + p.Pos(sel.Pos())
					}
					if !sel.Blocking {
						badArm = "a default arm at " + p.Pos(sel.Pos())
					}
				})
				c.Check("C11.O", "writer:leaves-only-for-the-connections-end", p, g.Pos(), badArm == "" && nsel >= 1, "the writer's select waits for the queue and the connection context only", "the writer goroutine's select has "+badArm+" besides the queue and the connection context: it can stop (or send a close frame) while messages accepted by SendClientMessage are still queued — they are never written to the server")
			}
			if rm := Calls(g, "(*github.com/gorilla/websocket.Conn).ReadMessage"); len(rm) > 0 || len(Calls(g, "(*github.com/gorilla/websocket.Conn).NextReader")) > 0 {
				ok := len(rm) == 1
				if ok {
					ok = false
					for _, op := range ChanOpsOf(g) {
						if op.Kind != "send" {
							continue
						}
						if a, isA := Roots(op.Val)[0].(*ssa.Alloc); isA {
							tv, _ := LiteralField(a, "Type")
							dv, _ := LiteralField(a, "Data")
							if tv != nil && dv != nil {
								te, ok1 := tv.(*ssa.Extract)
								de, ok2 := dv.(*ssa.Extract)
								if ok1 && ok2 && te.Tuple == ssa.Value(rm[0].(*ssa.Call)) && de.Tuple == te.Tuple && te.Index == 0 && de.Index == 1 {
									ok = true
								}
							}
						}
					}
				}
				c.Check("C11.O", "reader:queues-one-ReadMessage-result", p, g.Pos(), ok, "each queued message carries type and payload of one ReadMessage call (a fresh slice per message)", "the reader does not queue exactly (type, payload) of one ReadMessage result — e.g. a reused buffer lets a later message overwrite the payload of messages still waiting for a poll")
			}
		}
	}
	if rs := c.need(p, "C11.O", "agent/websockets.(*Connection).ReadServerMessages"); rs != nil {
		bad := ""
		nr := 0
		for _, op := range ChanOpsOf(rs) {
			if op.Kind != "recv" || op.Val == nil {
				continue
			}
			if NamedTypeRel(op.Val.Type()) != "agent/websockets.message" {
				continue
			}
			nr++
			// the received message is serialised and appended
			okA := false
			for _, u := range Refs(op.Val) {
				if call, ok := u.(*ssa.Call); ok && CalleeName(call.Common()) == "(*"+pkg+".message).Serialize" {
					okA = true
				}
			}
			if !okA {
				bad = "a received server message is not serialised into the reply at " + p.Pos(op.Instr.Pos())
			}
		}
		// appended at the END: the serialised message is in the variadic tail, the accumulated slice is the first argument
		EachInstr(rs, func(i ssa.Instruction) {
			call, ok := i.(*ssa.Call)
			if !ok {
				return
			}
			if b, isB := call.Call.Value.(*ssa.Builtin); !isB || b.Name() != "append" {
				return
			}
			tail, _ := DerivesFrom(PArgs(&call.Call)[1], func(v ssa.Value) bool {
				cc, isC := v.(*ssa.Call)
				return isC && CalleeName(cc.Common()) == "(*"+pkg+".message).Serialize"
			}, func(ssa.Value) bool { return false })
			head, _ := DerivesFrom(PArgs(&call.Call)[0], func(v ssa.Value) bool {
				cc, isC := v.(*ssa.Call)
				return isC && CalleeName(cc.Common()) == "(*"+pkg+".message).Serialize" && !InLoop(cc.Block()) && false
			}, func(ssa.Value) bool { return false })
			_ = head
			// the first argument must not be a fresh literal holding the new message (prepend)
			if sl, isS := PArgs(&call.Call)[0].(*ssa.Slice); isS {
				if _, isA := sl.X.(*ssa.Alloc); isA {
					bad = "a received message is prepended (append([]{new}, old...)) at " + p.Pos(i.Pos()) + ": messages are delivered in reverse order"
				}
			}
			if !tail {
				bad = "an append at " + p.Pos(i.Pos()) + " does not add the serialised message at the end of the accumulated slice"
			}
		})
		// once something was received, every return hands the accumulated slice back (with a nil error)
		for _, op := range ChanOpsOf(rs) {
			if op.Kind != "recv" || op.Val == nil || NamedTypeRel(op.Val.Type()) != "agent/websockets.message" {
				continue
			}
			for _, u := range Refs(op.Val) {
				call, ok := u.(*ssa.Call)
				if !ok || CalleeName(call.Common()) != "(*"+pkg+".message).Serialize" {
					continue
				}
				h, _ := (&Walk{Target: func(i ssa.Instruction) bool {
					r, isR := i.(*ssa.Return)
					if !isR || (rs.Recover != nil && i.Block() == rs.Recover) {
						return false
					}
					return IsNilConst(ReturnValue(r, 0)) || !IsNilConst(ReturnValue(r, 1))
				}}).FromInstr(call)
				if h != nil {
					bad = "after a message was received, the return at " + p.Pos(h.Pos()) + " discards the accumulated messages (nil slice or an error): messages already taken from the queue are lost when the backend closes"
				}
			}
		}
		// … the same holds for whatever else is serialised into the slice (a message kept from an
		// earlier poll), and a message taken from the queue is not parked in the connection for a
		// later call: the early exits of the next call (time-out, closed queue) would drop it
		for _, call := range Calls(rs, "(*"+pkg+".message).Serialize") {
			h, _ := (&Walk{Target: func(i ssa.Instruction) bool {
				r, isR := i.(*ssa.Return)
				if !isR || (rs.Recover != nil && i.Block() == rs.Recover) {
					return false
				}
				return IsNilConst(ReturnValue(r, 0)) || !IsNilConst(ReturnValue(r, 1))
			}}).FromInstr(call)
			if h != nil && bad == "" {
				bad = "after a message was serialised at " + p.Pos(call.Pos()) + ", the return at " + p.Pos(h.Pos()) + " discards the accumulated messages (nil slice or an error)"
			}
		}
		for _, op := range ChanOpsOf(rs) {
			if op.Kind != "recv" || op.Val == nil || NamedTypeRel(op.Val.Type()) != "agent/websockets.message" {
				continue
			}
			for _, u := range Refs(op.Val) {
				if st, isSt := u.(*ssa.Store); isSt && st.Val == op.Val {
					if _, _, isField := FieldAddrOf(st.Addr); isField {
						bad = "a message taken from the queue is stored into " + PathOf(st.Addr) + " at " + p.Pos(st.Pos()) + " instead of being returned: it is lost when the next call times out or finds the queue closed"
					}
				}
			}
		}
		// returned slice derives from appends only
		for _, r := range Returns(rs) {
			v := ReturnValue(r, 0)
			if IsNilConst(v) {
				continue
			}
			okR := false
			SliceBack(v, func(x ssa.Value) bool {
				if call, ok := x.(*ssa.Call); ok {
					if b, ok := call.Call.Value.(*ssa.Builtin); ok && b.Name() == "append" {
						okR = true
					}
				}
				return true
			})
			if !okR {
				bad = "a return hands back a slice that is not built by appending the received messages"
			}
		}
		c.Check("C11.O", "ReadServerMessages:appends-every-received-message", p, rs.Pos(), bad == "" && nr == 2, "both receive sites serialise the message and append it, in receive order, to the returned slice", "ReadServerMessages: "+bad+fmt.Sprintf(" (%d receive sites)", nr))
		// Serialize is called with the connection's protocol version
		for k, call := range Calls(rs, "(*"+pkg+".message).Serialize") {
			c.ArgIs("C11.O", fmt.Sprintf("ReadServerMessages:serialise-with-session-version#%d", k+1), p, call, 1, "serialised for this session's protocol version", P(rs, 0)+".protocolVersion")
		}
	}
	if se != nil && se.ByName["poll"] != nil {
		pl := se.ByName["poll"]
		if mj := c.UniqueCall("C11.O", p, pl, false, "encoding/json.Marshal"); mj != nil {
			ok := false
			for _, r := range Roots(PArgs(CallOf(mj))[0]) {
				if CallResult(r, 0, "(*"+pkg+".Connection).ReadServerMessages") != nil {
					ok = true
				}
			}
			c.Check("C11.O", "poll:marshals-returned-slice", p, mj.Pos(), ok, "the poll reply is json.Marshal of exactly the slice ReadServerMessages returned", "the poll endpoint does not marshal the slice returned by ReadServerMessages")
			okw := false
			for _, w := range Calls(pl, "(net/http.ResponseWriter).Write") {
				wvs := []ssa.Value{Args(CallOf(w))[1]}
				if prm, isP := wvs[0].(*ssa.Parameter); isP {
					// written through a reply helper: what this endpoint hands to it (a body-less
					// 408 may go through the same helper)
					if info := helperOf(prm.Parent()); info != nil {
						for k, x := range prm.Parent().Params {
							if x != prm {
								continue
							}
							for _, s := range info.sites {
								if TopFunc(s.Parent()) == TopFunc(pl) || s.Parent() == pl {
									if as := s.Common().Args; k < len(as) {
										wvs = append(wvs, as[k])
									}
								}
							}
						}
					}
				}
				for _, wv := range wvs {
					if CallResult(wv, 0, "encoding/json.Marshal") != nil && Dominates(mj, w) || (CallResult(wv, 0, "encoding/json.Marshal") != nil && w.Parent() != pl) {
						okw = true
					}
				}
			}
			c.Check("C11.O", "poll:writes-marshalled-reply", p, mj.Pos(), okw, "the marshalled bytes are what is written", "the poll endpoint does not write the marshalled reply")
		}
	}

	// ---- C11.J
	if inj := c.need(p, "C11.J", "agent/websockets.injectWebsocketMessage"); inj != nil {
		um := Calls(inj, "encoding/json.Unmarshal")
		okU := len(um) == 1 && PathOf(PArgs(CallOf(um[0]))[0]) == P(inj, 0)+".Data" && len(Calls(inj, "encoding/json.NewDecoder")) == 0
		c.Check("C11.J", "inject:parses-whole-message", p, inj.Pos(), okU, "the message is parsed with json.Unmarshal(msg.Data, …), which rejects anything that is not exactly one JSON document", "the message is not parsed with a single json.Unmarshal of msg.Data (a streaming Decoder accepts a JSON object followed by more data and the rest of the payload is then dropped)")
		n := 0
		EachInstr(inj, func(i ssa.Instruction) {
			mu, ok := i.(*ssa.MapUpdate)
			if !ok {
				return
			}
			n++
			guard := false
			for _, g := range GuardingIfs(i) {
				cond, trueSucc := BoolTest(g.If)
				if e, ok := cond.(*ssa.Extract); ok && e.Index == 1 {
					if lk, ok := e.Tuple.(*ssa.Lookup); ok && SameValue(lk.X, mu.Map) && SameValue(lk.Index, mu.Key) && g.Succ != trueSucc {
						guard = true
					}
				}
			}
			c.Check("C11.J", fmt.Sprintf("inject:store#%d-only-if-missing", n), p, i.Pos(), guard, "the store is on the not-present branch of a lookup of the same key in the same object", "an injected header is stored without the 'not already present' test on the same key and object: existing values in resource.headers are overwritten")
			c.PathIs("C11.J", fmt.Sprintf("inject:store#%d-value-from-request-headers", n), p, i.Pos(), mu.Value, "the injected value comes from the data request's headers", "rangeval("+P(inj, 2)+")")
		})
		if n == 0 {
			c.Bad("C11.J", "inject:store", p, inj.Pos(), "no store into the located object")
		}
		// result keeps the type, data = Marshal
		okT := false
		for _, a := range AllocsOf(inj, "agent/websockets.message") {
			tv, _ := LiteralField(a, "Type")
			dv, _ := LiteralField(a, "Data")
			if tv != nil && dv != nil && PathOf(tv) == P(inj, 0)+".Type" && CallResult(dv, 0, "encoding/json.Marshal") != nil {
				okT = true
			}
		}
		c.Check("C11.J", "inject:keeps-type", p, inj.Pos(), okT, "the rewritten message keeps the original websocket type and carries json.Marshal of the object", "the rewritten message does not keep msg.Type / is not the re-marshalled object")
	}
	if send != nil {
		if ic := c.UniqueCall("C11.J", p, send, false, pkg+".injectWebsocketMessage"); ic != nil {
			guard := false
			for _, g := range GuardingIfs(ic) {
				cond, trueSucc := BoolTest(g.If)
				if cond == ssa.Value(ParamAt(send, 2)) && g.Succ == trueSucc {
					guard = true
				}
			}
			c.Check("C11.J", "send:inject-only-when-enabled", p, ic.Pos(), guard, "injection runs only under the injectionEnabled parameter", "injectWebsocketMessage is called although injection is not enabled")
			// error keeps the original: the replacement is assigned only on the err == nil branch
			okE := false
			EachInstr(send, func(i ssa.Instruction) {
				if x, ok := i.(*ssa.If); ok {
					if v, s, k := ErrNilTest(x); k && CallResult(v, 1, pkg+".injectWebsocketMessage") != nil {
						// the phi after the if takes the injected value only from the nil-error edge
						// … and the error branch goes on to the enqueueing selects: no return before them
						early, _ := (&Walk{Target: func(j ssa.Instruction) bool {
							r, isR := j.(*ssa.Return)
							return isR && r.Parent() == send
						}, Avoid: func(j ssa.Instruction) bool {
							switch j.(type) {
							case *ssa.Select, *ssa.Send:
								return true
							}
							return false
						}, Local: true}).FromBlock(x.Block().Succs[s])
						okE = early == nil
					}
				}
			})
			c.Check("C11.J", "send:inject-error-keeps-original", p, ic.Pos(), okE, "the injection error is tested; on error the original message is sent", "the result of injectWebsocketMessage is used without testing its error, or a failed injection makes SendClientMessage return before the message is enqueued: messages that cannot be injected (any JSON document that is not an object, non-JSON text) are dropped with a 400 instead of being forwarded unchanged")
		}
	}
	if se != nil && se.ByName["data"] != nil {
		d := se.ByName["data"]
		// injectedHeaders built from r.Header under the flag
		ok := false
		EachInstr(d, func(i ssa.Instruction) {
			if mu, isM := i.(*ssa.MapUpdate); isM {
				if PathOf(mu.Key) == "rangekey("+P(d, 1)+".Header)" {
					ok = true
				}
			}
		})
		c.Check("C11.J", "data:injected-values-are-request-headers", p, d.Pos(), ok, "the injected header set is built from the data request's own headers", "the injected header set is not built from r.Header of the data request")
	}
}

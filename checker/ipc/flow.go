package ipc

import (
	"fmt"
	"go/constant"
	"go/token"
	"go/types"
	"sort"
	"strings"
	"sync"

	"golang.org/x/tools/go/ssa"
)

// ---------------------------------------------------------------- calls

// CalleeName returns the fully qualified name of the statically known callee
// or of the invoked interface method: "net/http.Error",
// "(*net/http.Request).Write", "(net/http.ResponseWriter).WriteHeader".
// For a call of a closure it returns FuncName-style "closure:<name>"; "" if unknown.
func CalleeName(c *ssa.CallCommon) string {
	if c == nil {
		return ""
	}
	if c.IsInvoke() {
		if t := ifaceTarget(c.Method); t != nil {
			return canonFullName(t)
		}
		return canonFullName(c.Method)
	}
	switch v := c.Value.(type) {
	case *ssa.Function:
		if v.Object() != nil {
			if f, ok := v.Object().(*types.Func); ok {
				return canonFullName(f)
			}
		}
		if o := v.Origin(); o != nil && o.Object() != nil {
			return canonFullName(o.Object().(*types.Func))
		}
		return "closure:" + FuncName(v)
	case *ssa.MakeClosure:
		return "closure:" + FuncName(v.Fn.(*ssa.Function))
	case *ssa.Builtin:
		return "builtin:" + v.Name()
	case *ssa.UnOp:
		// a call through a seam variable (var timeNow = time.Now)
		if t := seamTarget(v); t != nil {
			if t.Object() != nil {
				if f, ok := t.Object().(*types.Func); ok {
					return canonFullName(f)
				}
			}
			return "closure:" + FuncName(t)
		}
	}
	return ""
}

// CallOf returns the call common of an instruction that is a call, go or defer.
func CallOf(i ssa.Instruction) *ssa.CallCommon {
	if ci, ok := i.(ssa.CallInstruction); ok {
		return ci.Common()
	}
	return nil
}

// IsCall reports whether i is a plain call/go/defer of one of the named callees.
func IsCall(i ssa.Instruction, names ...string) bool {
	c := CallOf(i)
	if c == nil {
		return false
	}
	n := CalleeName(c)
	for _, x := range names {
		if n == x {
			return true
		}
	}
	return false
}

// Args returns the call arguments with the receiver (if any) first.
func Args(c *ssa.CallCommon) []ssa.Value {
	if c.IsInvoke() {
		return append([]ssa.Value{c.Value}, PArgs(c)...)
	}
	return PArgs(c)
}

// StaticFunc returns the *ssa.Function called, for static calls and closures.
func StaticFunc(c *ssa.CallCommon) *ssa.Function {
	if c == nil || c.IsInvoke() {
		return nil
	}
	switch v := c.Value.(type) {
	case *ssa.Function:
		return v
	case *ssa.MakeClosure:
		return v.Fn.(*ssa.Function)
	case *ssa.UnOp:
		return seamTarget(v)
	}
	return nil
}

// EachInstr visits every instruction of fn and, spliced in, of the new
// helper functions it calls synchronously (see helpers.go); each helper body
// is visited once.
func EachInstr(fn *ssa.Function, f func(ssa.Instruction)) {
	var seen map[*ssa.Function]bool
	var rec func(g *ssa.Function)
	rec = func(g *ssa.Function) {
		for _, b := range g.Blocks {
			for _, i := range b.Instrs {
				if g != fn {
					if _, isRet := i.(*ssa.Return); isRet {
						continue // the return of a spliced helper is not a return of fn
					}
				}
				f(i)
				if h := syncHelperCallee(i); h != nil {
					if seen == nil {
						seen = map[*ssa.Function]bool{fn: true}
					}
					if !seen[h] {
						seen[h] = true
						rec(h)
					}
				}
			}
		}
	}
	rec(fn)
}

// Calls returns the call/go/defer instructions of fn whose callee has one of the names.
func Calls(fn *ssa.Function, names ...string) []ssa.Instruction {
	var out []ssa.Instruction
	if fn == nil {
		return nil
	}
	EachInstr(fn, func(i ssa.Instruction) {
		if IsCall(i, names...) {
			out = append(out, i)
		}
	})
	return out
}

// Closures returns the anonymous functions nested (transitively) in fn.
func Closures(fn *ssa.Function) []*ssa.Function {
	var out []*ssa.Function
	var rec func(f *ssa.Function)
	seen := map[*ssa.Function]bool{}
	rec = func(f *ssa.Function) {
		for _, a := range f.AnonFuncs {
			if info := helperOf(a); info != nil && info.once {
				rec(a) // runs inside its caller: not a closure of its own, but its literals are
				continue
			}
			out = append(out, a)
			rec(a)
		}
		for _, w := range boundWrappersIn(f) {
			if !seen[w] {
				seen[w] = true
				out = append(out, w)
				rec(w)
			}
		}
		for _, m := range literalMethodsOf(f) {
			if !seen[m] && helperOf(m) == nil {
				seen[m] = true
				out = append(out, m)
				rec(m)
			}
		}
		// new helpers: a go/defer'd helper is a goroutine/deferred body like a
		// closure; a synchronously called helper contributes its own closures
		EachInstrRaw(f, func(i ssa.Instruction) {
			if h := asyncHelperCallee(i); h != nil && !seen[h] {
				seen[h] = true
				out = append(out, h)
				rec(h)
			}
			if h := syncHelperCallee(i); h != nil && !seen[h] {
				seen[h] = true
				rec(h)
			}
		})
	}
	if fn != nil {
		seen[fn] = true
		rec(fn)
	}
	return out
}

// DirectClosures: the function literals written directly in fn, plus the new
// helpers it starts with go/defer (the named form of a goroutine/deferred
// literal) and the literals of helpers spliced into it.
func DirectClosures(fn *ssa.Function) []*ssa.Function {
	if fn == nil {
		return nil
	}
	seen := map[*ssa.Function]bool{}
	var out []*ssa.Function
	var rec func(g *ssa.Function, depth int)
	rec = func(g *ssa.Function, depth int) {
		for _, a := range g.AnonFuncs {
			if info := helperOf(a); info != nil && info.once {
				continue // entered through its Once.Do call below
			}
			if !seen[a] {
				seen[a] = true
				out = append(out, a)
			}
		}
		for _, w := range boundWrappersIn(g) {
			if !seen[w] {
				seen[w] = true
				out = append(out, w)
			}
		}
		for _, m := range literalMethodsOf(g) {
			if !seen[m] && helperOf(m) == nil {
				seen[m] = true
				out = append(out, m)
			}
		}
		EachInstrRaw(g, func(i ssa.Instruction) {
			if h := asyncHelperCallee(i); h != nil && !seen[h] {
				seen[h] = true
				out = append(out, h)
			}
			if h := syncHelperCallee(i); h != nil && !seen[h] && depth < 3 {
				seen[h] = true
				rec(h, depth+1)
			}
		})
	}
	rec(fn, 0)
	return out
}

// WithClosures returns fn followed by its nested closures.
func WithClosures(fn *ssa.Function) []*ssa.Function {
	if fn == nil {
		return nil
	}
	return append([]*ssa.Function{fn}, Closures(fn)...)
}

// ---------------------------------------------------------------- positions, dominance

func instrIndex(i ssa.Instruction) int {
	for k, x := range i.Block().Instrs {
		if x == i {
			return k
		}
	}
	return -1
}

// Dominates: a executes before b on every path from entry to b.
func Dominates(a, b ssa.Instruction) bool {
	return dominatesD(a, b, 0)
}

func dominatesD(a, b ssa.Instruction, depth int) bool {
	if a.Parent() == b.Parent() {
		if a.Block() == b.Block() {
			return instrIndex(a) < instrIndex(b)
		}
		return a.Block().Dominates(b.Block())
	}
	if depth > 4 {
		return false
	}
	// b inside a new helper: a must dominate every call site of that helper
	if sites := liftSites(b); len(sites) > 0 {
		ok := true
		for _, s := range sites {
			if s == a {
				continue // a is the call itself: the helper body runs as part of it
			}
			if !dominatesD(a, s, depth+1) {
				ok = false
			}
		}
		if ok {
			return true
		}
	}
	// a inside a new helper that always executes it: its call sites must dominate b
	if sites := liftSites(a); len(sites) > 0 && mustExecute(a) {
		// only the call sites inside b's function (or its spliced helpers) order a before b
		var rel []ssa.Instruction
		for _, s := range sites {
			if TopFunc(s.Parent()) == TopFunc(b.Parent()) {
				rel = append(rel, s)
			}
		}
		if len(rel) == 0 {
			return false
		}
		sites = rel
		for _, s := range sites {
			if _, isCall := s.(*ssa.Call); !isCall {
				return false // go/defer: no ordering with the caller's later code
			}
			if !dominatesD(s, b, depth+1) {
				return false
			}
		}
		return true
	}
	return false
}

// InLoop reports whether block b lies on a CFG cycle.
func InLoop(b *ssa.BasicBlock) bool {
	if inLoopLocal(b) {
		return true
	}
	if info := helperOf(b.Parent()); info != nil {
		for _, s := range info.sites {
			// a go/defer'd helper is its own activation (like a goroutine closure); only a
			// synchronous call makes the helper body part of the caller's loop
			if _, isCall := s.(*ssa.Call); isCall && InLoop(s.Block()) {
				return true
			}
		}
	}
	return false
}

func inLoopLocal(b *ssa.BasicBlock) bool {
	seen := map[*ssa.BasicBlock]bool{}
	var q []*ssa.BasicBlock
	q = append(q, b.Succs...)
	for len(q) > 0 {
		x := q[0]
		q = q[1:]
		if x == b {
			return true
		}
		if seen[x] {
			continue
		}
		seen[x] = true
		q = append(q, x.Succs...)
	}
	return false
}

// Walk is a CFG search with avoid/target predicates and an optional edge filter.
type Walk struct {
	Avoid  func(ssa.Instruction) bool
	Target func(ssa.Instruction) bool
	// Edge: may the walk take successor idx of block b? nil = always.
	Edge func(b *ssa.BasicBlock, idx int) bool
	// Ctx: the function under analysis. A walk that starts inside a new helper
	// continues only after the helper's call sites inside Ctx (nil: all sites).
	Ctx *ssa.Function
	// Local: the function the walk starts in is the function under analysis even if it
	// is a new helper: its own returns can be targets and the walk does not continue
	// after its call sites.
	Local bool

	leftVia   []*ssa.Return // returns of the start function reached by the last search
	innerRets []*ssa.Return // returns of the helper currently being entered
	callExits map[*ssa.Call][]*ssa.Return
}

// FromInstr searches from just after instruction i.
func (w *Walk) FromInstr(i ssa.Instruction) (ssa.Instruction, []*ssa.BasicBlock) {
	return w.search(i.Block(), instrIndex(i)+1)
}

// FromBlock searches from the first instruction of b.
func (w *Walk) FromBlock(b *ssa.BasicBlock) (ssa.Instruction, []*ssa.BasicBlock) {
	return w.search(b, 0)
}

type wnode struct {
	b    *ssa.BasicBlock
	from *wnode
}

func (w *Walk) search(b0 *ssa.BasicBlock, idx0 int) (ssa.Instruction, []*ssa.BasicBlock) {
	w.leftVia = nil
	w.callExits = nil
	hit, path, reachedReturn := w.searchIn(b0, idx0, 0)
	if hit != nil {
		return hit, path
	}
	// the walk started inside a new helper and can leave it: continue after its call
	// sites, knowing the constant results of the returns through which it left
	// (`return "", false` makes the caller's `if !ok` decidable)
	if reachedReturn && !w.Local {
		if info := helperOf(b0.Parent()); info != nil {
			rets := w.leftVia
			for _, s := range info.sites {
				call, isCall := s.(*ssa.Call)
				if !isCall {
					continue
				}
				if w.Ctx != nil && TopFunc(s.Parent()) != TopFunc(w.Ctx) {
					continue
				}
				for _, ret := range rets {
					w2 := &Walk{Avoid: w.Avoid, Target: w.Target, Ctx: w.Ctx}
					outer := w.Edge
					decide := returnEdge(call, ret)
					w2.Edge = func(b *ssa.BasicBlock, i int) bool {
						if outer != nil && !outer(b, i) {
							return false
						}
						allowed, _ := decide(b, i)
						return allowed
					}
					if h, pth := w2.search(s.Block(), instrIndex(s)+1); h != nil {
						return h, pth
					}
				}
			}
		}
	}
	return nil, nil
}

// returnEdge: for a call of a helper that returned through ret, may the
// branch b→Succs[i] be taken? decided=false when the branch does not depend on
// constant results of that return.
func returnEdge(call *ssa.Call, ret *ssa.Return) func(b *ssa.BasicBlock, i int) (allowed, decided bool) {
	env := func(v ssa.Value) (constant.Value, bool) {
		idx := 0
		switch x := v.(type) {
		case *ssa.Extract:
			if x.Tuple != ssa.Value(call) {
				return nil, false
			}
			idx = x.Index
		case *ssa.Call:
			if x != call {
				return nil, false
			}
		default:
			return nil, false
		}
		if idx < len(ret.Results) {
			if cst, ok := ReturnValue(ret, idx).(*ssa.Const); ok && cst.Value != nil {
				return cst.Value, true
			}
		}
		return nil, false
	}
	return func(b *ssa.BasicBlock, i int) (bool, bool) {
		ifi := BlockIf(b)
		if ifi == nil {
			return true, false
		}
		if v, nonNil, ok := ErrNilTest(ifi); ok {
			if ex, isE := v.(*ssa.Extract); isE && ex.Tuple == ssa.Value(call) && ex.Index < len(ret.Results) {
				rv := ReturnValue(ret, ex.Index)
				if IsNilConst(rv) {
					return i != nonNil, true
				}
				// a non-constant error on this exit: unknown
				return true, false
			}
		}
		c, ok := Eval(ifi.Cond, env)
		if !ok || c.Kind() != constant.Bool {
			return true, false
		}
		if constant.BoolVal(c) {
			return i == 0, true
		}
		return i == 1, true
	}
}

// searchIn is the intraprocedural search; calls of new helpers are entered
// (their bodies are part of the caller). It also reports whether a return of
// the function is reachable without passing an Avoid instruction.
func (w *Walk) searchIn(b0 *ssa.BasicBlock, idx0 int, depth int) (ssa.Instruction, []*ssa.BasicBlock, bool) {
	seen := map[*ssa.BasicBlock]bool{}
	q := []*wnode{{b: b0}}
	first := true
	reachedReturn := false
	for len(q) > 0 {
		n := q[0]
		q = q[1:]
		start := 0
		if first {
			start = idx0
			first = false
		} else {
			if seen[n.b] {
				continue
			}
			seen[n.b] = true
		}
		stopped := false
		mkPath := func() []*ssa.BasicBlock {
			var path []*ssa.BasicBlock
			for x := n; x != nil; x = x.from {
				path = append(path, x.b)
			}
			for i, j := 0, len(path)-1; i < j; i, j = i+1, j-1 {
				path[i], path[j] = path[j], path[i]
			}
			return path
		}
		for k := start; k < len(n.b.Instrs); k++ {
			in := n.b.Instrs[k]
			if rt, isRet := in.(*ssa.Return); isRet && helperOf(in.Parent()) != nil && !(w.Local && depth == 0) {
				// the return of a spliced helper is not an exit of the function under analysis
				reachedReturn = true
				if depth == 0 {
					w.leftVia = append(w.leftVia, rt)
				} else {
					w.innerRets = append(w.innerRets, rt)
				}
				continue
			}
			if w.Target != nil && w.Target(in) {
				return in, mkPath(), false
			}
			if w.Avoid != nil && w.Avoid(in) {
				stopped = true
				break
			}
			if h := syncHelperCallee(in); h != nil && depth < 4 && len(h.Blocks) > 0 {
				save := w.innerRets
				w.innerRets = nil
				hit, _, ret := w.searchIn(h.Blocks[0], 0, depth+1)
				exits := w.innerRets
				w.innerRets = save
				if hit != nil {
					return hit, mkPath(), false
				}
				if !ret {
					stopped = true // every path through the helper passes an Avoid instruction
					break
				}
				// remember through which returns the helper can be left (un-avoided): the
				// caller's branches on its constant results are pruned accordingly
				if call, isCall := in.(*ssa.Call); isCall {
					if w.callExits == nil {
						w.callExits = map[*ssa.Call][]*ssa.Return{}
					}
					w.callExits[call] = exits
				}
			}
			if rt, isRet := in.(*ssa.Return); isRet {
				reachedReturn = true
				if depth == 0 {
					w.leftVia = append(w.leftVia, rt)
				}
			}
		}
		if stopped {
			continue
		}
		for si, s := range n.b.Succs {
			if w.Edge != nil && !w.Edge(n.b, si) {
				continue
			}
			if !w.allowedByExits(n.b, si) {
				continue
			}
			q = append(q, &wnode{b: s, from: n})
		}
	}
	return nil, nil, reachedReturn
}

// allowedByExits prunes a branch on the constant results of an entered helper
// when none of the returns through which the helper could be left allows it.
func (w *Walk) allowedByExits(b *ssa.BasicBlock, si int) bool {
	if len(w.callExits) == 0 || BlockIf(b) == nil {
		return true
	}
	for call, rets := range w.callExits {
		if call.Parent() != b.Parent() || len(rets) == 0 {
			continue
		}
		anyDecided, anyAllows := false, false
		for _, rt := range rets {
			allowed, decided := returnEdge(call, rt)(b, si)
			if !decided {
				anyAllows = true
				anyDecided = false
				break
			}
			anyDecided = true
			if allowed {
				anyAllows = true
			}
		}
		if anyDecided && !anyAllows {
			return false
		}
	}
	return true
}

// PathString renders a block path with source lines.
func PathString(p *Prog, path []*ssa.BasicBlock) string {
	var parts []string
	for _, b := range path {
		line := "-"
		for _, in := range b.Instrs {
			if in.Pos().IsValid() {
				line = fmt.Sprint(p.Fset.Position(in.Pos()).Line)
				break
			}
		}
		parts = append(parts, fmt.Sprintf("b%d@%s", b.Index, line))
	}
	return strings.Join(parts, "→")
}

// IsExit: Return or Panic instruction.
func IsExit(i ssa.Instruction) bool {
	switch i.(type) {
	case *ssa.Return, *ssa.Panic:
		return true
	}
	return false
}

func IsReturn(i ssa.Instruction) bool { _, ok := i.(*ssa.Return); return ok }

// ---------------------------------------------------------------- values

// Peel strips representation-only conversions.
func Peel(v ssa.Value) ssa.Value {
	for n := 0; n < 64; n++ {
		switch x := v.(type) {
		case *ssa.Parameter:
			if a := helperParamArg(x); a != nil {
				v = a
				continue
			}
			return v
		case *ssa.Call:
			if rs := helperResults(x, 0); len(rs) == 1 && x.Call.Signature().Results().Len() == 1 {
				if freshPerCall(x, rs[0]) {
					return v // each call makes its own object: the call is its identity
				}
				v = rs[0]
				continue
			}
			return v
		case *ssa.Extract:
			if call, ok := x.Tuple.(*ssa.Call); ok {
				if rs := helperResults(call, x.Index); len(rs) == 1 {
					v = rs[0]
					continue
				}
			}
			return v
		case *ssa.UnOp:
			// a field of a new (unpinned) struct type that is set once, in the literal that
			// creates the value: closure variables that a refactoring turned into fields
			if x.Op == token.MUL {
				if fa, ok := x.X.(*ssa.FieldAddr); ok && IsNewType(fa.X.Type()) {
					if val := newStructField(fa.X, fa.Field); val != nil {
						v = val
						continue
					}
				}
			}
			return v
		case *ssa.Field:
			if IsNewType(x.X.Type()) {
				if val := newStructField(x.X, x.Field); val != nil {
					v = val
					continue
				}
			}
			return v
		case *ssa.ChangeType:
			v = x.X
		case *ssa.MakeInterface:
			v = x.X
		case *ssa.ChangeInterface:
			v = x.X
		case *ssa.Convert:
			// keep conversions that change representation (string<->[]byte, numeric)
			if types.Identical(x.X.Type().Underlying(), x.Type().Underlying()) {
				v = x.X
			} else {
				return v
			}
		default:
			return v
		}
	}
	return v
}

// storesTo returns the values stored to the cell (Alloc) in fn and its closures.
func storesTo(cell *ssa.Alloc) []ssa.Value {
	top := cell.Parent()
	var out []ssa.Value
	for _, f := range WithClosures(top) {
		EachInstr(f, func(i ssa.Instruction) {
			st, ok := i.(*ssa.Store)
			if !ok {
				return
			}
			if resolveCell(st.Addr) == cell {
				out = append(out, st.Val)
			}
		})
	}
	return out
}

// resolveCell maps an address that is an Alloc, or a FreeVar bound to an Alloc, to that Alloc.
func resolveCell(addr ssa.Value) *ssa.Alloc {
	switch a := addr.(type) {
	case *ssa.Alloc:
		return a
	case *ssa.FreeVar:
		b := FreeVarBinding(a)
		if b == nil {
			return nil
		}
		return resolveCell(b)
	}
	return nil
}

// FreeVarBinding returns the value bound to the free variable at the (unique)
// MakeClosure site of its function; nil if not unique.
func FreeVarBinding(fv *ssa.FreeVar) ssa.Value {
	fn := fv.Parent()
	par := fn.Parent()
	if par == nil {
		// the receiver captured by a bound-method wrapper
		if sites := boundSites(fn); len(sites) == 1 && len(fn.FreeVars) == 1 && len(sites[0].Bindings) == 1 {
			return sites[0].Bindings[0]
		}
		return nil
	}
	idx := -1
	for k, x := range fn.FreeVars {
		if x == fv {
			idx = k
		}
	}
	if idx < 0 {
		return nil
	}
	var found ssa.Value
	n := 0
	EachInstr(par, func(i ssa.Instruction) {
		if mc, ok := i.(*ssa.MakeClosure); ok && mc.Fn == fn {
			n++
			found = mc.Bindings[idx]
		}
	})
	if n != 1 {
		return nil
	}
	return found
}

// Roots peels v down to the values it may originate from: through
// conversions, phis, loads of local cells (all stores), captured variables.
// Values it cannot look through are returned as they are.
func Roots(v ssa.Value) []ssa.Value {
	seen := map[ssa.Value]bool{}
	var out []ssa.Value
	var rec func(v ssa.Value, depth int)
	rec = func(v ssa.Value, depth int) {
		v = Peel(v)
		if seen[v] {
			return
		}
		seen[v] = true
		if depth > 40 {
			out = append(out, v)
			return
		}
		switch x := v.(type) {
		case *ssa.Phi:
			for _, e := range x.Edges {
				rec(e, depth+1)
			}
			return
		case *ssa.Parameter:
			if as := helperParamArgs(x); len(as) > 0 {
				for _, a := range as {
					rec(a, depth+1)
				}
				return
			}
		case *ssa.Call:
			if x.Call.Signature().Results().Len() == 1 {
				if rs := helperResults(x, 0); len(rs) > 0 {
					if len(rs) == 1 && freshPerCall(x, rs[0]) {
						out = append(out, v)
						return
					}
					for _, r := range rs {
						rec(r, depth+1)
					}
					return
				}
			}
		case *ssa.Extract:
			if call, ok := x.Tuple.(*ssa.Call); ok {
				if rs := helperResults(call, x.Index); len(rs) > 0 {
					for _, r := range rs {
						rec(r, depth+1)
					}
					return
				}
			}
		case *ssa.UnOp:
			if x.Op == token.MUL {
				if cell := resolveCell(x.X); cell != nil && isLocalCell(cell) {
					sts := storesTo(cell)
					if len(sts) > 0 {
						for _, s := range sts {
							rec(s, depth+1)
						}
						return
					}
				}
				if mv := memoValue(x); mv != nil {
					rec(mv, depth+1)
					return
				}
			}
		}
		out = append(out, v)
	}
	rec(v, 0)
	return out
}

// freshPerCall: the new helper called by call is called from several sites and returns an
// object it allocates itself (make(http.Header), &T{…}): every call yields a different object,
// so the allocation instruction inside the helper must not be taken for their common identity.
func freshPerCall(call *ssa.Call, res ssa.Value) bool {
	h := StaticFunc(call.Common())
	if h == nil {
		return false
	}
	info := helperOf(h)
	if info == nil || len(info.sites) < 2 {
		return false
	}
	ri, ok := res.(ssa.Instruction)
	if !ok || ri.Parent() != h {
		return false
	}
	switch a := res.(type) {
	case *ssa.MakeMap, *ssa.MakeSlice, *ssa.MakeChan:
		return true
	case *ssa.Alloc:
		return a.Heap
	}
	return false
}

// isLocalCell: an Alloc of a scalar/pointer/interface variable (not a struct or
// array whose fields are addressed separately).
func isLocalCell(a *ssa.Alloc) bool {
	t := a.Type().Underlying().(*types.Pointer).Elem().Underlying()
	switch t.(type) {
	case *types.Struct, *types.Array:
		return false
	}
	return true
}

// SameValue: a and b have a common single root (the same SSA value after peeling).
func SameValue(a, b ssa.Value) bool {
	if Peel(a) == Peel(b) {
		return true
	}
	ra, rb := Roots(a), Roots(b)
	if len(ra) != 1 || len(rb) != 1 {
		return false
	}
	return sameRoot(ra[0], rb[0])
}

// SameAsCallResult: v is the (first) result of call — or, where the callee gained a second,
// boolean result, a merge of that result with the constant the callee itself returns whenever
// the boolean has the value tested on that edge (id, ok := f(); if !ok { id = "" } where f
// returns "", false on every not-ok path): the merged value equals the result on every path.
func SameAsCallResult(v ssa.Value, call ssa.Value) bool {
	if SameValue(v, call) {
		return true
	}
	cl, ok := call.(*ssa.Call)
	if !ok {
		return false
	}
	var first ssa.Value = cl
	if cl.Call.Signature().Results().Len() > 1 {
		first = nil
		for _, r := range Refs(cl) {
			if e, isE := r.(*ssa.Extract); isE && e.Index == pinnedResultPos(cl, 0) {
				first = e
			}
		}
		if first == nil {
			return false
		}
		if SameValue(v, first) {
			return true
		}
	}
	phi, ok := Peel(v).(*ssa.Phi)
	if !ok {
		return false
	}
	callee := StaticFunc(cl.Common())
	if callee == nil {
		return false
	}
	own := 0
	for k, e := range phi.Edges {
		if SameValue(e, first) {
			own++
			continue
		}
		ec, isC := e.(*ssa.Const)
		if !isC || k >= len(phi.Block().Preds) {
			return false
		}
		// the edge is taken on one outcome of a boolean co-result of the same call
		pred, blk := phi.Block().Preds[k], phi.Block()
		for n := 0; BlockIf(pred) == nil && len(pred.Preds) == 1 && len(pred.Succs) == 1 && n < 3; n++ {
			pred, blk = pred.Preds[0], pred
		}
		ifi := BlockIf(pred)
		if ifi == nil || len(pred.Succs) != 2 || pred.Succs[0] == pred.Succs[1] {
			return false
		}
		truth := pred.Succs[0] == blk
		cond := ifi.Cond
		if u, isU := cond.(*ssa.UnOp); isU && u.Op == token.NOT {
			cond, truth = u.X, !truth
		}
		ex, isE := cond.(*ssa.Extract)
		if !isE || ex.Tuple != ssa.Value(cl) {
			return false
		}
		n := 0
		for _, b := range callee.Blocks {
			ret, isR := b.Instrs[len(b.Instrs)-1].(*ssa.Return)
			if !isR || ex.Index >= len(ret.Results) {
				continue
			}
			bc, isB := ret.Results[ex.Index].(*ssa.Const)
			if !isB || bc.Value == nil || bc.Value.Kind() != constant.Bool {
				return false // the co-result is computed: no correlation is known
			}
			if constant.BoolVal(bc.Value) != truth {
				continue
			}
			rc, isRC := ret.Results[pinnedResultPos(cl, 0)].(*ssa.Const)
			if !isRC || rc.Value == nil || ec.Value == nil || !constant.Compare(rc.Value, token.EQL, ec.Value) {
				return false
			}
			n++
		}
		if n == 0 {
			return false
		}
	}
	return own > 0
}

// pinnedResultPos: the current position of the pinned result i of the call's callee.
func pinnedResultPos(cl *ssa.Call, i int) int {
	if f := StaticFunc(cl.Common()); f != nil {
		if obj, ok := f.Object().(*types.Func); ok {
			if k := pinnedResultIndex(obj, i); k >= 0 {
				return k
			}
		}
	}
	return i
}

func sameRoot(a, b ssa.Value) bool {
	if a == b {
		return true
	}
	// two loads of the same field of the same base, two constants of equal value
	if ca, ok := a.(*ssa.Const); ok {
		if cb, ok := b.(*ssa.Const); ok {
			return ca.Value != nil && cb.Value != nil && constant.Compare(ca.Value, token.EQL, cb.Value)
		}
		return false
	}
	// two different calls of an allocating helper are two objects, whatever their paths say
	if ca, isA := a.(*ssa.Call); isA {
		if cb, isB := b.(*ssa.Call); isB && ca != cb {
			if rs := helperResults(ca, 0); len(rs) == 1 && freshPerCall(ca, rs[0]) {
				return false
			}
		}
	}
	pa, oka := AccessPath(a)
	pb, okb := AccessPath(b)
	return oka && okb && pa == pb && strings.Contains(pa, ".")
}

// AllRoots: every root of v satisfies pred (and there is at least one).
func AllRoots(v ssa.Value, pred func(ssa.Value) bool) bool {
	rs := Roots(v)
	if len(rs) == 0 {
		return false
	}
	for _, r := range rs {
		if !pred(r) {
			return false
		}
	}
	return true
}

// FieldLoad recognises a load of field `name` from some base: *(&base.name) or base.name.
func FieldLoad(v ssa.Value) (base ssa.Value, field string, ok bool) {
	v = Peel(v)
	switch x := v.(type) {
	case *ssa.UnOp:
		if x.Op == token.MUL {
			if fa, ok := x.X.(*ssa.FieldAddr); ok {
				return fa.X, fieldName(fa.X.Type(), fa.Field), true
			}
		}
	case *ssa.Field:
		return x.X, fieldName(x.X.Type(), x.Field), true
	}
	return nil, "", false
}

func fieldName(t types.Type, idx int) string {
	t = t.Underlying()
	if p, ok := t.(*types.Pointer); ok {
		t = p.Elem().Underlying()
	}
	if s, ok := t.(*types.Struct); ok && idx < s.NumFields() {
		return objName(s.Field(idx))
	}
	return fmt.Sprintf("#%d", idx)
}

// FieldAddrOf recognises &base.name.
func FieldAddrOf(v ssa.Value) (base ssa.Value, field string, ok bool) {
	if fa, ok := v.(*ssa.FieldAddr); ok {
		return fa.X, fieldName(fa.X.Type(), fa.Field), true
	}
	return nil, "", false
}

// AccessPath describes a value as root.field.field… where the root is a
// parameter, free variable, global, call result or constant. Used for
// messages and for comparing "the same place".
func AccessPath(v ssa.Value) (string, bool) {
	if v == nil {
		return "<none>", false
	}
	// a field of a grouping struct whose value, where the struct was filled, is a computed one
	// without a name of its own (path.Clean("/"+shimPath)+"/"): it keeps the name of its field
	if u, isU := v.(*ssa.UnOp); isU && u.Op == token.MUL {
		if fa, isFA := u.X.(*ssa.FieldAddr); isFA && IsNewType(fa.X.Type()) {
			if pv := Peel(v); pv != v {
				if pth, ok := AccessPath(pv); ok {
					return pth, true
				}
				if b, ok := AccessPath(fa.X); ok {
					return fieldStep(b, fa.X, fa.Field, ""), true
				}
			}
		}
	}
	v = Peel(v)
	switch x := v.(type) {
	case *ssa.Parameter:
		if as := helperParamArgs(x); len(as) > 1 {
			first, ok := AccessPath(as[0])
			same := ok
			for _, a := range as[1:] {
				if pth, ok2 := AccessPath(a); !ok2 || pth != first {
					same = false
				}
			}
			if same {
				return first, true
			}
		}
		return "param:" + x.Name(), true
	case *ssa.FreeVar:
		return "captured:" + x.Name(), true
	case *ssa.Global:
		return "global:" + GlobalName(x), true
	case *ssa.Const:
		if x.Value == nil {
			return "nil", true
		}
		return "const:" + x.Value.ExactString(), true
	case *ssa.Alloc:
		if x.Comment != "" {
			return "local:" + x.Comment, true
		}
		return "local", true
	case *ssa.UnOp:
		if x.Op == token.MUL {
			if fa, ok := x.X.(*ssa.FieldAddr); ok {
				// a configuration struct filled once from flags/package variables and handed down:
				// the field reads as the variable it was filled from
				if IsNewType(fa.X.Type()) {
					if val := newStructField(fa.X, fa.Field); val != nil {
						if vp, okv := AccessPath(val); okv && (strings.HasPrefix(vp, "*global:") || strings.HasPrefix(vp, "**global:") || strings.HasPrefix(vp, "const:")) {
							return vp, true
						}
					}
				}
				b, ok := AccessPath(fa.X)
				return fieldStep(b, fa.X, fa.Field, ""), ok
			}
			if cell := resolveCell(x.X); cell != nil {
				if isLocalCell(cell) {
					sts := storesTo(cell)
					if len(sts) == 1 {
						return AccessPath(sts[0])
					}
				}
				return AccessPath(cell)
			}
			if x.Op == token.MUL {
				if ia, ok := x.X.(*ssa.IndexAddr); ok {
					b, ok := AccessPath(ia.X)
					return b + "[]", ok
				}
			}
			b, ok := AccessPath(x.X)
			return "*" + b, ok
		}
		if x.Op == token.ARROW {
			b, ok := AccessPath(x.X)
			return "recv(" + b + ")", ok
		}
	case *ssa.Field:
		b, ok := AccessPath(x.X)
		return fieldStep(b, x.X, x.Field, ""), ok
	case *ssa.FieldAddr:
		b, ok := AccessPath(x.X)
		return fieldStep(b, x.X, x.Field, "&"), ok
	case *ssa.Extract:
		switch t := x.Tuple.(type) {
		case *ssa.Call:
			return fmt.Sprintf("result%d:%s", x.Index, pathCallee(CalleeName(t.Common()))), true
		case *ssa.Lookup:
			if x.Index == 0 {
				b, ok := AccessPath(t.X)
				k, _ := AccessPath(t.Index)
				return b + "[" + k + "]", ok
			}
		case *ssa.TypeAssert:
			if x.Index == 0 {
				b, ok := AccessPath(t.X)
				return b + ".(" + NamedTypeRel(t.AssertedType) + ")", ok
			}
		case *ssa.Select:
			// received value of state k: index 2+k' in order of receive states
			n := 2
			for _, st := range t.States {
				if st.Dir == types.RecvOnly {
					if n == x.Index {
						b, ok := AccessPath(st.Chan)
						return "recv(" + b + ")", ok
					}
					n++
				}
			}
		case *ssa.Next:
			b := "next"
			if rg, ok := t.Iter.(*ssa.Range); ok {
				bb, _ := AccessPath(rg.X)
				b = bb
			}
			if x.Index == 1 {
				return "rangekey(" + b + ")", true
			}
			if x.Index == 2 {
				return "rangeval(" + b + ")", true
			}
		case *ssa.UnOp:
			if t.Op == token.ARROW && x.Index == 0 {
				b, ok := AccessPath(t.X)
				return "recv(" + b + ")", ok
			}
		}
	case *ssa.IndexAddr:
		b, ok := AccessPath(x.X)
		return "&" + b + "[]", ok
	case *ssa.Index:
		b, ok := AccessPath(x.X)
		return b + "[]", ok
	case *ssa.Lookup:
		b, ok := AccessPath(x.X)
		k, _ := AccessPath(x.Index)
		return b + "[" + k + "]", ok
	case *ssa.TypeAssert:
		b, ok := AccessPath(x.X)
		return b + ".(" + NamedTypeRel(x.AssertedType) + ")", ok
	case *ssa.Slice:
		return AccessPath(x.X)
	case *ssa.Call:
		return "result:" + pathCallee(CalleeName(x.Common())), true
	case *ssa.MakeChan:
		return "makechan", true
	case *ssa.MakeMap:
		return "makemap", true
	case *ssa.MakeSlice:
		return "makeslice", true
	case *ssa.Phi:
		return "phi", false
	}
	return v.Name(), false
}

// Desc is AccessPath for messages.
func Desc(v ssa.Value) string {
	s, _ := AccessPath(v)
	return s
}

// ConstString returns the string constant value of v.
func ConstString(v ssa.Value) (string, bool) {
	c, ok := Peel(v).(*ssa.Const)
	if !ok || c.Value == nil || c.Value.Kind() != constant.String {
		return "", false
	}
	return constant.StringVal(c.Value), true
}

// ConstInt returns the integer constant value of v.
func ConstInt(v ssa.Value) (int64, bool) {
	c, ok := Peel(v).(*ssa.Const)
	if !ok || c.Value == nil {
		return 0, false
	}
	if c.Value.Kind() != constant.Int {
		return 0, false
	}
	return constant.Int64Val(c.Value)
}

// IsNilConst reports a nil constant.
func IsNilConst(v ssa.Value) bool {
	c, ok := v.(*ssa.Const)
	return ok && c.Value == nil
}

// CallResult: v is (an extract of) the result idx of a call whose callee is
// one of names. Returns the call.
func CallResult(v ssa.Value, idx int, names ...string) *ssa.Call {
	v = Peel(v)
	var call *ssa.Call
	switch x := v.(type) {
	case *ssa.Extract:
		c, ok := x.Tuple.(*ssa.Call)
		if !ok {
			return nil
		}
		// idx is a position of the callee's pinned result list
		want := idx
		if f := StaticFunc(c.Common()); f != nil && f.Parent() == nil {
			if obj, isF := f.Object().(*types.Func); isF {
				want = pinnedResultIndex(obj, idx)
			}
		}
		if x.Index != want {
			return nil
		}
		call = c
	case *ssa.Call:
		if idx != 0 {
			return nil
		}
		call = x
	default:
		return nil
	}
	n := CalleeName(call.Common())
	for _, m := range names {
		if n == m {
			return call
		}
	}
	return nil
}

// ---------------------------------------------------------------- partial evaluation of branches

// Env assigns concrete values to selected SSA values.
type Env func(v ssa.Value) (constant.Value, bool)

// Eval evaluates v under env as far as constants, env values, len() of env
// values and simple arithmetic/comparisons allow.
var evalDepth int

func Eval(v ssa.Value, env Env) (constant.Value, bool) {
	if env != nil {
		if c, ok := env(v); ok {
			return c, true
		}
	}
	switch x := v.(type) {
	case *ssa.Const:
		if x.Value == nil {
			return nil, false
		}
		return x.Value, true
	case *ssa.Parameter:
		// the parameter of a new helper with one call site: what it was given there
		if a := helperParamArg(x); a != nil && evalDepth < 6 {
			evalDepth++
			c, ok := Eval(a, env)
			evalDepth--
			return c, ok
		}
		return nil, false
	case *ssa.Phi:
		return evalPhi(x, env)
	case *ssa.Call:
		// a new helper with one return value: evaluate what it returns (its
		// parameters are looked up through env, then through the call's arguments)
		if h, ok := calleeFn(x.Call.Value); ok && IsNewHelper(h) && x.Call.Signature().Results().Len() == 1 {
			if rs := helperResults(x, 0); len(rs) == 1 {
				inner := func(u ssa.Value) (constant.Value, bool) {
					if env != nil {
						if c, ok := env(u); ok {
							return c, true
						}
					}
					for k, prm := range h.Params {
						if u == ssa.Value(prm) && k < len(x.Call.Args) {
							return Eval(x.Call.Args[k], env)
						}
					}
					return nil, false
				}
				return Eval(rs[0], inner)
			}
		}
		// … or several (a predicate written as a switch): the value of every return that can be
		// reached when the branches are decided under the same bindings, if they all agree
		if h, ok := calleeFn(x.Call.Value); ok && IsNewHelper(h) && x.Call.Signature().Results().Len() == 1 && len(h.Blocks) > 0 && evalDepth < 4 {
			inner := func(u ssa.Value) (constant.Value, bool) {
				if env != nil {
					if c, ok := env(u); ok {
						return c, true
					}
				}
				for k, prm := range h.Params {
					if u == ssa.Value(prm) && k < len(x.Call.Args) {
						return Eval(x.Call.Args[k], env)
					}
				}
				return nil, false
			}
			evalDepth++
			var got constant.Value
			agree, n := true, 0
			(&Walk{Target: func(i ssa.Instruction) bool {
				r, isR := i.(*ssa.Return)
				if !isR || i.Parent() != h || len(r.Results) != 1 {
					return false
				}
				n++
				cv, okv := Eval(r.Results[0], inner)
				if !okv {
					agree = false
				} else if got == nil {
					got = cv
				} else if !constant.Compare(got, token.EQL, cv) {
					agree = false
				}
				return false
			}, Edge: EdgeUnder(inner), Local: true}).FromBlock(h.Blocks[0])
			evalDepth--
			if agree && n > 0 && got != nil {
				return got, true
			}
		}
		return nil, false
	case *ssa.ChangeType:
		return Eval(x.X, env)
	case *ssa.Lookup:
		// a lookup in a package-level table that is filled by its initialiser and never written again
		if x.CommaOk {
			return nil, false
		}
		ld, isL := x.X.(*ssa.UnOp)
		if !isL || ld.Op != token.MUL {
			return nil, false
		}
		g, isG := ld.X.(*ssa.Global)
		if !isG {
			return nil, false
		}
		tbl, okT := readOnlyTable(g)
		if !okT {
			return nil, false
		}
		k, okK := Eval(x.Index, env)
		if !okK || k.Kind() != constant.String {
			return nil, false
		}
		if val, has := tbl[constant.StringVal(k)]; has {
			return val, true
		}
		if b, isB := x.Type().Underlying().(*types.Basic); isB {
			switch {
			case b.Info()&types.IsBoolean != 0:
				return constant.MakeBool(false), true
			case b.Info()&types.IsString != 0:
				return constant.MakeString(""), true
			case b.Info()&types.IsInteger != 0:
				return constant.MakeInt64(0), true
			}
		}
		return nil, false
	case *ssa.Convert:
		c, ok := Eval(x.X, env)
		if !ok {
			return nil, false
		}
		if b, ok := x.Type().Underlying().(*types.Basic); ok {
			if b.Info()&types.IsInteger != 0 {
				if c.Kind() == constant.Float {
					// truncation toward zero
					f, _ := constant.Float64Val(c)
					return constant.MakeInt64(int64(f)), true
				}
				return constant.ToInt(c), true
			}
			if b.Info()&types.IsFloat != 0 {
				return constant.ToFloat(c), true
			}
		}
		return c, true
	case *ssa.UnOp:
		c, ok := Eval(x.X, env)
		if !ok {
			return nil, false
		}
		switch x.Op {
		case token.NOT:
			if c.Kind() == constant.Bool {
				return constant.MakeBool(!constant.BoolVal(c)), true
			}
		case token.SUB:
			return constant.UnaryOp(token.SUB, c, 0), true
		}
		return nil, false
	case *ssa.BinOp:
		a, ok1 := Eval(x.X, env)
		b, ok2 := Eval(x.Y, env)
		if !ok1 || !ok2 {
			return nil, false
		}
		switch x.Op {
		case token.EQL, token.NEQ, token.LSS, token.LEQ, token.GTR, token.GEQ:
			if a.Kind() == constant.Bool || b.Kind() == constant.Bool {
				if x.Op == token.EQL {
					return constant.MakeBool(constant.BoolVal(a) == constant.BoolVal(b)), true
				}
				if x.Op == token.NEQ {
					return constant.MakeBool(constant.BoolVal(a) != constant.BoolVal(b)), true
				}
				return nil, false
			}
			return constant.MakeBool(constant.Compare(a, x.Op, b)), true
		case token.ADD, token.SUB, token.MUL:
			return constant.BinaryOp(a, x.Op, b), true
		case token.QUO, token.REM:
			if a.Kind() == constant.Int && b.Kind() == constant.Int && constant.Sign(b) != 0 {
				if x.Op == token.QUO {
					return constant.BinaryOp(a, token.QUO_ASSIGN, b), true // integer division
				}
				return constant.BinaryOp(a, token.REM, b), true
			}
			return nil, false
		case token.LAND, token.LOR:
			return constant.BinaryOp(a, x.Op, b), true
		}
		return nil, false
	}
	return nil, false
}

// EdgeUnder builds a Walk edge filter that follows only the branch taken
// under env when the condition is decidable, and both branches otherwise.
func EdgeUnder(env Env) func(b *ssa.BasicBlock, idx int) bool {
	return func(b *ssa.BasicBlock, idx int) bool {
		if len(b.Instrs) == 0 {
			return true
		}
		ifi, ok := b.Instrs[len(b.Instrs)-1].(*ssa.If)
		if !ok {
			return true
		}
		c, ok := Eval(ifi.Cond, env)
		if !ok || c.Kind() != constant.Bool {
			return true
		}
		if constant.BoolVal(c) {
			return idx == 0
		}
		return idx == 1
	}
}

// IntC makes an integer constant.
func IntC(n int64) constant.Value { return constant.MakeInt64(n) }

// ---------------------------------------------------------------- conditions

// Cond describes the If that ends a block.
func BlockIf(b *ssa.BasicBlock) *ssa.If {
	if len(b.Instrs) == 0 {
		return nil
	}
	i, _ := b.Instrs[len(b.Instrs)-1].(*ssa.If)
	return i
}

// ErrNilTest recognises `v != nil` / `v == nil` where v is an error-typed
// value; returns v and the successor index taken when v is non-nil.
func ErrNilTest(ifi *ssa.If) (v ssa.Value, nonNilSucc int, ok bool) {
	bo, isb := ifi.Cond.(*ssa.BinOp)
	if !isb {
		return nil, 0, false
	}
	var x ssa.Value
	if IsNilConst(bo.Y) {
		x = bo.X
	} else if IsNilConst(bo.X) {
		x = bo.Y
	} else {
		return nil, 0, false
	}
	switch bo.Op {
	case token.NEQ:
		return x, 0, true
	case token.EQL:
		return x, 1, true
	}
	return nil, 0, false
}

// BoolTest recognises a branch on a boolean value v (possibly negated);
// returns v and the successor index taken when v is true.
func BoolTest(ifi *ssa.If) (v ssa.Value, trueSucc int) {
	c := ifi.Cond
	succ := 0
	for {
		if u, ok := c.(*ssa.UnOp); ok && u.Op == token.NOT {
			c = u.X
			succ = 1 - succ
			continue
		}
		break
	}
	return c, succ
}

// ControlledBy reports whether instruction i executes only when the branch
// `ifi` took successor succ: the successor block dominates i's block and is
// not reachable through the other edge without passing the If again... the
// practical test used here: succ block dominates i.Block() and succ block's
// only predecessor is the If's block.
func ControlledBy(i ssa.Instruction, ifi *ssa.If, succ int) bool {
	sb := ifi.Block().Succs[succ]
	if len(sb.Preds) != 1 {
		return false
	}
	return sb == i.Block() || sb.Dominates(i.Block())
}

// GuardingIfs returns, for instruction i, the (If, successor) pairs that
// control it (walking up the dominator tree).
func GuardingIfs(i ssa.Instruction) []struct {
	If   *ssa.If
	Succ int
} {
	var out []struct {
		If   *ssa.If
		Succ int
	}
	b := i.Block()
	for b != nil {
		id := b.Idom()
		if id == nil {
			break
		}
		if len(b.Preds) == 1 && b.Preds[0] == id {
			if ifi := BlockIf(id); ifi != nil {
				s := 0
				if id.Succs[1] == b {
					s = 1
				}
				out = append(out, struct {
					If   *ssa.If
					Succ int
				}{ifi, s})
			}
		}
		b = id
	}
	if info := helperOf(i.Parent()); info != nil && len(info.sites) == 1 {
		out = append(out, GuardingIfs(info.sites[0])...)
	}
	return out
}

// ---------------------------------------------------------------- misc

// SortedKeys of a string-keyed set.
func SortedKeys(m map[string]bool) []string {
	var out []string
	for k := range m {
		out = append(out, k)
	}
	sort.Strings(out)
	return out
}

// NamedType returns "pkgpath.Name" of the (pointer to) named type of t.
func NamedType(t types.Type) string {
	if p, ok := t.(*types.Pointer); ok {
		t = p.Elem()
	}
	if n, ok := t.(*types.Named); ok {
		if n.Obj().Pkg() == nil {
			return objName(n.Obj())
		}
		return n.Obj().Pkg().Path() + "." + objName(n.Obj())
	}
	return t.String()
}

// Referrers of a value, nil-safe.
func Refs(v ssa.Value) []ssa.Instruction {
	r := v.Referrers()
	if r == nil {
		return nil
	}
	return *r
}

// ---------------------------------------------------------------- backward slices

// SliceBack walks the data dependences of v backwards (operands of pure
// value instructions and call arguments). visit is called for every value
// reached; returning false stops the walk along that branch. The walk is
// intraprocedural and bounded.
func SliceBack(v ssa.Value, visit func(ssa.Value) bool) {
	seen := map[ssa.Value]bool{}
	var rec func(v ssa.Value, d int)
	rec = func(v ssa.Value, d int) {
		if v == nil || seen[v] || d > 60 {
			return
		}
		seen[v] = true
		if !visit(v) {
			return
		}
		switch x := v.(type) {
		case *ssa.Phi:
			for _, e := range x.Edges {
				rec(e, d+1)
			}
		case *ssa.Parameter:
			for _, a := range helperParamArgs(x) {
				rec(a, d+1)
			}
		case *ssa.UnOp:
			if x.Op == token.MUL {
				// a field of a new struct type set once in its literal (a captured variable turned into a field)
				if fa, ok := x.X.(*ssa.FieldAddr); ok && IsNewType(fa.X.Type()) {
					if val := newStructField(fa.X, fa.Field); val != nil {
						rec(val, d+1)
						return
					}
				}
				if cell := resolveCell(x.X); cell != nil && isLocalCell(cell) {
					for _, s := range storesTo(cell) {
						rec(s, d+1)
					}
					return
				}
			}
			rec(x.X, d+1)
		case *ssa.BinOp:
			rec(x.X, d+1)
			rec(x.Y, d+1)
		case *ssa.Call:
			if rs := helperResults(x, 0); len(rs) > 0 {
				for idx := 0; idx < x.Call.Signature().Results().Len(); idx++ {
					for _, r := range helperResults(x, idx) {
						rec(r, d+1)
					}
				}
				return
			}
			for _, a := range Args(x.Common()) {
				rec(a, d+1)
			}
		case *ssa.Extract:
			rec(x.Tuple, d+1)
		case *ssa.Next:
			rec(x.Iter, d+1)
		case *ssa.Range:
			rec(x.X, d+1)
		case *ssa.IndexAddr:
			rec(x.X, d+1)
		case *ssa.Index:
			rec(x.X, d+1)
		case *ssa.Lookup:
			rec(x.X, d+1)
		case *ssa.Slice:
			rec(x.X, d+1)
		case *ssa.FieldAddr:
			rec(x.X, d+1)
		case *ssa.Field:
			rec(x.X, d+1)
		case *ssa.ChangeType:
			rec(x.X, d+1)
		case *ssa.Convert:
			rec(x.X, d+1)
		case *ssa.MakeInterface:
			rec(x.X, d+1)
		case *ssa.ChangeInterface:
			rec(x.X, d+1)
		case *ssa.TypeAssert:
			rec(x.X, d+1)
		case *ssa.Alloc:
			// a local struct/array: whatever is stored into it as a whole
			for _, r := range Refs(x) {
				if st, ok := r.(*ssa.Store); ok && st.Addr == ssa.Value(x) {
					rec(st.Val, d+1)
				}
				// element / field stores (array literals behind variadic calls, struct literals)
				switch a := r.(type) {
				case *ssa.IndexAddr, *ssa.FieldAddr:
					for _, u := range Refs(a.(ssa.Value)) {
						if st, ok := u.(*ssa.Store); ok && st.Addr == a.(ssa.Value) {
							rec(st.Val, d+1)
						}
					}
				}
			}
		}
	}
	rec(v, 0)
}

// DerivesFrom reports whether v data-depends on a value satisfying isSource,
// and whether some dependence path reaches a source without passing a value
// satisfying isSanitizer.
func DerivesFrom(v ssa.Value, isSource, isSanitizer func(ssa.Value) bool) (reaches, unsanitized bool) {
	// first: any path
	SliceBack(v, func(x ssa.Value) bool {
		if isSource(x) {
			reaches = true
			return false
		}
		return true
	})
	if !reaches {
		return false, false
	}
	SliceBack(v, func(x ssa.Value) bool {
		if isSanitizer(x) {
			return false
		}
		if isSource(x) {
			unsanitized = true
			return false
		}
		return true
	})
	return
}

// ReturnValue resolves result idx of a return, looking through the
// defer-spilled form (go/ssa stores results to locals before rundefers and
// reloads them).
func ReturnValue(r *ssa.Return, idx int) ssa.Value {
	// idx is a position of the pinned result list
	if fn := r.Parent(); fn != nil && fn.Parent() == nil {
		if obj, ok := fn.Object().(*types.Func); ok {
			idx = pinnedResultIndex(obj, idx)
		}
	}
	if idx < 0 || idx >= len(r.Results) {
		return nil
	}
	v := r.Results[idx]
	u, ok := v.(*ssa.UnOp)
	if !ok || u.Op != token.MUL {
		return v
	}
	cell, ok := u.X.(*ssa.Alloc)
	if !ok {
		return v
	}
	if x := cellValueAt(cell, u, 0); x != nil {
		return x
	}
	return v
}

// cellValueAt: the value the local cell holds just before instruction at,
// when that is determined by one store (the last store in the same block, or
// the nearest dominating store with no other store possibly intervening).
// A value that is itself a reload of the cell is resolved further. nil = unknown.
func cellValueAt(cell *ssa.Alloc, at ssa.Instruction, depth int) ssa.Value {
	if depth > 8 {
		return nil
	}
	resolve := func(val ssa.Value, st ssa.Instruction) ssa.Value {
		if ld, ok := val.(*ssa.UnOp); ok && ld.Op == token.MUL && ld.X == ssa.Value(cell) {
			return cellValueAt(cell, ld, depth+1)
		}
		return val
	}
	b := at.Block()
	idx := instrIndex(at)
	for k := idx - 1; k >= 0; k-- {
		if st, ok := b.Instrs[k].(*ssa.Store); ok && st.Addr == ssa.Value(cell) {
			return resolve(st.Val, st)
		}
	}
	var stores []*ssa.Store
	for _, ref := range Refs(cell) {
		if st, ok := ref.(*ssa.Store); ok && st.Addr == ssa.Value(cell) {
			stores = append(stores, st)
		}
	}
	var cand *ssa.Store
	for d := b.Idom(); d != nil && cand == nil; d = d.Idom() {
		for k := len(d.Instrs) - 1; k >= 0; k-- {
			if st, ok := d.Instrs[k].(*ssa.Store); ok && st.Addr == ssa.Value(cell) {
				cand = st
				break
			}
		}
	}
	if cand == nil {
		return nil
	}
	reach := func(from, to *ssa.BasicBlock) bool {
		seen := map[*ssa.BasicBlock]bool{}
		q := append([]*ssa.BasicBlock{}, from.Succs...)
		for len(q) > 0 {
			x := q[0]
			q = q[1:]
			if x == to {
				return true
			}
			if seen[x] {
				continue
			}
			seen[x] = true
			q = append(q, x.Succs...)
		}
		return false
	}
	for _, st := range stores {
		if st == cand {
			continue
		}
		if st.Block() == cand.Block() {
			if instrIndex(st) > instrIndex(cand) {
				return nil
			}
			continue
		}
		if st.Block() == b {
			if instrIndex(st) < idx {
				return nil
			}
			continue
		}
		if reach(cand.Block(), st.Block()) && reach(st.Block(), b) {
			return nil // another store may intervene
		}
	}
	return resolve(cand.Val, cand)
}

// Returns lists the source-level return instructions of fn (not the
// synthetic one of the recover block).
func Returns(fn *ssa.Function) []*ssa.Return {
	var out []*ssa.Return
	EachInstrRaw(fn, func(i ssa.Instruction) { // fn's own returns only (never those of spliced helpers)
		if r, ok := i.(*ssa.Return); ok {
			if fn.Recover != nil && i.Block() == fn.Recover {
				return
			}
			out = append(out, r)
		}
	})
	return out
}

// FuncFullName is the types.Func full name of a source function ("" for closures).
func FuncFullName(fn *ssa.Function) string {
	if fn.Object() != nil {
		if f, ok := fn.Object().(*types.Func); ok {
			return f.FullName()
		}
	}
	return ""
}

// LoopEarlyExit describes a CFG edge that leaves a natural loop from a block
// other than the loop header (a break, a return, a goto or a continue of an
// enclosing loop).
type LoopEarlyExit struct {
	Header, From, To *ssa.BasicBlock
}

// LoopEarlyExits returns the early exits of every natural loop of fn and the
// number of natural loops found.
func LoopEarlyExits(fn *ssa.Function) (exits []LoopEarlyExit, nloops int) {
	heads := map[*ssa.BasicBlock]map[*ssa.BasicBlock]bool{}
	for _, t := range fn.Blocks {
		for _, h := range t.Succs {
			if h.Dominates(t) || h == t {
				body := heads[h]
				if body == nil {
					body = map[*ssa.BasicBlock]bool{h: true}
					heads[h] = body
				}
				stack := []*ssa.BasicBlock{t}
				for len(stack) > 0 {
					x := stack[len(stack)-1]
					stack = stack[:len(stack)-1]
					if body[x] {
						continue
					}
					body[x] = true
					stack = append(stack, x.Preds...)
				}
			}
		}
	}
	for _, b := range fn.Blocks {
		body, ok := heads[b]
		if !ok {
			continue
		}
		nloops++
		for _, n := range fn.Blocks {
			if !body[n] || n == b {
				continue
			}
			for _, s := range n.Succs {
				if !body[s] {
					exits = append(exits, LoopEarlyExit{Header: b, From: n, To: s})
				}
			}
		}
	}
	return exits, nloops
}

// evalPhi evaluates a phi by following the decided branches from the
// immediate dominator of its block (the short-circuit diamonds of && and ||,
// if/else value selection): the incoming edge that is taken selects the value.
func evalPhi(phi *ssa.Phi, env Env) (constant.Value, bool) {
	b := phi.Block()
	cur := b.Idom()
	if cur == nil {
		return nil, false
	}
	for steps := 0; steps < 64; steps++ {
		if len(cur.Instrs) == 0 {
			return nil, false
		}
		var next *ssa.BasicBlock
		switch last := cur.Instrs[len(cur.Instrs)-1].(type) {
		case *ssa.If:
			c, ok := Eval(last.Cond, env)
			if !ok || c.Kind() != constant.Bool {
				return nil, false
			}
			if constant.BoolVal(c) {
				next = cur.Succs[0]
			} else {
				next = cur.Succs[1]
			}
		case *ssa.Jump:
			next = cur.Succs[0]
		default:
			return nil, false
		}
		if next == b {
			for k, pr := range b.Preds {
				if pr == cur && k < len(phi.Edges) {
					return Eval(phi.Edges[k], env)
				}
			}
			return nil, false
		}
		cur = next
	}
	return nil, false
}

// GuardCond is a condition known to hold (Truth) whenever an instruction executes.
type GuardCond struct {
	Cond  ssa.Value
	Truth bool
	If    *ssa.If
}

// GuardConds expands GuardingIfs: a guard `if a && b` that was materialised
// into a value (assigned, returned by a new predicate helper) contributes
// each conjunct; negations are folded into Truth.
func GuardConds(i ssa.Instruction) []GuardCond {
	var out []GuardCond
	for _, g := range GuardingIfs(i) {
		cond, trueSucc := BoolTest(g.If)
		truth := g.Succ == trueSucc
		out = append(out, GuardCond{cond, truth, g.If})
		if truth {
			for _, cj := range Conjuncts(cond, 0) {
				if cj != cond {
					out = append(out, GuardCond{cj, true, g.If})
				}
			}
		}
	}
	return out
}

// Conjuncts returns values that are all true whenever v is true.
func Conjuncts(v ssa.Value, depth int) []ssa.Value {
	out := []ssa.Value{v}
	if depth > 6 {
		return out
	}
	switch x := v.(type) {
	case *ssa.Call:
		if h, ok := calleeFn(x.Call.Value); ok && IsNewHelper(h) && x.Call.Signature().Results().Len() == 1 {
			if rs := helperResults(x, 0); len(rs) == 1 {
				out = append(out, Conjuncts(rs[0], depth+1)...)
			}
		}
	case *ssa.Phi:
		b := x.Block()
		allShort := true
		var tail []ssa.Value
		var conds []ssa.Value
		for k, e := range x.Edges {
			pr := b.Preds[k]
			if cst, ok := e.(*ssa.Const); ok && cst.Value != nil && cst.Value.Kind() == constant.Bool && !constant.BoolVal(cst.Value) {
				// short-circuit exit: reached when the predecessor's condition was false
				ifi := BlockIf(pr)
				if ifi == nil || pr.Succs[1] != b {
					allShort = false
					continue
				}
				conds = append(conds, ifi.Cond)
				continue
			}
			tail = append(tail, e)
		}
		if allShort && len(tail) == 1 && len(conds) > 0 {
			for _, cnd := range conds {
				out = append(out, Conjuncts(cnd, depth+1)...)
			}
			out = append(out, Conjuncts(tail[0], depth+1)...)
		}
	}
	return out
}

// newStructField: base is (a pointer to / a copy of) a value of a new struct
// type created by one literal; returns the value stored to field idx in that
// literal when it is the only store to that field.
func newStructField(base ssa.Value, idx int) ssa.Value {
	var alloc *ssa.Alloc
	for depth := 0; depth < 24 && alloc == nil; depth++ {
		switch b := base.(type) {
		case *ssa.Alloc:
			// a local copy of a struct value (the spill of a by-value parameter, `c := cfg`): the
			// fields are those of the value it was copied from
			if sts := storesTo(b); len(sts) == 1 {
				if _, isStruct := derefT1(b.Type()).Underlying().(*types.Struct); isStruct {
					switch sts[0].(type) {
					case *ssa.Parameter, *ssa.Call, *ssa.UnOp, *ssa.FreeVar:
						if types.Identical(sts[0].Type(), derefT1(b.Type())) {
							base = sts[0]
							continue
						}
					}
				}
			}
			alloc = b
		case *ssa.Call:
			// the value a constructor helper returns
			if rs := helperResults(b, 0); len(rs) == 1 {
				base = rs[0]
				continue
			}
			return nil
		case *ssa.UnOp:
			if b.Op != token.MUL {
				return nil
			}
			// a load of the local variable that holds the pointer (`s := &T{…}` captured by closures)
			if cell := resolveCell(b.X); cell != nil && isLocalCell(cell) {
				if _, holdsPtr := derefT1(cell.Type()).Underlying().(*types.Pointer); holdsPtr {
					if sts := storesTo(cell); len(sts) == 1 {
						base = sts[0]
						continue
					}
					return nil
				}
			}
			base = b.X
		case *ssa.Parameter:
			a := helperParamArg(b)
			if a == nil && IsNewType(b.Type()) {
				// a grouping struct handed down through functions that each have one call site
				a = soleSiteArg(b)
			}
			if a == nil {
				// the receiver of a method of a single-literal type
				if m := b.Parent(); len(m.Params) > 0 && m.Params[0] == b && m.Signature.Recv() != nil {
					if al := receiverLiteral(m); al != nil {
						alloc = al
						continue
					}
				}
				return nil
			}
			base = a
		case *ssa.FreeVar:
			a := FreeVarBinding(b)
			if a == nil {
				return nil
			}
			base = a
		case *ssa.MakeInterface:
			base = b.X
		case *ssa.ChangeType:
			base = b.X
		case *ssa.FieldAddr:
			// a configuration bundle kept in a field of a struct the module already had
			// (d.cfg.backendTimeout): the one value that field was created with
			if v := groupInitOf(b); v != nil {
				base = v
				continue
			}
			return nil
		default:
			return nil
		}
	}
	if alloc == nil {
		return nil
	}
	var val ssa.Value
	n := 0
	for _, r := range Refs(alloc) {
		if fa, ok := r.(*ssa.FieldAddr); ok && fa.Field == idx {
			for _, u := range Refs(fa) {
				if st, ok := u.(*ssa.Store); ok && st.Addr == ssa.Value(fa) {
					val = st.Val
					n++
				}
			}
		}
	}
	if n != 1 {
		return nil
	}
	return val
}

// derefT1 strips one pointer level.
func derefT1(t types.Type) types.Type {
	if pt, ok := t.Underlying().(*types.Pointer); ok {
		return pt.Elem()
	}
	return t
}

// pathCallee: in access paths a constructor and its context-taking twin name the same
// role (http.NewRequest is NewRequestWithContext with context.Background()).
func pathCallee(name string) string {
	switch name {
	case "net/http.NewRequestWithContext":
		return "net/http.NewRequest"
	}
	return name
}

// fieldStep renders base.field, looking through *grouping*: a struct type that does not
// exist in the pinned tree only bundles values that used to be parameters, captured
// variables or fields of their own.
//   - a field whose type is a new struct type is not a step of its own
//     (c.cfg.sessionCookieName reads as c.sessionCookieName);
//   - a parameter or captured variable of a new struct type is not a root of its own
//     (cfg.host of `func f(ctx, cfg shimConfig)` reads as the parameter host).
//
// Paths are compared with the roles they had in the pinned tree, so a grouped value keeps
// its role as long as it keeps its name.
func fieldStep(base string, baseVal ssa.Value, idx int, addr string) string {
	name := fieldName(baseVal.Type(), idx)
	st := structOf(baseVal.Type())
	if st != nil && idx < st.NumFields() {
		ft := st.Field(idx).Type()
		if IsNewType(ft) && structOf(ft) != nil {
			return base // the grouping field itself
		}
	}
	if IsNewType(baseVal.Type()) && st != nil {
		switch r := Peel(baseVal).(type) {
		case *ssa.Parameter:
			if base == "param:"+r.Name() {
				return "param:" + name
			}
		case *ssa.FreeVar:
			if base == "captured:"+r.Name() {
				return "captured:" + name
			}
		}
		// a spilled parameter (&cfg of a by-value struct parameter)
		if strings.HasPrefix(base, "local:") || strings.HasPrefix(base, "&local:") {
			if al, isA := Peel(baseVal).(*ssa.Alloc); isA {
				if sts := storesTo(al); len(sts) == 1 {
					if prm, isP := sts[0].(*ssa.Parameter); isP && IsNewType(prm.Type()) {
						return "param:" + name
					}
				}
			}
		}
	}
	return addr + base + "." + name
}

func structOf(t types.Type) *types.Struct {
	for {
		if p, ok := t.Underlying().(*types.Pointer); ok {
			t = p.Elem()
			continue
		}
		break
	}
	st, _ := t.Underlying().(*types.Struct)
	return st
}

// PhiValuesAt returns the edges of phi that can be the value at site: an edge
// taken only when a comparison has one outcome is dropped when, under that
// outcome of every syntactically equal comparison, site cannot be reached from
// the phi (`var k string; if m == "GET" { k = f() }; …; if m == "GET" { use(k) }`:
// the empty string never reaches use).
func PhiValuesAt(phi *ssa.Phi, site ssa.Instruction) []ssa.Value {
	fn := phi.Parent()
	var out []ssa.Value
	for k, e := range phi.Edges {
		if k >= len(phi.Block().Preds) {
			out = append(out, e)
			continue
		}
		cond, truth, ok := edgeCondition(phi.Block().Preds[k], phi.Block(), 0)
		if ok && stableOperands(fn, cond) {
			env := func(v ssa.Value) (constant.Value, bool) {
				if bo, isB := v.(*ssa.BinOp); isB && bo.Op == cond.Op {
					x1, y1, x2, y2 := PathOf(bo.X), PathOf(bo.Y), PathOf(cond.X), PathOf(cond.Y)
					if x1 != "" && y1 != "" && x1 == x2 && y1 == y2 {
						return constant.MakeBool(truth), true
					}
				}
				return nil, false
			}
			if h, _ := (&Walk{Target: func(i ssa.Instruction) bool { return i == site }, Edge: EdgeUnder(env), Local: true}).FromBlock(phi.Block()); h == nil {
				continue
			}
		}
		out = append(out, e)
	}
	return out
}

// edgeCondition: the comparison whose outcome decides that control goes pred→blk.
func edgeCondition(pred, blk *ssa.BasicBlock, depth int) (*ssa.BinOp, bool, bool) {
	if ifi := BlockIf(pred); ifi != nil && len(pred.Succs) == 2 && pred.Succs[0] != pred.Succs[1] {
		if bo, ok := ifi.Cond.(*ssa.BinOp); ok {
			return bo, pred.Succs[0] == blk, true
		}
		return nil, false, false
	}
	if len(pred.Preds) == 1 && len(pred.Succs) == 1 && depth < 3 {
		return edgeCondition(pred.Preds[0], pred, depth+1)
	}
	return nil, false, false
}

// stableOperands: the compared operands are constants, parameters or loads of
// fields that the function never stores to (so equal text means equal value).
func stableOperands(fn *ssa.Function, bo *ssa.BinOp) bool {
	for _, v := range []ssa.Value{bo.X, bo.Y} {
		switch x := v.(type) {
		case *ssa.Const, *ssa.Parameter:
		default:
			_, fld, ok := FieldLoad(x)
			if !ok {
				return false
			}
			stored := false
			EachInstrRaw(fn, func(i ssa.Instruction) {
				if st, isS := i.(*ssa.Store); isS {
					if _, f2, ok2 := FieldAddrOf(st.Addr); ok2 && f2 == fld {
						stored = true
					}
				}
			})
			if stored {
				return false
			}
		}
	}
	return true
}

var (
	roTableMu sync.Mutex
	roTables  = map[*ssa.Global]map[string]constant.Value{}
	roTableOK = map[*ssa.Global]bool{}
)

// readOnlyTable: the contents of an unexported package-level map[string]<basic> that is built
// by a composite literal of constants in the package initialiser and is not written, deleted
// from, re-assigned or handed out anywhere else in its package.
func readOnlyTable(g *ssa.Global) (map[string]constant.Value, bool) {
	roTableMu.Lock()
	defer roTableMu.Unlock()
	if t, done := roTables[g]; done {
		return t, roTableOK[g]
	}
	tbl := map[string]constant.Value{}
	ok := g.Pkg != nil && !g.Object().Exported()
	var mk ssa.Value
	nstores := 0
	if ok {
		var fns []*ssa.Function
		for _, m := range g.Pkg.Members {
			switch y := m.(type) {
			case *ssa.Function:
				fns = append(fns, WithClosures(y)...)
			case *ssa.Type:
				for _, t := range []types.Type{y.Type(), types.NewPointer(y.Type())} {
					ms := g.Pkg.Prog.MethodSets.MethodSet(t)
					for k := 0; k < ms.Len(); k++ {
						if f := g.Pkg.Prog.MethodValue(ms.At(k)); f != nil && f.Pkg == g.Pkg {
							fns = append(fns, WithClosures(f)...)
						}
					}
				}
			}
		}
		for _, fn := range fns {
			isInit := fn.Name() == "init" && fn.Parent() == nil
			EachInstrRaw(fn, func(i ssa.Instruction) {
				switch y := i.(type) {
				case *ssa.Store:
					if y.Addr == ssa.Value(g) {
						nstores++
						if !isInit {
							ok = false
						}
						mk = y.Val
					}
				case *ssa.UnOp:
					if y.Op != token.MUL || y.X != ssa.Value(g) {
						return
					}
					for _, r := range Refs(y) {
						switch z := r.(type) {
						case *ssa.Lookup:
							if z.X != ssa.Value(y) {
								ok = false
							}
						case *ssa.Range, *ssa.DebugRef:
						case *ssa.Call:
							if b, isB := z.Call.Value.(*ssa.Builtin); !isB || b.Name() != "len" {
								ok = false
							}
						default:
							ok = false
						}
					}
				}
			})
		}
	}
	if ok && nstores == 1 && mk != nil {
		if _, isMk := mk.(*ssa.MakeMap); !isMk {
			ok = false
		} else {
			for _, r := range Refs(mk) {
				switch z := r.(type) {
				case *ssa.MapUpdate:
					k, okk := z.Key.(*ssa.Const)
					v, okv := z.Value.(*ssa.Const)
					if !okk || !okv || k.Value == nil || v.Value == nil || k.Value.Kind() != constant.String {
						ok = false
					} else {
						tbl[constant.StringVal(k.Value)] = v.Value
					}
				case *ssa.Store, *ssa.DebugRef:
				default:
					ok = false
				}
			}
		}
	} else {
		ok = false
	}
	roTables[g], roTableOK[g] = tbl, ok
	return tbl, ok
}

package ipc

import (
	"fmt"
	"go/constant"
	"go/token"
	"go/types"
	"sort"
	"strings"

	"golang.org/x/tools/go/ssa"
)

// ---------------------------------------------------------------- calls

// CalleeName returns the fully qualified name of the statically known callee
// or of the invoked interface method: "net/http.Error",
// "(*net/http.Request).Write", "(net/http.ResponseWriter).WriteHeader".
// For a call of a closure it returns FuncName-style "closure:<name>"; "" if unknown.
func CalleeName(c *ssa.CallCommon) string {
	if c == nil {
		return ""
	}
	if c.IsInvoke() {
		return c.Method.FullName()
	}
	switch v := c.Value.(type) {
	case *ssa.Function:
		if v.Object() != nil {
			if f, ok := v.Object().(*types.Func); ok {
				return f.FullName()
			}
		}
		if o := v.Origin(); o != nil && o.Object() != nil {
			return o.Object().(*types.Func).FullName()
		}
		return "closure:" + FuncName(v)
	case *ssa.MakeClosure:
		return "closure:" + FuncName(v.Fn.(*ssa.Function))
	case *ssa.Builtin:
		return "builtin:" + v.Name()
	}
	return ""
}

// CallOf returns the call common of an instruction that is a call, go or defer.
func CallOf(i ssa.Instruction) *ssa.CallCommon {
	if ci, ok := i.(ssa.CallInstruction); ok {
		return ci.Common()
	}
	return nil
}

// IsCall reports whether i is a plain call/go/defer of one of the named callees.
func IsCall(i ssa.Instruction, names ...string) bool {
	c := CallOf(i)
	if c == nil {
		return false
	}
	n := CalleeName(c)
	for _, x := range names {
		if n == x {
			return true
		}
	}
	return false
}

// Args returns the call arguments with the receiver (if any) first.
func Args(c *ssa.CallCommon) []ssa.Value {
	if c.IsInvoke() {
		return append([]ssa.Value{c.Value}, c.Args...)
	}
	return c.Args
}

// StaticFunc returns the *ssa.Function called, for static calls and closures.
func StaticFunc(c *ssa.CallCommon) *ssa.Function {
	if c == nil || c.IsInvoke() {
		return nil
	}
	switch v := c.Value.(type) {
	case *ssa.Function:
		return v
	case *ssa.MakeClosure:
		return v.Fn.(*ssa.Function)
	}
	return nil
}

// EachInstr visits every instruction of fn.
func EachInstr(fn *ssa.Function, f func(ssa.Instruction)) {
	for _, b := range fn.Blocks {
		for _, i := range b.Instrs {
			f(i)
		}
	}
}

// Calls returns the call/go/defer instructions of fn whose callee has one of the names.
func Calls(fn *ssa.Function, names ...string) []ssa.Instruction {
	var out []ssa.Instruction
	if fn == nil {
		return nil
	}
	EachInstr(fn, func(i ssa.Instruction) {
		if IsCall(i, names...) {
			out = append(out, i)
		}
	})
	return out
}

// Closures returns the anonymous functions nested (transitively) in fn.
func Closures(fn *ssa.Function) []*ssa.Function {
	var out []*ssa.Function
	var rec func(f *ssa.Function)
	rec = func(f *ssa.Function) {
		for _, a := range f.AnonFuncs {
			out = append(out, a)
			rec(a)
		}
	}
	if fn != nil {
		rec(fn)
	}
	return out
}

// WithClosures returns fn followed by its nested closures.
func WithClosures(fn *ssa.Function) []*ssa.Function {
	if fn == nil {
		return nil
	}
	return append([]*ssa.Function{fn}, Closures(fn)...)
}

// ---------------------------------------------------------------- positions, dominance

func instrIndex(i ssa.Instruction) int {
	for k, x := range i.Block().Instrs {
		if x == i {
			return k
		}
	}
	return -1
}

// Dominates: a executes before b on every path from entry to b.
func Dominates(a, b ssa.Instruction) bool {
	if a.Block() == b.Block() {
		return instrIndex(a) < instrIndex(b)
	}
	return a.Block().Dominates(b.Block())
}

// InLoop reports whether block b lies on a CFG cycle.
func InLoop(b *ssa.BasicBlock) bool {
	seen := map[*ssa.BasicBlock]bool{}
	var q []*ssa.BasicBlock
	q = append(q, b.Succs...)
	for len(q) > 0 {
		x := q[0]
		q = q[1:]
		if x == b {
			return true
		}
		if seen[x] {
			continue
		}
		seen[x] = true
		q = append(q, x.Succs...)
	}
	return false
}

// Walk is a CFG search with avoid/target predicates and an optional edge filter.
type Walk struct {
	Avoid  func(ssa.Instruction) bool
	Target func(ssa.Instruction) bool
	// Edge: may the walk take successor idx of block b? nil = always.
	Edge func(b *ssa.BasicBlock, idx int) bool
}

// FromInstr searches from just after instruction i.
func (w *Walk) FromInstr(i ssa.Instruction) (ssa.Instruction, []*ssa.BasicBlock) {
	return w.search(i.Block(), instrIndex(i)+1)
}

// FromBlock searches from the first instruction of b.
func (w *Walk) FromBlock(b *ssa.BasicBlock) (ssa.Instruction, []*ssa.BasicBlock) {
	return w.search(b, 0)
}

type wnode struct {
	b    *ssa.BasicBlock
	from *wnode
}

func (w *Walk) search(b0 *ssa.BasicBlock, idx0 int) (ssa.Instruction, []*ssa.BasicBlock) {
	seen := map[*ssa.BasicBlock]bool{}
	q := []*wnode{{b: b0}}
	first := true
	for len(q) > 0 {
		n := q[0]
		q = q[1:]
		start := 0
		if first {
			start = idx0
			first = false
		} else {
			if seen[n.b] {
				continue
			}
			seen[n.b] = true
		}
		stopped := false
		for k := start; k < len(n.b.Instrs); k++ {
			in := n.b.Instrs[k]
			if w.Target != nil && w.Target(in) {
				var path []*ssa.BasicBlock
				for x := n; x != nil; x = x.from {
					path = append(path, x.b)
				}
				for i, j := 0, len(path)-1; i < j; i, j = i+1, j-1 {
					path[i], path[j] = path[j], path[i]
				}
				return in, path
			}
			if w.Avoid != nil && w.Avoid(in) {
				stopped = true
				break
			}
		}
		if stopped {
			continue
		}
		for si, s := range n.b.Succs {
			if w.Edge != nil && !w.Edge(n.b, si) {
				continue
			}
			q = append(q, &wnode{b: s, from: n})
		}
	}
	return nil, nil
}

// PathString renders a block path with source lines.
func PathString(p *Prog, path []*ssa.BasicBlock) string {
	var parts []string
	for _, b := range path {
		line := "-"
		for _, in := range b.Instrs {
			if in.Pos().IsValid() {
				line = fmt.Sprint(p.Fset.Position(in.Pos()).Line)
				break
			}
		}
		parts = append(parts, fmt.Sprintf("b%d@%s", b.Index, line))
	}
	return strings.Join(parts, "→")
}

// IsExit: Return or Panic instruction.
func IsExit(i ssa.Instruction) bool {
	switch i.(type) {
	case *ssa.Return, *ssa.Panic:
		return true
	}
	return false
}

func IsReturn(i ssa.Instruction) bool { _, ok := i.(*ssa.Return); return ok }

// ---------------------------------------------------------------- values

// Peel strips representation-only conversions.
func Peel(v ssa.Value) ssa.Value {
	for {
		switch x := v.(type) {
		case *ssa.ChangeType:
			v = x.X
		case *ssa.MakeInterface:
			v = x.X
		case *ssa.ChangeInterface:
			v = x.X
		case *ssa.Convert:
			// keep conversions that change representation (string<->[]byte, numeric)
			if types.Identical(x.X.Type().Underlying(), x.Type().Underlying()) {
				v = x.X
			} else {
				return v
			}
		default:
			return v
		}
	}
}

// storesTo returns the values stored to the cell (Alloc) in fn and its closures.
func storesTo(cell *ssa.Alloc) []ssa.Value {
	top := cell.Parent()
	var out []ssa.Value
	for _, f := range WithClosures(top) {
		EachInstr(f, func(i ssa.Instruction) {
			st, ok := i.(*ssa.Store)
			if !ok {
				return
			}
			if resolveCell(st.Addr) == cell {
				out = append(out, st.Val)
			}
		})
	}
	return out
}

// resolveCell maps an address that is an Alloc, or a FreeVar bound to an Alloc, to that Alloc.
func resolveCell(addr ssa.Value) *ssa.Alloc {
	switch a := addr.(type) {
	case *ssa.Alloc:
		return a
	case *ssa.FreeVar:
		b := FreeVarBinding(a)
		if b == nil {
			return nil
		}
		return resolveCell(b)
	}
	return nil
}

// FreeVarBinding returns the value bound to the free variable at the (unique)
// MakeClosure site of its function; nil if not unique.
func FreeVarBinding(fv *ssa.FreeVar) ssa.Value {
	fn := fv.Parent()
	par := fn.Parent()
	if par == nil {
		return nil
	}
	idx := -1
	for k, x := range fn.FreeVars {
		if x == fv {
			idx = k
		}
	}
	if idx < 0 {
		return nil
	}
	var found ssa.Value
	n := 0
	EachInstr(par, func(i ssa.Instruction) {
		if mc, ok := i.(*ssa.MakeClosure); ok && mc.Fn == fn {
			n++
			found = mc.Bindings[idx]
		}
	})
	if n != 1 {
		return nil
	}
	return found
}

// Roots peels v down to the values it may originate from: through
// conversions, phis, loads of local cells (all stores), captured variables.
// Values it cannot look through are returned as they are.
func Roots(v ssa.Value) []ssa.Value {
	seen := map[ssa.Value]bool{}
	var out []ssa.Value
	var rec func(v ssa.Value, depth int)
	rec = func(v ssa.Value, depth int) {
		v = Peel(v)
		if seen[v] {
			return
		}
		seen[v] = true
		if depth > 40 {
			out = append(out, v)
			return
		}
		switch x := v.(type) {
		case *ssa.Phi:
			for _, e := range x.Edges {
				rec(e, depth+1)
			}
			return
		case *ssa.UnOp:
			if x.Op == token.MUL {
				if cell := resolveCell(x.X); cell != nil && isLocalCell(cell) {
					sts := storesTo(cell)
					if len(sts) > 0 {
						for _, s := range sts {
							rec(s, depth+1)
						}
						return
					}
				}
			}
		}
		out = append(out, v)
	}
	rec(v, 0)
	return out
}

// isLocalCell: an Alloc of a scalar/pointer/interface variable (not a struct or
// array whose fields are addressed separately).
func isLocalCell(a *ssa.Alloc) bool {
	t := a.Type().Underlying().(*types.Pointer).Elem().Underlying()
	switch t.(type) {
	case *types.Struct, *types.Array:
		return false
	}
	return true
}

// SameValue: a and b have a common single root (the same SSA value after peeling).
func SameValue(a, b ssa.Value) bool {
	if Peel(a) == Peel(b) {
		return true
	}
	ra, rb := Roots(a), Roots(b)
	if len(ra) != 1 || len(rb) != 1 {
		return false
	}
	return sameRoot(ra[0], rb[0])
}

func sameRoot(a, b ssa.Value) bool {
	if a == b {
		return true
	}
	// two loads of the same field of the same base, two constants of equal value
	if ca, ok := a.(*ssa.Const); ok {
		if cb, ok := b.(*ssa.Const); ok {
			return ca.Value != nil && cb.Value != nil && constant.Compare(ca.Value, token.EQL, cb.Value)
		}
		return false
	}
	pa, oka := AccessPath(a)
	pb, okb := AccessPath(b)
	return oka && okb && pa == pb && strings.Contains(pa, ".")
}

// AllRoots: every root of v satisfies pred (and there is at least one).
func AllRoots(v ssa.Value, pred func(ssa.Value) bool) bool {
	rs := Roots(v)
	if len(rs) == 0 {
		return false
	}
	for _, r := range rs {
		if !pred(r) {
			return false
		}
	}
	return true
}

// FieldLoad recognises a load of field `name` from some base: *(&base.name) or base.name.
func FieldLoad(v ssa.Value) (base ssa.Value, field string, ok bool) {
	v = Peel(v)
	switch x := v.(type) {
	case *ssa.UnOp:
		if x.Op == token.MUL {
			if fa, ok := x.X.(*ssa.FieldAddr); ok {
				return fa.X, fieldName(fa.X.Type(), fa.Field), true
			}
		}
	case *ssa.Field:
		return x.X, fieldName(x.X.Type(), x.Field), true
	}
	return nil, "", false
}

func fieldName(t types.Type, idx int) string {
	t = t.Underlying()
	if p, ok := t.(*types.Pointer); ok {
		t = p.Elem().Underlying()
	}
	if s, ok := t.(*types.Struct); ok && idx < s.NumFields() {
		return s.Field(idx).Name()
	}
	return fmt.Sprintf("#%d", idx)
}

// FieldAddrOf recognises &base.name.
func FieldAddrOf(v ssa.Value) (base ssa.Value, field string, ok bool) {
	if fa, ok := v.(*ssa.FieldAddr); ok {
		return fa.X, fieldName(fa.X.Type(), fa.Field), true
	}
	return nil, "", false
}

// AccessPath describes a value as root.field.field… where the root is a
// parameter, free variable, global, call result or constant. Used for
// messages and for comparing "the same place".
func AccessPath(v ssa.Value) (string, bool) {
	v = Peel(v)
	switch x := v.(type) {
	case *ssa.Parameter:
		return "param:" + x.Name(), true
	case *ssa.FreeVar:
		return "captured:" + x.Name(), true
	case *ssa.Global:
		return "global:" + x.Name(), true
	case *ssa.Const:
		if x.Value == nil {
			return "nil", true
		}
		return "const:" + x.Value.ExactString(), true
	case *ssa.Alloc:
		if x.Comment != "" {
			return "local:" + x.Comment, true
		}
		return "local", true
	case *ssa.UnOp:
		if x.Op == token.MUL {
			if fa, ok := x.X.(*ssa.FieldAddr); ok {
				b, ok := AccessPath(fa.X)
				return b + "." + fieldName(fa.X.Type(), fa.Field), ok
			}
			if cell := resolveCell(x.X); cell != nil {
				if isLocalCell(cell) {
					sts := storesTo(cell)
					if len(sts) == 1 {
						return AccessPath(sts[0])
					}
				}
				return AccessPath(cell)
			}
			if x.Op == token.MUL {
				if ia, ok := x.X.(*ssa.IndexAddr); ok {
					b, ok := AccessPath(ia.X)
					return b + "[]", ok
				}
			}
			b, ok := AccessPath(x.X)
			return "*" + b, ok
		}
		if x.Op == token.ARROW {
			b, ok := AccessPath(x.X)
			return "recv(" + b + ")", ok
		}
	case *ssa.Field:
		b, ok := AccessPath(x.X)
		return b + "." + fieldName(x.X.Type(), x.Field), ok
	case *ssa.FieldAddr:
		b, ok := AccessPath(x.X)
		return "&" + b + "." + fieldName(x.X.Type(), x.Field), ok
	case *ssa.Extract:
		switch t := x.Tuple.(type) {
		case *ssa.Call:
			return fmt.Sprintf("result%d:%s", x.Index, CalleeName(t.Common())), true
		case *ssa.Lookup:
			if x.Index == 0 {
				b, ok := AccessPath(t.X)
				k, _ := AccessPath(t.Index)
				return b + "[" + k + "]", ok
			}
		case *ssa.TypeAssert:
			if x.Index == 0 {
				b, ok := AccessPath(t.X)
				return b + ".(" + NamedTypeRel(t.AssertedType) + ")", ok
			}
		case *ssa.Select:
			// received value of state k: index 2+k' in order of receive states
			n := 2
			for _, st := range t.States {
				if st.Dir == types.RecvOnly {
					if n == x.Index {
						b, ok := AccessPath(st.Chan)
						return "recv(" + b + ")", ok
					}
					n++
				}
			}
		case *ssa.Next:
			b := "next"
			if rg, ok := t.Iter.(*ssa.Range); ok {
				bb, _ := AccessPath(rg.X)
				b = bb
			}
			if x.Index == 1 {
				return "rangekey(" + b + ")", true
			}
			if x.Index == 2 {
				return "rangeval(" + b + ")", true
			}
		case *ssa.UnOp:
			if t.Op == token.ARROW && x.Index == 0 {
				b, ok := AccessPath(t.X)
				return "recv(" + b + ")", ok
			}
		}
	case *ssa.IndexAddr:
		b, ok := AccessPath(x.X)
		return "&" + b + "[]", ok
	case *ssa.Index:
		b, ok := AccessPath(x.X)
		return b + "[]", ok
	case *ssa.Lookup:
		b, ok := AccessPath(x.X)
		k, _ := AccessPath(x.Index)
		return b + "[" + k + "]", ok
	case *ssa.TypeAssert:
		b, ok := AccessPath(x.X)
		return b + ".(" + NamedTypeRel(x.AssertedType) + ")", ok
	case *ssa.Slice:
		return AccessPath(x.X)
	case *ssa.Call:
		return "result:" + CalleeName(x.Common()), true
	case *ssa.MakeChan:
		return "makechan", true
	case *ssa.MakeMap:
		return "makemap", true
	case *ssa.MakeSlice:
		return "makeslice", true
	case *ssa.Phi:
		return "phi", false
	}
	return v.Name(), false
}

// Desc is AccessPath for messages.
func Desc(v ssa.Value) string {
	s, _ := AccessPath(v)
	return s
}

// ConstString returns the string constant value of v.
func ConstString(v ssa.Value) (string, bool) {
	c, ok := Peel(v).(*ssa.Const)
	if !ok || c.Value == nil || c.Value.Kind() != constant.String {
		return "", false
	}
	return constant.StringVal(c.Value), true
}

// ConstInt returns the integer constant value of v.
func ConstInt(v ssa.Value) (int64, bool) {
	c, ok := Peel(v).(*ssa.Const)
	if !ok || c.Value == nil {
		return 0, false
	}
	if c.Value.Kind() != constant.Int {
		return 0, false
	}
	return constant.Int64Val(c.Value)
}

// IsNilConst reports a nil constant.
func IsNilConst(v ssa.Value) bool {
	c, ok := v.(*ssa.Const)
	return ok && c.Value == nil
}

// CallResult: v is (an extract of) the result idx of a call whose callee is
// one of names. Returns the call.
func CallResult(v ssa.Value, idx int, names ...string) *ssa.Call {
	v = Peel(v)
	var call *ssa.Call
	switch x := v.(type) {
	case *ssa.Extract:
		if x.Index != idx {
			return nil
		}
		c, ok := x.Tuple.(*ssa.Call)
		if !ok {
			return nil
		}
		call = c
	case *ssa.Call:
		if idx != 0 {
			return nil
		}
		call = x
	default:
		return nil
	}
	n := CalleeName(call.Common())
	for _, m := range names {
		if n == m {
			return call
		}
	}
	return nil
}

// ---------------------------------------------------------------- partial evaluation of branches

// Env assigns concrete values to selected SSA values.
type Env func(v ssa.Value) (constant.Value, bool)

// Eval evaluates v under env as far as constants, env values, len() of env
// values and simple arithmetic/comparisons allow.
func Eval(v ssa.Value, env Env) (constant.Value, bool) {
	if env != nil {
		if c, ok := env(v); ok {
			return c, true
		}
	}
	switch x := v.(type) {
	case *ssa.Const:
		if x.Value == nil {
			return nil, false
		}
		return x.Value, true
	case *ssa.ChangeType:
		return Eval(x.X, env)
	case *ssa.Convert:
		c, ok := Eval(x.X, env)
		if !ok {
			return nil, false
		}
		if b, ok := x.Type().Underlying().(*types.Basic); ok {
			if b.Info()&types.IsInteger != 0 {
				if c.Kind() == constant.Float {
					// truncation toward zero
					f, _ := constant.Float64Val(c)
					return constant.MakeInt64(int64(f)), true
				}
				return constant.ToInt(c), true
			}
			if b.Info()&types.IsFloat != 0 {
				return constant.ToFloat(c), true
			}
		}
		return c, true
	case *ssa.UnOp:
		c, ok := Eval(x.X, env)
		if !ok {
			return nil, false
		}
		switch x.Op {
		case token.NOT:
			if c.Kind() == constant.Bool {
				return constant.MakeBool(!constant.BoolVal(c)), true
			}
		case token.SUB:
			return constant.UnaryOp(token.SUB, c, 0), true
		}
		return nil, false
	case *ssa.BinOp:
		a, ok1 := Eval(x.X, env)
		b, ok2 := Eval(x.Y, env)
		if !ok1 || !ok2 {
			return nil, false
		}
		switch x.Op {
		case token.EQL, token.NEQ, token.LSS, token.LEQ, token.GTR, token.GEQ:
			if a.Kind() == constant.Bool || b.Kind() == constant.Bool {
				if x.Op == token.EQL {
					return constant.MakeBool(constant.BoolVal(a) == constant.BoolVal(b)), true
				}
				if x.Op == token.NEQ {
					return constant.MakeBool(constant.BoolVal(a) != constant.BoolVal(b)), true
				}
				return nil, false
			}
			return constant.MakeBool(constant.Compare(a, x.Op, b)), true
		case token.ADD, token.SUB, token.MUL:
			return constant.BinaryOp(a, x.Op, b), true
		case token.QUO, token.REM:
			if a.Kind() == constant.Int && b.Kind() == constant.Int && constant.Sign(b) != 0 {
				if x.Op == token.QUO {
					return constant.BinaryOp(a, token.QUO_ASSIGN, b), true // integer division
				}
				return constant.BinaryOp(a, token.REM, b), true
			}
			return nil, false
		case token.LAND, token.LOR:
			return constant.BinaryOp(a, x.Op, b), true
		}
		return nil, false
	}
	return nil, false
}

// EdgeUnder builds a Walk edge filter that follows only the branch taken
// under env when the condition is decidable, and both branches otherwise.
func EdgeUnder(env Env) func(b *ssa.BasicBlock, idx int) bool {
	return func(b *ssa.BasicBlock, idx int) bool {
		if len(b.Instrs) == 0 {
			return true
		}
		ifi, ok := b.Instrs[len(b.Instrs)-1].(*ssa.If)
		if !ok {
			return true
		}
		c, ok := Eval(ifi.Cond, env)
		if !ok || c.Kind() != constant.Bool {
			return true
		}
		if constant.BoolVal(c) {
			return idx == 0
		}
		return idx == 1
	}
}

// IntC makes an integer constant.
func IntC(n int64) constant.Value { return constant.MakeInt64(n) }

// ---------------------------------------------------------------- conditions

// Cond describes the If that ends a block.
func BlockIf(b *ssa.BasicBlock) *ssa.If {
	if len(b.Instrs) == 0 {
		return nil
	}
	i, _ := b.Instrs[len(b.Instrs)-1].(*ssa.If)
	return i
}

// ErrNilTest recognises `v != nil` / `v == nil` where v is an error-typed
// value; returns v and the successor index taken when v is non-nil.
func ErrNilTest(ifi *ssa.If) (v ssa.Value, nonNilSucc int, ok bool) {
	bo, isb := ifi.Cond.(*ssa.BinOp)
	if !isb {
		return nil, 0, false
	}
	var x ssa.Value
	if IsNilConst(bo.Y) {
		x = bo.X
	} else if IsNilConst(bo.X) {
		x = bo.Y
	} else {
		return nil, 0, false
	}
	switch bo.Op {
	case token.NEQ:
		return x, 0, true
	case token.EQL:
		return x, 1, true
	}
	return nil, 0, false
}

// BoolTest recognises a branch on a boolean value v (possibly negated);
// returns v and the successor index taken when v is true.
func BoolTest(ifi *ssa.If) (v ssa.Value, trueSucc int) {
	c := ifi.Cond
	succ := 0
	for {
		if u, ok := c.(*ssa.UnOp); ok && u.Op == token.NOT {
			c = u.X
			succ = 1 - succ
			continue
		}
		break
	}
	return c, succ
}

// ControlledBy reports whether instruction i executes only when the branch
// `ifi` took successor succ: the successor block dominates i's block and is
// not reachable through the other edge without passing the If again... the
// practical test used here: succ block dominates i.Block() and succ block's
// only predecessor is the If's block.
func ControlledBy(i ssa.Instruction, ifi *ssa.If, succ int) bool {
	sb := ifi.Block().Succs[succ]
	if len(sb.Preds) != 1 {
		return false
	}
	return sb == i.Block() || sb.Dominates(i.Block())
}

// GuardingIfs returns, for instruction i, the (If, successor) pairs that
// control it (walking up the dominator tree).
func GuardingIfs(i ssa.Instruction) []struct {
	If   *ssa.If
	Succ int
} {
	var out []struct {
		If   *ssa.If
		Succ int
	}
	b := i.Block()
	for b != nil {
		id := b.Idom()
		if id == nil {
			break
		}
		if len(b.Preds) == 1 && b.Preds[0] == id {
			if ifi := BlockIf(id); ifi != nil {
				s := 0
				if id.Succs[1] == b {
					s = 1
				}
				out = append(out, struct {
					If   *ssa.If
					Succ int
				}{ifi, s})
			}
		}
		b = id
	}
	return out
}

// ---------------------------------------------------------------- misc

// SortedKeys of a string-keyed set.
func SortedKeys(m map[string]bool) []string {
	var out []string
	for k := range m {
		out = append(out, k)
	}
	sort.Strings(out)
	return out
}

// NamedType returns "pkgpath.Name" of the (pointer to) named type of t.
func NamedType(t types.Type) string {
	if p, ok := t.(*types.Pointer); ok {
		t = p.Elem()
	}
	if n, ok := t.(*types.Named); ok {
		if n.Obj().Pkg() == nil {
			return n.Obj().Name()
		}
		return n.Obj().Pkg().Path() + "." + n.Obj().Name()
	}
	return t.String()
}

// Referrers of a value, nil-safe.
func Refs(v ssa.Value) []ssa.Instruction {
	r := v.Referrers()
	if r == nil {
		return nil
	}
	return *r
}

// ---------------------------------------------------------------- backward slices

// SliceBack walks the data dependences of v backwards (operands of pure
// value instructions and call arguments). visit is called for every value
// reached; returning false stops the walk along that branch. The walk is
// intraprocedural and bounded.
func SliceBack(v ssa.Value, visit func(ssa.Value) bool) {
	seen := map[ssa.Value]bool{}
	var rec func(v ssa.Value, d int)
	rec = func(v ssa.Value, d int) {
		if v == nil || seen[v] || d > 60 {
			return
		}
		seen[v] = true
		if !visit(v) {
			return
		}
		switch x := v.(type) {
		case *ssa.Phi:
			for _, e := range x.Edges {
				rec(e, d+1)
			}
		case *ssa.UnOp:
			if x.Op == token.MUL {
				if cell := resolveCell(x.X); cell != nil && isLocalCell(cell) {
					for _, s := range storesTo(cell) {
						rec(s, d+1)
					}
					return
				}
			}
			rec(x.X, d+1)
		case *ssa.BinOp:
			rec(x.X, d+1)
			rec(x.Y, d+1)
		case *ssa.Call:
			for _, a := range Args(x.Common()) {
				rec(a, d+1)
			}
		case *ssa.Extract:
			rec(x.Tuple, d+1)
		case *ssa.Next:
			rec(x.Iter, d+1)
		case *ssa.Range:
			rec(x.X, d+1)
		case *ssa.IndexAddr:
			rec(x.X, d+1)
		case *ssa.Index:
			rec(x.X, d+1)
		case *ssa.Lookup:
			rec(x.X, d+1)
		case *ssa.Slice:
			rec(x.X, d+1)
		case *ssa.FieldAddr:
			rec(x.X, d+1)
		case *ssa.Field:
			rec(x.X, d+1)
		case *ssa.ChangeType:
			rec(x.X, d+1)
		case *ssa.Convert:
			rec(x.X, d+1)
		case *ssa.MakeInterface:
			rec(x.X, d+1)
		case *ssa.ChangeInterface:
			rec(x.X, d+1)
		case *ssa.TypeAssert:
			rec(x.X, d+1)
		case *ssa.Alloc:
			// a local struct/array: whatever is stored into it as a whole
			for _, r := range Refs(x) {
				if st, ok := r.(*ssa.Store); ok && st.Addr == ssa.Value(x) {
					rec(st.Val, d+1)
				}
				// element / field stores (array literals behind variadic calls, struct literals)
				switch a := r.(type) {
				case *ssa.IndexAddr, *ssa.FieldAddr:
					for _, u := range Refs(a.(ssa.Value)) {
						if st, ok := u.(*ssa.Store); ok && st.Addr == a.(ssa.Value) {
							rec(st.Val, d+1)
						}
					}
				}
			}
		}
	}
	rec(v, 0)
}

// DerivesFrom reports whether v data-depends on a value satisfying isSource,
// and whether some dependence path reaches a source without passing a value
// satisfying isSanitizer.
func DerivesFrom(v ssa.Value, isSource, isSanitizer func(ssa.Value) bool) (reaches, unsanitized bool) {
	// first: any path
	SliceBack(v, func(x ssa.Value) bool {
		if isSource(x) {
			reaches = true
			return false
		}
		return true
	})
	if !reaches {
		return false, false
	}
	SliceBack(v, func(x ssa.Value) bool {
		if isSanitizer(x) {
			return false
		}
		if isSource(x) {
			unsanitized = true
			return false
		}
		return true
	})
	return
}

// ReturnValue resolves result idx of a return, looking through the
// defer-spilled form (go/ssa stores results to locals before rundefers and
// reloads them).
func ReturnValue(r *ssa.Return, idx int) ssa.Value {
	v := r.Results[idx]
	u, ok := v.(*ssa.UnOp)
	if !ok || u.Op != token.MUL {
		return v
	}
	cell, ok := u.X.(*ssa.Alloc)
	if !ok {
		return v
	}
	if x := cellValueAt(cell, u, 0); x != nil {
		return x
	}
	return v
}

// cellValueAt: the value the local cell holds just before instruction at,
// when that is determined by one store (the last store in the same block, or
// the nearest dominating store with no other store possibly intervening).
// A value that is itself a reload of the cell is resolved further. nil = unknown.
func cellValueAt(cell *ssa.Alloc, at ssa.Instruction, depth int) ssa.Value {
	if depth > 8 {
		return nil
	}
	resolve := func(val ssa.Value, st ssa.Instruction) ssa.Value {
		if ld, ok := val.(*ssa.UnOp); ok && ld.Op == token.MUL && ld.X == ssa.Value(cell) {
			return cellValueAt(cell, ld, depth+1)
		}
		return val
	}
	b := at.Block()
	idx := instrIndex(at)
	for k := idx - 1; k >= 0; k-- {
		if st, ok := b.Instrs[k].(*ssa.Store); ok && st.Addr == ssa.Value(cell) {
			return resolve(st.Val, st)
		}
	}
	var stores []*ssa.Store
	for _, ref := range Refs(cell) {
		if st, ok := ref.(*ssa.Store); ok && st.Addr == ssa.Value(cell) {
			stores = append(stores, st)
		}
	}
	var cand *ssa.Store
	for d := b.Idom(); d != nil && cand == nil; d = d.Idom() {
		for k := len(d.Instrs) - 1; k >= 0; k-- {
			if st, ok := d.Instrs[k].(*ssa.Store); ok && st.Addr == ssa.Value(cell) {
				cand = st
				break
			}
		}
	}
	if cand == nil {
		return nil
	}
	reach := func(from, to *ssa.BasicBlock) bool {
		seen := map[*ssa.BasicBlock]bool{}
		q := append([]*ssa.BasicBlock{}, from.Succs...)
		for len(q) > 0 {
			x := q[0]
			q = q[1:]
			if x == to {
				return true
			}
			if seen[x] {
				continue
			}
			seen[x] = true
			q = append(q, x.Succs...)
		}
		return false
	}
	for _, st := range stores {
		if st == cand {
			continue
		}
		if st.Block() == cand.Block() {
			if instrIndex(st) > instrIndex(cand) {
				return nil
			}
			continue
		}
		if st.Block() == b {
			if instrIndex(st) < idx {
				return nil
			}
			continue
		}
		if reach(cand.Block(), st.Block()) && reach(st.Block(), b) {
			return nil // another store may intervene
		}
	}
	return resolve(cand.Val, cand)
}

// Returns lists the source-level return instructions of fn (not the
// synthetic one of the recover block).
func Returns(fn *ssa.Function) []*ssa.Return {
	var out []*ssa.Return
	EachInstr(fn, func(i ssa.Instruction) {
		if r, ok := i.(*ssa.Return); ok {
			if fn.Recover != nil && i.Block() == fn.Recover {
				return
			}
			out = append(out, r)
		}
	})
	return out
}

// FuncFullName is the types.Func full name of a source function ("" for closures).
func FuncFullName(fn *ssa.Function) string {
	if fn.Object() != nil {
		if f, ok := fn.Object().(*types.Func); ok {
			return f.FullName()
		}
	}
	return ""
}

// LoopEarlyExit describes a CFG edge that leaves a natural loop from a block
// other than the loop header (a break, a return, a goto or a continue of an
// enclosing loop).
type LoopEarlyExit struct {
	Header, From, To *ssa.BasicBlock
}

// LoopEarlyExits returns the early exits of every natural loop of fn and the
// number of natural loops found.
func LoopEarlyExits(fn *ssa.Function) (exits []LoopEarlyExit, nloops int) {
	heads := map[*ssa.BasicBlock]map[*ssa.BasicBlock]bool{}
	for _, t := range fn.Blocks {
		for _, h := range t.Succs {
			if h.Dominates(t) || h == t {
				body := heads[h]
				if body == nil {
					body = map[*ssa.BasicBlock]bool{h: true}
					heads[h] = body
				}
				stack := []*ssa.BasicBlock{t}
				for len(stack) > 0 {
					x := stack[len(stack)-1]
					stack = stack[:len(stack)-1]
					if body[x] {
						continue
					}
					body[x] = true
					stack = append(stack, x.Preds...)
				}
			}
		}
	}
	for _, b := range fn.Blocks {
		body, ok := heads[b]
		if !ok {
			continue
		}
		nloops++
		for _, n := range fn.Blocks {
			if !body[n] || n == b {
				continue
			}
			for _, s := range n.Succs {
				if !body[s] {
					exits = append(exits, LoopEarlyExit{Header: b, From: n, To: s})
				}
			}
		}
	}
	return exits, nloops
}

package ipc

import (
	"fmt"
	"go/constant"
	"go/token"
	"go/types"
	"math/big"
	"strings"

	"golang.org/x/tools/go/ssa"
)

func init() {
	register(&PropSpec{
		ID:    "C04",
		Progs: []string{"mod"},
		Explanation: "Decides, for every order and grouping of pending-list replies: (D) the worker is started only on the not-seen branch of the dedup lookup, keyed by the very list element handed to the worker, and every path through that branch records the key; " +
			"(O) the dedup LRU is confined to the polling goroutine (only its own methods use it; not captured, stored or passed on); (N) its window is a constant ≥ 1000; " +
			"(F) one worker forwards once: every call site on the chain worker→ReadRequest→callback→forwardRequest→handler.ServeHTTP is unique and outside any loop, and the fetch retry loop contains only the fetch; " +
			"(P) the stand-alone proxy offers each ID at exactly one send site (not in a loop, the newID value) on an unbuffered channel and every received ID is appended to the reply that is returned. " +
			"Not decided: retries inside httputil.ReverseProxy / http.Transport, LRU eviction order." +
			" (P, second part) the proxy's http.Server arms no read or write deadline: a deadline fixed when the header was read lets a long-waiting poll take an ID it can no longer write.",
		Assumptions: []string{"groupcache lru.Cache keeps the most recent N keys", "httputil.ReverseProxy does not replay non-idempotent requests"},
		Run:         runC04,
	})
}

func runC04(c *Ctx) {
	p := c.Progs["mod"]
	c.Rule("C04.Y", "compatibility with the party that is not changed with this code: the agent starts only the three exchanges every proxy build tells apart", 2)
	ruleAgentProxyExchanges(c, p, "C04.Y")
	c.Rule("C04.D", "dedup decision dominates the worker start; the window of seen IDs is never reset", 6)
	c.Rule("C04.O", "the dedup LRU is owned by the polling goroutine", 1)
	c.Rule("C04.N", "dedup window ≥ 1000", 1)
	c.Rule("C04.F", "a worker forwards once; stock error handling of the reverse proxy", 12)
	ruleLoopSharedCapture(c, p, "C04.F", 1, "agent")
	// the backend-facing reverse proxy keeps its stock error handling (= C07.G, C14.P): a custom
	// ErrorHandler that serves the request again delivers a request the backend has already
	// executed a second time
	ruleReverseProxyFields(c, p, "C04.F")
	c.Rule("C04.P", "the proxy offers each ID exactly once and loses none; the agent reads the list whole", 9)
	ruleNoServerDeadlines(c, p, "C04.P")
	// … and the agent hands every listed ID to its polling loop: the stand-alone proxy offers
	// an ID once, so an ID cut off a long list (a per-poll cap) is never fetched
	if f := c.need(p, "C04.P", "agent/utils.ListPendingRequests"); f != nil {
		bad := ""
		n := 0
		for _, r := range Returns(f) {
			v := ReturnValue(r, 0)
			if v == nil || IsNilConst(v) {
				continue
			}
			n++
			okSrc := true
			for _, x := range Roots(v) {
				if IsNilConst(x) {
					continue
				}
				if CallResult(x, 0, ModPath+"/agent/utils.parseRequestIDs") == nil {
					okSrc = false
				}
			}
			SliceBack(v, func(x ssa.Value) bool {
				if sl, isSl := x.(*ssa.Slice); isSl && (sl.High != nil || sl.Low != nil) {
					okSrc = false
				}
				return true
			})
			if !okSrc {
				bad = p.Pos(r.Pos())
			}
		}
		c.Check("C04.P", "agent:every-listed-id-reaches-the-loop", p, f.Pos(), bad == "" && n > 0, "ListPendingRequests returns the parsed list as it is", "ListPendingRequests returns something other than the whole list parseRequestIDs produced (return at "+bad+"): IDs that the stand-alone proxy has handed out once are dropped and their clients never answered")
	}

	// … and reads the list whole: the cap on the size of a pending list is the generous one the
	// code has always had (1 MiB), not a lower one shared with log excerpts — a list that is
	// cut fails to parse as a whole, and the IDs in it were offered once
	if f := c.need(p, "C04.P", "agent/utils.parseRequestIDs"); f != nil {
		bad := ""
		n := 0
		// the bytes that are parsed as the list (a capped read of an error body that is only
		// reported is not a cap on the list)
		onListPath := map[ssa.Value]bool{}
		EachInstr(f, func(i ssa.Instruction) {
			if cc := CallOf(i); cc != nil {
				switch CalleeName(cc) {
				case "encoding/json.Unmarshal", "encoding/json.NewDecoder":
					SliceBack(PArgs(cc)[0], func(v ssa.Value) bool {
						onListPath[v] = true
						return true
					})
				}
			}
		})
		EachInstr(f, func(i ssa.Instruction) {
			if v, isV := i.(ssa.Value); isV && len(onListPath) > 0 && !onListPath[v] {
				return
			}
			var lim ssa.Value
			if al, ok := i.(*ssa.Alloc); ok && NamedType(al.Type()) == "io.LimitedReader" {
				if v, has := LiteralField(al, "N"); has {
					lim = v
				} else {
					bad = "an io.LimitedReader without a constant N at " + p.Pos(al.Pos())
				}
			}
			if cc := CallOf(i); cc != nil {
				switch CalleeName(cc) {
				case "io.LimitReader", "net/http.MaxBytesReader":
					lim = PArgs(cc)[len(PArgs(cc))-1]
				}
			}
			if lim == nil {
				return
			}
			n++
			if k, isC := ConstInt(lim); !isC || k < 1<<20 {
				bad = fmt.Sprintf("a limit of %s bytes at %s", PathOf(lim), p.Pos(i.Pos()))
			}
		})
		c.Check("C04.P", "agent:pending-list-read-whole", p, f.Pos(), bad == "", fmt.Sprintf("%d size cap(s) on the pending list, none below 1 MiB", n), "the pending list is read through "+bad+": a list longer than that is truncated, no longer parses, and every ID in it — offered by the stand-alone proxy exactly once — is lost")
	}

	const lruGet = "(*github.com/golang/groupcache/lru.Cache).Get"
	const lruAdd = "(*github.com/golang/groupcache/lru.Cache).Add"
	if f := c.need(p, "C04.D", "agent.pollForNewRequests"); f != nil {
		var gos []*ssa.Go
		EachInstr(f, func(i ssa.Instruction) {
			if g, ok := i.(*ssa.Go); ok {
				gos = append(gos, g)
			}
		})
		newc := c.UniqueCall("C04.N", p, f, false, "github.com/golang/groupcache/lru.New")
		// the window of seen IDs lives as long as the agent polls: it is created once, by a poller
		// that is started once — a poller restarted in a loop (after a pause for an unhealthy
		// backend, say) starts with an empty window and forwards again whatever is still listed
		{
			bad := ""
			if newc != nil && InLoop(newc.Block()) {
				bad = "the dedup cache is created inside a loop at " + p.Pos(newc.Pos())
			}
			sites := 0
			var up func(fn *ssa.Function, depth int)
			up = func(fn *ssa.Function, depth int) {
				if depth > 4 {
					return
				}
				for _, g := range p.AllFuncs {
					if !p.IsModFunc(g) {
						continue
					}
					EachInstrRaw(g, func(i ssa.Instruction) {
						cc := CallOf(i)
						if cc == nil || StaticFunc(cc) != fn {
							return
						}
						if depth == 0 {
							sites++
						}
						if InLoop(i.Block()) {
							bad = FuncName(fn) + " is called in a loop at " + p.Pos(i.Pos())
						}
						if g.Name() != "main" {
							up(TopFunc(g), depth+1)
						}
					})
				}
			}
			up(f, 0)
			c.Check("C04.D", "poll:seen-window-lives-as-long-as-the-agent", p, f.Pos(), bad == "" && sites >= 1, fmt.Sprintf("the dedup cache is created once per poller and the poller is started once (%d call site(s), none in a loop)", sites), bad+": every new poller starts with an empty window of seen IDs, so requests that are still listed (their responses not yet posted) are forwarded a second time")
		}
		if len(gos) != 1 {
			c.Unk("C04.D", "poll:go-site", p, f.Pos(), fmt.Sprintf("expected one go statement in pollForNewRequests, found %d", len(gos)))
		} else if newc != nil {
			g := gos[0]
			cache := newc.(ssa.Value)
			worker := StaticFunc(&g.Call)
			c.Check("C04.D", "poll:go-starts-worker", p, g.Pos(), worker != nil && FuncName(worker) == "agent.processOneRequest", "the go statement starts processOneRequest", "the go statement does not start processOneRequest directly")
			var key ssa.Value
			if len(PArgs(&g.Call)) >= 4 {
				key = PArgs(&g.Call)[3] // the pinned fourth parameter (request ID); added parameters follow
			}
			// guarded by !ok of Get(cache, key)
			guarded := false
			var gIf *ssa.If
			gSucc := 0
			for _, gd := range GuardingIfs(g) {
				cond, trueSucc := BoolTest(gd.If)
				e, ok := cond.(*ssa.Extract)
				if !ok || e.Index != 1 {
					continue
				}
				call, ok := e.Tuple.(*ssa.Call)
				if !ok || CalleeName(call.Common()) != lruGet {
					continue
				}
				if !SameValue(PArgs(&call.Call)[0], cache) || key == nil || !SameValue(PArgs(&call.Call)[1], key) {
					continue
				}
				if gd.Succ != trueSucc { // on the not-found side
					guarded = true
					gIf, gSucc = gd.If, gd.Succ
				}
			}
			// the same decision taken inside a wrapper method (seen.firstSighting(id)): decided on the
			// paths — with the lookup hitting, the worker start is unreachable from the lookup; with it
			// missing, every path from the lookup to the worker start passes Add(key)
			viaHelper := false
			if !guarded && key != nil {
				var gets, addsI []ssa.Instruction
				EachInstr(f, func(i ssa.Instruction) {
					if IsCall(i, lruGet) {
						gets = append(gets, i)
					}
					if IsCall(i, lruAdd) {
						addsI = append(addsI, i)
					}
				})
				sameKey := func(v ssa.Value) bool {
					for k := 0; k < 4; k++ {
						if SameValue(v, key) {
							return true
						}
						prm, isP := v.(*ssa.Parameter)
						if !isP {
							return false
						}
						a := helperParamArgIn(prm, f)
						if a == nil {
							return false
						}
						v = a
					}
					return false
				}
				if len(gets) == 1 && len(addsI) == 1 && sameKey(PArgs(CallOf(gets[0]))[1]) && sameKey(PArgs(CallOf(addsI[0]))[1]) && SameValue(PArgs(CallOf(gets[0]))[0], PArgs(CallOf(addsI[0]))[0]) {
					get := gets[0].(*ssa.Call)
					env := func(found bool) Env {
						return func(v ssa.Value) (constant.Value, bool) {
							if e, isE := v.(*ssa.Extract); isE && e.Tuple == ssa.Value(get) && e.Index == 1 {
								return constant.MakeBool(found), true
							}
							return nil, false
						}
					}
					isGo := func(i ssa.Instruction) bool { return i == ssa.Instruction(g) }
					hitFound, _ := (&Walk{Target: isGo, Edge: EdgeUnder(env(true)), Ctx: f}).FromInstr(get)
					hitMiss, _ := (&Walk{Target: isGo, Edge: EdgeUnder(env(false)), Ctx: f}).FromInstr(get)
					noAdd, _ := (&Walk{Target: isGo, Avoid: func(i ssa.Instruction) bool { return i == addsI[0] }, Edge: EdgeUnder(env(false)), Ctx: f}).FromInstr(get)
					// and the worker start is only reachable through the lookup
					before, _ := (&Walk{Target: isGo, Avoid: func(i ssa.Instruction) bool { return i == ssa.Instruction(get) }, Ctx: f}).FromBlock(f.Blocks[0])
					if hitFound == nil && hitMiss != nil && noAdd == nil && before == nil && InLoop(g.Block()) {
						guarded, viaHelper = true, true
					}
				}
			}
			c.Check("C04.D", "poll:worker-only-if-unseen", p, g.Pos(), guarded, "the worker start is control-dependent on the not-found result of previouslySeen.Get(<the ID handed to the worker>)", "the worker is no longer started only when previouslySeen.Get(<its request ID>) misses: a request ID reported twice (the proxy re-lists an ID until its response arrives) is forwarded twice")
			if key != nil {
				c.PathIs("C04.D", "poll:key-is-list-element", p, g.Pos(), key, "the deduplicated key is the element of the pending list", "result0:"+ModPath+"/agent/utils.ListPendingRequests[]")
			}
			if viaHelper {
				c.OK("C04.D", "poll:unseen-branch-records-key", p, g.Pos(), "every path from a missing lookup to the worker start passes previouslySeen.Add(key, …)")
			}
			if guarded && !viaHelper {
				// every path from the not-found branch back to its loop head passes Add(cache, key, …)
				isAdd := func(i ssa.Instruction) bool {
					if !IsCall(i, lruAdd) {
						return false
					}
					a := PArgs(CallOf(i))
					return SameValue(a[0], cache) && SameValue(a[1], key)
				}
				start := gIf.Block().Succs[gSucc]
				w := &Walk{Target: func(i ssa.Instruction) bool { return i.Block() == gIf.Block() || IsReturn(i) }, Avoid: isAdd}
				hit, path := w.FromBlock(start)
				c.Check("C04.D", "poll:unseen-branch-records-key", p, g.Pos(), hit == nil, "every path through the not-seen branch records the key with previouslySeen.Add(key, …)", "a path through the not-seen branch does not record the key ("+PathString(p, path)+"): the next list reply containing the same ID starts a second worker")
			}
			checkLRUConfined(c, p, "C04.O", newc)
			// a seen ID is never forgotten on purpose: nothing removes entries from the dedup cache
			// (a "retry the ones that failed" path re-forwards requests the backend has already handled)
			{
				bad := ""
				for _, fn := range p.AllFuncsIn("agent") {
					EachInstrRaw(fn, func(i ssa.Instruction) {
						if cc := CallOf(i); cc != nil {
							switch CalleeName(cc) {
							case "(*github.com/golang/groupcache/lru.Cache).Remove", "(*github.com/golang/groupcache/lru.Cache).RemoveOldest", "(*github.com/golang/groupcache/lru.Cache).Clear":
								bad = CalleeName(cc)[strings.LastIndex(CalleeName(cc), ".")+1:] + " in " + FuncName(fn) + " at " + p.Pos(i.Pos())
							}
						}
					})
				}
				c.Check("C04.D", "poll:seen-ids-are-never-forgotten", p, newc.Pos(), bad == "", "no Remove/RemoveOldest/Clear on the dedup cache anywhere in package agent", "the dedup cache is purged on purpose ("+bad+"): an ID taken out again is forwarded a second time when the proxy re-reports it — also for requests the backend has already handled (a failed response upload, say)")
			}
			// the window: a constant, or any expression whose interval has a lower bound ≥ 1000
			// (a flag clamped from below by a helper)
			it := &interp{p: p, globals: map[string]iv{}}
			win, werr := it.evalValue(PArgs(CallOf(newc))[0], 0)
			okWin := werr == nil && win.kind == 'i' && win.ilo.Cmp(big.NewInt(1000)) >= 0
			c.Check("C04.N", "poll:lru-window", p, newc.Pos(), okWin, fmt.Sprintf("lru.New(%s): window ≥ 1000", win), fmt.Sprintf("the dedup window ranges over %s (%v): with up to 1000 distinct IDs outstanding an ID can be evicted and forwarded again", win, werr))
		}
	}

	// ---- C04.F
	single := func(fnName string, key string, pred func(ssa.Instruction) bool, what string) {
		f := c.need(p, "C04.F", fnName)
		if f == nil {
			return
		}
		var hits []ssa.Instruction
		for _, fn := range WithClosures(f) {
			EachInstr(fn, func(i ssa.Instruction) {
				if pred(i) {
					hits = append(hits, i)
				}
			})
		}
		ok := len(hits) == 1 && !InLoop(hits[0].Block())
		if ok {
			if _, isDefer := hits[0].(*ssa.Defer); isDefer {
				ok = false
			}
		}
		c.Check("C04.F", key, p, posOf(hits), ok, "exactly one call site of "+what+", outside any loop", fmt.Sprintf("%s: %d call site(s) of %s (must be exactly one, not in a loop): one worker can forward the request more than once", fnName, len(hits), what))
	}
	single("agent.processOneRequest", "worker→ReadRequest", func(i ssa.Instruction) bool {
		return IsCall(i, ModPath+"/agent/utils.ReadRequest") && ShortName(Owner(i)) == "processOneRequest"
	}, "utils.ReadRequest")
	single("agent.processOneRequest", "callback→forwardRequest", func(i ssa.Instruction) bool { return IsCall(i, ModPath+"/agent.forwardRequest") }, "forwardRequest")
	single("agent/utils.ReadRequest", "ReadRequest→callback", func(i ssa.Instruction) bool {
		cc := CallOf(i)
		return cc != nil && !cc.IsInvoke() && PathOf(cc.Value) == P(Owner(i), 4)
	}, "the request callback")
	single("agent.forwardRequest", "forwardRequest→handler", func(i ssa.Instruction) bool { return IsCall(i, "(net/http.Handler).ServeHTTP") }, "hostProxy.ServeHTTP")
	// the request ID travels to the proxy in its header only: the URL of the fetch is the proxy
	// host plus a constant path. An ID spliced into the URL unescaped (as a query parameter "for
	// the access logs") makes the request line malformed for IDs with blanks — the proxy's HTTP
	// server answers 400 before the handler runs and the request is never forwarded
	if f := c.need(p, "C04.F", "agent/utils.ReadRequest"); f != nil {
		bad := ""
		n := 0
		idParam := ParamAt(f, 3)
		EachInstr(f, func(i ssa.Instruction) {
			cc := CallOf(i)
			if cc == nil {
				return
			}
			var u ssa.Value
			switch CalleeName(cc) {
			case "net/http.NewRequest":
				u = PArgs(cc)[1]
			case "net/http.NewRequestWithContext":
				u = PArgs(cc)[2]
			case ModPath + "/agent/utils.getRequestWithRetries":
				u = PArgs(cc)[1] // the URL it is given
			default:
				return
			}
			if u == nil {
				return
			}
			n++
			SliceBack(u, func(v ssa.Value) bool {
				if idParam != nil && v == ssa.Value(idParam) {
					bad = "the URL built at " + p.Pos(i.Pos()) + " contains the request ID"
				}
				return true
			})
		})
		c.Check("C04.F", "fetch:request-id-travels-in-the-header-only", p, f.Pos(), bad == "" && n >= 1, fmt.Sprintf("%d fetch request(s) built: no URL depends on the request ID", n), bad+": an ID with a blank (or another character that is not legal in a request target) yields a malformed request line, the fetch is refused with 400 and the request is never forwarded")
	}
	// forwardRequest has no other callers, processOneRequest is only started by the poller
	{
		n, m := 0, 0
		for _, fn := range p.Funcs {
			n += len(Calls(fn, ModPath+"/agent.forwardRequest"))
			m += len(Calls(fn, ModPath+"/agent.processOneRequest"))
		}
		c.Check("C04.F", "forwardRequest:single-caller", p, 0, n == 1, "forwardRequest has one call site in the module", fmt.Sprintf("forwardRequest has %d call sites", n))
		c.Check("C04.F", "worker:single-start-site", p, 0, m == 1, "processOneRequest has one start site in the module", fmt.Sprintf("processOneRequest is called/started at %d sites", m))
	}
	if f := c.need(p, "C04.F", "agent/utils.getRequestWithRetries"); f != nil {
		// the retry loop contains the fetch only: no callback, no handler invocation
		bad := ""
		EachInstr(f, func(i ssa.Instruction) {
			if cc := CallOf(i); cc != nil && InLoop(i.Block()) {
				n := CalleeName(cc)
				switch n {
				case "(*net/http.Client).Do", "(io.Closer).Close", "(io.ReadCloser).Close":
				default:
					if n == "" || n == "(net/http.Handler).ServeHTTP" {
						bad = "call of " + PathOf(cc.Value) + " inside the fetch retry loop"
					}
				}
			}
		})
		c.Check("C04.F", "fetch-retry-loop:fetch-only", p, f.Pos(), bad == "", "the fetch retry loop only re-issues the fetch", bad)
	}

	// ---- C04.P
	serverFns := p.FuncsIn("server")
	{
		var sends, recvs []ChanOp
		for _, op := range ChanFieldOps(serverFns, "server.proxy", "requestIDs") {
			switch op.Kind {
			case "send":
				sends = append(sends, op)
			case "recv":
				recvs = append(recvs, op)
			case "close":
				c.Bad("C04.P", "requestIDs:never-closed", p, op.Instr.Pos(), "requestIDs is closed")
			}
		}
		ok := len(sends) == 1 && FuncName(sends[0].Fn) == "server.(*proxy).ServeHTTP" && !InLoop(sends[0].Instr.Block())
		c.Check("C04.P", "requestIDs:single-offer", p, posOfOps(sends), ok, "one send site, in ServeHTTP, outside any loop: an ID is offered once", fmt.Sprintf("%d send site(s) on requestIDs (must be one, in ServeHTTP, not in a loop): an ID can be handed to two pending-list replies", len(sends)))
		if len(sends) == 1 {
			c.PathIs("C04.P", "requestIDs:offer-is-new-id", p, sends[0].Instr.Pos(), sends[0].Val, "the offered value is this activation's newID()", "result:(*"+ModPath+"/server.proxy).newID")
		}
		sts := StoresToField(serverFns, "server.proxy", "requestIDs")
		if len(sts) == 1 {
			_, size, okc := MakeChanSize(sts[0].Val)
			c.Check("C04.P", "requestIDs:unbuffered", p, sts[0].Pos(), okc && size == 0, "make(chan string): an ID is in exactly one place at a time and a cancelled client withdraws its offer", fmt.Sprintf("requestIDs is not an unbuffered channel (size %d, const %v)", size, okc))
		} else {
			c.Unk("C04.P", "requestIDs:unbuffered", p, 0, fmt.Sprintf("expected one store to proxy.requestIDs, found %d", len(sts)))
		}
		// every receive feeds an append whose result is returned
		wf := p.Func("server.(*proxy).waitForRequestIDs")
		if wf == nil {
			c.Unk("C04.P", "anchor:waitForRequestIDs", p, 0, "not found")
		}
		nrecv := 0
		for _, r := range recvs {
			nrecv++
			key := fmt.Sprintf("requestIDs:recv#%d-kept", nrecv)
			if r.Fn != wf {
				c.Bad("C04.P", key, p, r.Instr.Pos(), "requestIDs is received from outside waitForRequestIDs ("+FuncName(r.Fn)+")")
				continue
			}
			if r.Val == nil {
				c.Bad("C04.P", key, p, r.Instr.Pos(), "a value received from requestIDs is discarded: that client request is never listed and never served")
				continue
			}
			var app *ssa.Call
			for _, u := range Refs(r.Val) {
				// id is stored into the varargs array of append
				if st, ok := u.(*ssa.Store); ok {
					if ia, ok := st.Addr.(*ssa.IndexAddr); ok {
						for _, uu := range Refs(ia.X) {
							if sl, ok := uu.(*ssa.Slice); ok {
								for _, u3 := range Refs(sl) {
									if call, ok := u3.(*ssa.Call); ok {
										if b, ok := call.Call.Value.(*ssa.Builtin); ok && b.Name() == "append" {
											app = call
										}
									}
								}
							}
						}
					}
				}
			}
			if app == nil {
				// other shapes (the ID returned by a helper and placed into the reply with a literal or an
				// append in the caller): every return of waitForRequestIDs that the receive can reach must
				// hand back a value built from the received ID
				bad := "no return follows the receive"
				hit, _ := (&Walk{Target: func(i ssa.Instruction) bool {
					ret, isR := i.(*ssa.Return)
					if !isR || i.Parent() != wf || (wf.Recover != nil && i.Block() == wf.Recover) {
						return false
					}
					if bad == "no return follows the receive" {
						bad = ""
					}
					derives := false
					var back func(x ssa.Value, d int)
					back = func(x ssa.Value, d int) {
						SliceBack(x, func(v ssa.Value) bool {
							if v == r.Val {
								derives = true
							}
							// an element stored into the slice on the way (ids := make([]string, 1, n); ids[0] = id)
							if _, isSl := v.Type().Underlying().(*types.Slice); isSl && d < 3 {
								for _, u := range Refs(v) {
									if ia, ok := u.(*ssa.IndexAddr); ok && ia.X == v {
										for _, uu := range Refs(ia) {
											if st, ok := uu.(*ssa.Store); ok && st.Addr == ssa.Value(ia) {
												back(st.Val, d+1)
											}
										}
									}
								}
							}
							return true
						})
					}
					back(ReturnValue(ret, 0), 0)
					if !derives {
						bad = "the return at " + p.Pos(ret.Pos()) + " after the receive does not carry the received ID"
					}
					return false
				}, Ctx: wf, Edge: EdgeUnder(func(v ssa.Value) (constant.Value, bool) {
					// inside the select: the arm that received
					if ex, isE := v.(*ssa.Extract); isE && r.Select != nil && ex.Tuple == ssa.Value(r.Select) && ex.Index == 0 {
						return IntC(int64(r.State)), true
					}
					return nil, false
				})}).FromInstr(r.Instr)
				_ = hit
				c.Check("C04.P", key, p, r.Instr.Pos(), bad == "", "every return of waitForRequestIDs reachable after the receive hands back a slice built from the received ID", "the received ID is not kept: "+bad+": that client request is never listed and never served")
				continue
			}
			// every return reachable after the append returns a value derived from it
			bad := ""
			start := app.Block()
			seen := map[*ssa.BasicBlock]bool{}
			var q []*ssa.BasicBlock
			q = append(q, start)
			for len(q) > 0 {
				b := q[0]
				q = q[1:]
				if seen[b] {
					continue
				}
				seen[b] = true
				for _, in := range b.Instrs {
					if ret, ok := in.(*ssa.Return); ok {
						if wf.Recover != nil && b == wf.Recover {
							continue
						}
						reaches, _ := DerivesFrom(ReturnValue(ret, 0), func(v ssa.Value) bool { return v == ssa.Value(app) }, func(ssa.Value) bool { return false })
						if !reaches || IsNilConst(ReturnValue(ret, 0)) {
							bad = "the return at " + p.Pos(ret.Pos()) + " after the receive does not return the slice the ID was appended to"
						}
					}
				}
				q = append(q, b.Succs...)
			}
			c.Check("C04.P", key, p, r.Instr.Pos(), bad == "", "the received ID is appended to the slice that every later return hands back", bad+": a received ID is dropped, that client request is never served")
		}
		// the reply slice is private to the call: it does not live in (or alias) a field of the shared proxy object
		if wf != nil {
			bad := ""
			for _, r := range Returns(wf) {
				SliceBack(ReturnValue(r, 0), func(v ssa.Value) bool {
					if base, fld, ok := FieldLoad(v); ok && len(wf.Params) > 0 && rootIs(base, ParamAt(wf, 0)) {
						if _, isSlice := v.Type().Underlying().(*types.Slice); isSlice {
							bad = "field " + fld
						}
					}
					if g, ok := v.(*ssa.Global); ok {
						bad = "package variable " + g.Name()
					}
					return true
				})
			}
			c.Check("C04.P", "reply:private-slice", p, wf.Pos(), bad == "", "the slice of IDs returned to a poller is built from call-local storage", "the slice returned by waitForRequestIDs is backed by shared storage ("+bad+" of the proxy): a concurrent poller overwrites it between return and serialisation, so one ID is reported twice and another to nobody")
		}
		if nrecv < 2 {
			c.Bad("C04.P", "requestIDs:recv-sites", p, 0, fmt.Sprintf("found %d receive sites on requestIDs, expected 2", nrecv))
		}
	}
	_ = token.ADD
}

// checkLRUConfined: the *lru.Cache returned by lru.New in pollForNewRequests
// is only used as the receiver of its own methods in that function.
func checkLRUConfined(c *Ctx, p *Prog, rule string, newc ssa.Instruction) {
	bad := lruConfinement(p, newc)
	c.Check(rule, "poll:lru-confined", p, newc.Pos(), bad == "", "the LRU returned by lru.New is only used as the receiver of its own methods inside pollForNewRequests", "the dedup LRU (not goroutine-safe) escapes the polling goroutine: "+bad)
}

// lruConfinement: "" when the cache made by newc never leaves the goroutine that made it.
func lruConfinement(p *Prog, newc ssa.Instruction) string {
	const lruGet = "(*github.com/golang/groupcache/lru.Cache).Get"
	const lruAdd = "(*github.com/golang/groupcache/lru.Cache).Add"
	cache := newc.(ssa.Value)
	// ownership of the cache
	bad := ""
	var use func(cache ssa.Value, depth int)
	var useStruct func(sp ssa.Value, field int, depth int)
	use = func(cache ssa.Value, depth int) {
		for _, r := range Refs(cache) {
			switch x := r.(type) {
			case *ssa.Call:
				n := CalleeName(x.Common())
				if h := syncHelperCallee(x); h != nil && depth < 3 {
					// handed to a new helper that runs synchronously on the polling goroutine: follow it there
					for k, a := range PArgs(&x.Call) {
						if a == nil {
							continue
						}
						if a == cache && k < len(h.Params) {
							use(h.Params[k], depth+1)
						}
					}
					continue
				}
				if (n == lruGet || n == lruAdd || n == "(*github.com/golang/groupcache/lru.Cache).Len" || n == "(*github.com/golang/groupcache/lru.Cache).Remove") && PArgs(&x.Call)[0] == cache {
					ok := true
					for _, a := range PArgs(&x.Call)[1:] {
						if a == cache {
							ok = false
						}
					}
					if ok {
						continue
					}
				}
				bad = "passed to " + n
			case *ssa.DebugRef:
			case *ssa.FieldAddr:
				// cache.OnEvicted = func(key, value) {…}: the callback runs inside Add/RemoveOldest, on the
				// goroutine that owns the cache; it must not capture the cache itself
				if fieldName(x.X.Type(), x.Field) == "OnEvicted" && x.X == cache {
					okCb := true
					for _, rr := range Refs(x) {
						switch y := rr.(type) {
						case *ssa.DebugRef:
						case *ssa.Store:
							if y.Addr != ssa.Value(x) {
								okCb = false
							}
							if mc, isMC := y.Val.(*ssa.MakeClosure); isMC {
								for _, b := range mc.Bindings {
									if b == cache {
										okCb = false
									}
								}
							}
						default:
							okCb = false
						}
					}
					if okCb {
						continue
					}
				}
				bad = fmt.Sprintf("used by %T at %s (captured, stored or handed to another goroutine)", r, p.Pos(r.Pos()))
			case *ssa.Store:
				// kept in a field of a new wrapper type (type seenIDs struct{ cache *lru.Cache }): the
				// wrapper is the confined object from here on
				if fa, isFA := x.Addr.(*ssa.FieldAddr); isFA && x.Val == cache && IsNewType(fa.X.Type()) && depth < 4 {
					useStruct(fa.X, fa.Field, depth+1)
					continue
				}
				bad = fmt.Sprintf("used by %T at %s (captured, stored or handed to another goroutine)", r, p.Pos(r.Pos()))
			default:
				bad = fmt.Sprintf("used by %T at %s (captured, stored or handed to another goroutine)", r, p.Pos(r.Pos()))
			}
		}
	}
	useStruct = func(sp ssa.Value, field int, depth int) {
		if depth > 6 {
			bad = "wrapper nesting too deep"
			return
		}
		for _, r := range Refs(sp) {
			switch x := r.(type) {
			case *ssa.DebugRef:
			case *ssa.FieldAddr:
				if x.Field != field {
					continue
				}
				for _, rr := range Refs(x) {
					switch y := rr.(type) {
					case *ssa.UnOp:
						use(y, depth+1)
					case *ssa.Store:
						if y.Addr != ssa.Value(x) {
							bad = "the wrapper's field address is stored at " + p.Pos(y.Pos())
						}
					case *ssa.DebugRef:
					default:
						bad = fmt.Sprintf("the wrapper's field is used by %T at %s", rr, p.Pos(rr.Pos()))
					}
				}
			case *ssa.Return:
				// a constructor helper: the wrapper continues at its call sites
				if info := helperOf(x.Parent()); info != nil {
					for _, site := range info.sites {
						if call, isCall := site.(*ssa.Call); isCall {
							useStruct(call, field, depth+1)
						} else {
							bad = "the wrapper's constructor is started with go/defer"
						}
					}
					continue
				}
				bad = "the wrapper is returned from " + FuncName(x.Parent())
			case *ssa.Call:
				if h := syncHelperCallee(x); h != nil {
					for k, a := range PArgs(&x.Call) {
						if a == nil {
							continue
						}
						if a == sp && k < len(h.Params) {
							useStruct(h.Params[k], field, depth+1)
						}
					}
					continue
				}
				bad = "the wrapper is passed to " + CalleeName(x.Common())
			case *ssa.Phi:
				useStruct(x, field, depth+1)
			default:
				bad = fmt.Sprintf("the wrapper is used by %T at %s (captured, stored or handed to another goroutine)", r, p.Pos(r.Pos()))
			}
		}
	}
	use(cache, 0)
	if _, isCall := cache.(*ssa.Call); !isCall {
		bad = "not a local result of lru.New"
	}
	return bad
}

package ipc

import (
	"fmt"
	"go/token"
	"strings"

	"golang.org/x/tools/go/ssa"
)

func init() {
	register(&PropSpec{
		ID:    "C13",
		Progs: []string{"mod"},
		Explanation: "Decides, for every URL a client can place in a shim open request: (U) the URL that is dialled is String() of a url.URL value that is a copy of the request's URL in which every authority-bearing field — Scheme, Host, Opaque (String() renders scheme:opaque and ignores Host when it is set) and User — is overwritten, on every path before the dial, with a constant or the configured host; " +
			"(D) who-may-dial: the shim package has exactly one websocket dial site, its URL argument is NewConnection's parameter, NewConnection has exactly one call site, the package contains no other network client call, and the handshake response is not used to dial again (no redirect following); " +
			"(M) mounting: every shim endpoint is registered under path.Join(shimPath, <constant>), the shim server is entered only under the cleaned shim prefix, everything else goes to the wrapped handler with the original writer and request. " +
			"Not decided: DNS / proxy-environment behaviour of the dialer. " +
			"The prefix compared with r.URL.Path is <cleaned shim path>+\"/\" assigned before the dispatcher is created, so sibling paths that merely share leading characters are passed through. " +
			"The dispatcher stores nothing through the request it hands on (no write through r.URL or r.Header).",
		Assumptions: []string{"net/url.URL.String renders only Scheme, Opaque, User, Host, Path, RawPath, RawQuery, Fragment", "gorilla's Dialer connects to the host of the URL it is given (plus HTTP(S)_PROXY from the environment)"},
		Run:         runC13,
	})
}

func runC13(c *Ctx) {
	p := c.Progs["mod"]
	c.Rule("C13.Y", "compatibility with the party that is not changed with this code: the shim dials the host --host names", 1)
	ruleHostProxyFlagRoles(c, p, "C13.Y", "host")
	c.Rule("C13.U", "definite overwrite of every authority-bearing URL field before the dial", 9)
	c.Rule("C13.D", "who-may-dial in the shim package", 6)
	c.Rule("C13.M", "mounting of the shim endpoints and pass-through identity", 9)
	c.Rule("C13.W", "who-may-write the request on its way through session handler and shim: no new writer of Host/URL fields (= C02.W); no mux or redirect on the pass-through route (= C02.T)", 9)
	c.Borrow(runC02, "C02.W", "C13.W", func(k string) bool {
		return strings.HasPrefix(k, "agent/sessions.") || strings.HasPrefix(k, "agent/websockets.")
	})
	ruleTransparentChain(c, p, "C13.W")

	se := resolveShimEndpoints(c, p, "C13.U")
	if se == nil || se.Inner == nil {
		return
	}
	in := se.Inner
	nconn := c.UniqueCall("C13.U", p, in, false, ModPath+"/agent/websockets.NewConnection")
	if nconn != nil {
		urlArg := Args(CallOf(nconn))[1]
		str := CallResult(urlArg, 0, "(*net/url.URL).String")
		var ualloc *ssa.Alloc
		if str != nil {
			if rs := Roots(PArgs(&str.Call)[0]); len(rs) == 1 {
				ualloc, _ = rs[0].(*ssa.Alloc)
			}
		}
		if ualloc == nil {
			c.Bad("C13.U", "open:dial-url-is-String-of-local-URL", p, nconn.Pos(), "the URL given to NewConnection ("+PathOf(urlArg)+") is not String() of a local url.URL value whose fields this rule can track (e.g. it is built by Parse/ResolveReference/concatenation from client input): the authority of the dialled URL is not provably the configured backend")
		} else {
			c.OK("C13.U", "open:dial-url-is-String-of-local-URL", p, nconn.Pos(), "the dialled URL is String() of the local url.URL value")
			// initialisation: copy of *r.URL
			init := ""
			for _, r := range Refs(ualloc) {
				if st, ok := r.(*ssa.Store); ok && st.Addr == ssa.Value(ualloc) {
					init = PathOf(st.Val)
				}
			}
			c.Check("C13.U", "open:url-starts-as-request-url", p, ualloc.Pos(), init == "*"+P(in, 1)+".URL", "the value starts as a copy of the request's URL (path and query come from the client)", "the URL value is initialised from "+init)
			host := "" // captured host parameter of createShimChannel
			if len(se.Create.Params) > 1 {
				host = P(se.Create, 1)
			}
			want := map[string]func(v ssa.Value) (bool, string){
				"Scheme": func(v ssa.Value) (bool, string) {
					s, ok := ConstString(v)
					return ok && (s == "ws" || s == "wss"), "constant ws/wss"
				},
				"Host":   func(v ssa.Value) (bool, string) { return PathOf(v) == host, "the configured backend host" },
				"Opaque": func(v ssa.Value) (bool, string) { s, ok := ConstString(v); return ok && s == "", "constant \"\"" },
				"User":   func(v ssa.Value) (bool, string) { return IsNilConst(v), "nil" },
			}
			for _, fld := range []string{"Scheme", "Host", "Opaque", "User"} {
				var stores []*ssa.Store
				for _, r := range Refs(ualloc) {
					if fa, ok := r.(*ssa.FieldAddr); ok && fieldName(fa.X.Type(), fa.Field) == fld {
						for _, u := range Refs(fa) {
							if st, ok := u.(*ssa.Store); ok && st.Addr == ssa.Value(fa) {
								stores = append(stores, st)
							}
						}
					}
				}
				key := "open:url." + fld + "-overwritten"
				if len(stores) == 0 {
					why := "url.URL." + fld + " of the client-supplied URL is not overwritten before the dial"
					if fld == "Opaque" {
						why += ": for an opaque URL such as x:y, String() renders ws:y and ignores Host, so the dialer connects elsewhere (:80 on the agent's machine)"
					}
					if fld == "User" {
						why += ": client-chosen credentials end up in the dialled URL"
					}
					c.Bad("C13.U", key, p, ualloc.Pos(), why)
					continue
				}
				bad := ""
				dom := false
				for _, st := range stores {
					ok, wantDesc := want[fld](st.Val)
					if !ok {
						bad = fmt.Sprintf("stored value %s at %s is not %s", PathOf(st.Val), p.Pos(st.Pos()), wantDesc)
					}
					if Dominates(st, str) {
						dom = true
					}
				}
				if !dom {
					bad = "no store to the field dominates the String() call that produces the dialled URL"
				}
				c.Check("C13.U", key, p, stores[0].Pos(), bad == "", "url.URL."+fld+" is overwritten on every path before String()", "url.URL."+fld+": "+bad)
			}
			// no other mutation path: the address of the URL does not escape to a call that could rewrite it (Parse/ResolveReference results replace it)
			esc := ""
			for _, r := range Refs(ualloc) {
				if call, ok := r.(*ssa.Call); ok {
					n := CalleeName(call.Common())
					switch n {
					case "(*net/url.URL).String", "(*net/url.URL).RequestURI", "(*net/url.URL).EscapedPath", "(*net/url.URL).Query", "(*net/url.URL).Hostname", "(*net/url.URL).Port":
					default:
						esc = n + " at " + p.Pos(call.Pos())
					}
				}
			}
			c.Check("C13.U", "open:url-not-rewritten-elsewhere", p, ualloc.Pos(), esc == "", "the URL value is only read (String) after the overwrites", "the URL value is passed to "+esc+", which may produce/alter the authority")
		}
	}
	if op := se.ByName["open"]; op != nil {
		// r.URL = url.Parse(body)
		n := 0
		for _, m := range requestMutations(op) {
			if m.Kind == "field:URL" {
				n++
				c.Check("C13.U", "open:request-url-from-body", p, m.Instr.Pos(), CallResult(m.KeyV, 0, "net/url.Parse") != nil, "the request URL is replaced by the parsed body (client-controlled; authority fields are overwritten by the open handler)", "r.URL is set to "+PathOf(m.KeyV))
			}
		}
		if n == 0 {
			c.Unk("C13.U", "open:request-url-from-body", p, op.Pos(), "the open endpoint no longer stores the parsed target into r.URL")
		}
		// the request handed on (to the session wrapper and the open handler proper, which trust
		// r.Host and r.Header) is the endpoint's own request — not one constructed from the body
		nd := 0
		for _, call := range Calls(op, "(net/http.Handler).ServeHTTP", "(net/http.HandlerFunc).ServeHTTP") {
			a := Args(CallOf(call))
			req := a[len(a)-1]
			nd++
			for k := 0; k < 8; k++ {
				if cl, ok := req.(*ssa.Call); ok {
					switch CalleeName(cl.Common()) {
					case "(*net/http.Request).WithContext", "(*net/http.Request).Clone":
						req = Args(cl.Common())[0]
						continue
					}
				}
				if prm, ok := req.(*ssa.Parameter); ok && prm.Parent() != op {
					if v := helperParamArgIn(prm, op); v != nil {
						req = v
						continue
					}
				}
				break
			}
			c.Check("C13.U", "open:delegates-its-own-request", p, call.Pos(), PathOf(req) == P(op, 1), "the request passed on by the open endpoint is the endpoint's own request (its Host and headers are the front end's; only URL fields come from the body)", "the open endpoint hands "+PathOf(req)+" on instead of its own request: a request constructed from the client-supplied URL carries that URL's authority in Host (http.NewRequest sets it), which the handshake's Host rewrite and the session cookie jar trust")
		}
		if nd == 0 {
			c.Unk("C13.U", "open:delegates-its-own-request", p, op.Pos(), "the open endpoint no longer delegates to a wrapped handler")
		}
	}

	// ---- C13.D
	wsFns := p.FuncsIn("agent/websockets")
	var dials, nconns, others []ssa.Instruction
	netClients := []string{"net.Dial", "net.DialTimeout", "(*net.Dialer).Dial", "(*net.Dialer).DialContext", "net/http.Get", "net/http.Post", "net/http.PostForm", "net/http.Head",
		"(*net/http.Client).Do", "(*net/http.Client).Get", "(*net/http.Client).Post", "(net/http.RoundTripper).RoundTrip", "(*net/http.Transport).RoundTrip", "crypto/tls.Dial"}
	for _, fn := range wsFns {
		dials = append(dials, Calls(fn, "(*github.com/gorilla/websocket.Dialer).Dial", "(*github.com/gorilla/websocket.Dialer).DialContext")...)
		nconns = append(nconns, Calls(fn, ModPath+"/agent/websockets.NewConnection")...)
		others = append(others, Calls(fn, netClients...)...)
	}
	okd := len(dials) == 1 && FuncName(Owner(dials[0])) == "agent/websockets.NewConnection" && !InLoop(dials[0].Block())
	c.Check("C13.D", "dial:single-site", p, posOf(dials), okd, "one websocket dial site, in NewConnection, outside any loop", fmt.Sprintf("%d websocket dial site(s) in agent/websockets (must be exactly one, in NewConnection, not in a loop): a second dial can target a URL that did not pass the authority overwrite (e.g. a redirect Location)", len(dials)))
	if len(dials) >= 1 {
		for k, d := range dials {
			nc := Owner(d)
			a := Args(CallOf(d))
			idx := 1
			if strings.HasSuffix(CalleeName(CallOf(d)), "DialContext") {
				idx = 2
			}
			c.PathIs("C13.D", fmt.Sprintf("dial#%d:url-is-parameter", k+1), p, d.Pos(), a[idx], "the dialled URL is NewConnection's targetURL parameter", P(p.Func("agent/websockets.NewConnection"), 1))
			_ = nc
			// the handshake response is not inspected (no redirect following)
			used := false
			var respUsed func(tuple ssa.Value, depth int) bool
			respUsed = func(tuple ssa.Value, depth int) bool {
				for _, r := range Refs(tuple) {
					e, ok := r.(*ssa.Extract)
					if !ok || e.Index != 1 {
						continue
					}
					for _, u := range Refs(e) {
						if _, isDbg := u.(*ssa.DebugRef); isDbg {
							continue
						}
						// handed back by a new helper as its own second result: judged at the call sites
						if ret, isRet := u.(*ssa.Return); isRet && depth < 3 && len(ret.Results) == 3 && ret.Results[1] == ssa.Value(e) {
							if info := helperOf(ret.Parent()); info != nil {
								for _, site := range info.sites {
									if sv, isV := site.(ssa.Value); isV && respUsed(sv, depth+1) {
										return true
									}
								}
								continue
							}
						}
						return true
					}
				}
				return false
			}
			used = respUsed(d.(ssa.Value), 0)
			c.Check("C13.D", fmt.Sprintf("dial#%d:handshake-response-unused", k+1), p, d.Pos(), !used, "the handshake response is discarded: no Location/redirect can steer a further dial", "the handshake response of the dial is used: a backend redirect (Location) can steer the agent to another host")
		}
	}
	c.Check("C13.D", "NewConnection:single-call-site", p, posOf(nconns), len(nconns) == 1 && se.Inner != nil && Owner(nconns[0]) == se.Inner, "NewConnection is called once, from the open handler", fmt.Sprintf("NewConnection has %d call sites in the package", len(nconns)))
	c.Check("C13.D", "package:no-other-network-client", p, posOf(others), len(others) == 0, "no other dial / HTTP client call in agent/websockets", fmt.Sprintf("agent/websockets contains %d other network client call(s), first at %s", len(others), posStr(p, firstOf(others))))
	// the dialer is gorilla's default dialer without a custom NetDial
	custom := ""
	for _, fn := range wsFns {
		EachInstr(fn, func(i ssa.Instruction) {
			if st, ok := i.(*ssa.Store); ok {
				if base, fld, ok := FieldAddrOf(st.Addr); ok && NamedType(base.Type()) == "github.com/gorilla/websocket.Dialer" {
					switch fld {
					case "NetDial", "NetDialContext", "NetDialTLSContext", "Proxy":
						custom = fld + " at " + p.Pos(i.Pos())
					}
				}
			}
		})
	}
	c.Check("C13.D", "dialer:no-custom-net-dial", p, 0, custom == "", "the dialer's NetDial*/Proxy hooks are not overridden in the shim package", "the websocket dialer's "+custom+" is overridden: the network peer is chosen by that hook, not by the URL")

	// ---- C13.M
	for _, name := range []string{"open", "close", "data", "poll"} {
		call := se.Patterns[name]
		if call == nil {
			continue
		}
		pj := CallResult(PArgs(CallOf(call))[1], 0, "path.Join")
		ok := false
		if pj != nil {
			for _, r := range Roots(PArgs(&pj.Call)[0]) {
				if sl, isS := r.(*ssa.Slice); isS {
					if arr, isA := sl.X.(*ssa.Alloc); isA {
						for _, u := range Refs(arr) {
							if ia, isI := u.(*ssa.IndexAddr); isI && isConstInt(ia.Index, 0) {
								for _, uu := range Refs(ia) {
									if st, isSt := uu.(*ssa.Store); isSt && PathOf(st.Val) == P(se.Create, 2) {
										ok = true
									}
								}
							}
						}
					}
				}
			}
		}
		c.Check("C13.M", "mount:"+name, p, call.Pos(), ok, "registered at path.Join(shimPath, \""+name+"\")", "the "+name+" endpoint is not registered under path.Join(shimPath, …): it may answer requests outside the shim prefix")
	}
	if pr := c.need(p, "C13.M", "agent/websockets.Proxy"); pr != nil {
		cls := Closures(pr)
		var disp *ssa.Function
		for _, cl := range cls {
			if len(Calls(cl, "(net/http.Handler).ServeHTTP")) >= 2 {
				disp = cl
			}
		}
		if disp == nil {
			c.Unk("C13.M", "dispatch:closure", p, pr.Pos(), "no dispatching closure found in websockets.Proxy")
		} else {
			var toShim, toWrapped ssa.Instruction
			for _, call := range Calls(disp, "(net/http.Handler).ServeHTTP") {
				rs := Roots(Args(CallOf(call))[0])
				if len(rs) == 1 && CallResult(rs[0], 0, ModPath+"/agent/websockets.createShimChannel") != nil {
					toShim = call
				} else if PathOf(Args(CallOf(call))[0]) == P(pr, 1) {
					toWrapped = call
				}
			}
			if toWrapped == nil {
				c.Bad("C13.M", "dispatch:pass-through-identity", p, disp.Pos(), "the dispatcher does not call the wrapped handler")
			} else {
				a := Args(CallOf(toWrapped))
				c.Check("C13.M", "dispatch:pass-through-identity", p, toWrapped.Pos(), PathOf(a[1]) == P(disp, 0) && PathOf(a[2]) == P(disp, 1), "non-shim requests reach the wrapped handler with the dispatcher's own writer and request", "the wrapped handler is not called with the dispatcher's own (w, r)")
			}
			if toShim != nil {
				guard := false
				for _, g := range GuardingIfs(toShim) {
					cond, trueSucc := BoolTest(g.If)
					if hp := CallResult(cond, 0, "strings.HasPrefix"); hp != nil && g.Succ == trueSucc {
						// the prefix is Clean("/"+shimPath)+"/"
						pre := PArgs(&hp.Call)[1]
						okp := false
						SliceBack(pre, func(v ssa.Value) bool {
							if call, ok := v.(*ssa.Call); ok && CalleeName(call.Common()) == "path.Clean" {
								okp = true
							}
							return true
						})
						if PathOf(PArgs(&hp.Call)[0]) == P(disp, 1)+".URL.Path" && okp {
							guard = true
						}
					}
				}
				// the compared prefix ends in "/" (so "/shim-static/x" is not under "/shim")
				if hpc := Calls(disp, "strings.HasPrefix"); len(hpc) == 1 {
					slash, other := 0, ""
					for _, r := range Roots(Args(CallOf(hpc[0]))[1]) {
						if _, isP := r.(*ssa.Parameter); isP {
							// the initial value of the reassigned parameter; must be overwritten before the closure is made
							continue
						}
						bo, isB := r.(*ssa.BinOp)
						sfx, isC := "", false
						if isB && bo.Op == token.ADD {
							sfx, isC = ConstString(bo.Y)
						}
						if isC && strings.HasSuffix(sfx, "/") {
							// its store must dominate the creation of the dispatcher
							dom := false
							for _, u := range Refs(bo) {
								if st, isSt := u.(*ssa.Store); isSt {
									EachInstr(pr, func(i ssa.Instruction) {
										if mc, isM := i.(*ssa.MakeClosure); isM && mc.Fn == ssa.Value(disp) && Dominates(st, i) {
											dom = true
										}
									})
								}
							}
							if dom {
								slash++
							} else {
								other = "the slash-terminated prefix is not assigned on every path before the dispatcher is created"
							}
						} else {
							other = "the prefix may be " + PathOf(r)
						}
					}
					c.Check("C13.M", "dispatch:prefix-ends-with-slash", p, hpc[0].Pos(), slash == 1 && other == "", "the compared prefix is <cleaned shim path> + \"/\": only paths inside the shim directory match", "the prefix compared with r.URL.Path does not provably end in \"/\" ("+other+"): a backend path that merely starts with the same characters (shim path \"ws-shim\", request \"/ws-shim-static/site.css\") is routed to the shim's mux and answered 404/301 instead of reaching the backend")
				}
				c.Check("C13.M", "dispatch:shim-only-under-prefix", p, toShim.Pos(), guard, "the shim server is entered only when r.URL.Path has the cleaned shim prefix", "the shim server is entered without strings.HasPrefix(r.URL.Path, path.Clean(\"/\"+shimPath)+\"/\")")
				// and every path that does not take the shim branch calls wrapped
				hit, _ := (&Walk{Target: IsReturn, Avoid: func(i ssa.Instruction) bool { return i == toShim || i == toWrapped }}).FromBlock(disp.Blocks[0])
				ruleRequestUntouchedByDispatcher(c, p, "C13.M", disp)
				c.Check("C13.M", "dispatch:total", p, disp.Pos(), hit == nil, "every request is dispatched to the shim server or to the wrapped handler", "some path of the dispatcher answers neither through the shim server nor through the wrapped handler")
			} else {
				c.Unk("C13.M", "dispatch:shim-only-under-prefix", p, disp.Pos(), "no dispatch to the shim server found")
			}
		}
		// shimPath == "" returns wrapped itself
		okEmpty := false
		for _, r := range Returns(pr) {
			if PathOf(ReturnValue(r, 0)) == P(pr, 1) {
				okEmpty = true
			}
		}
		c.Check("C13.M", "proxy:no-shim-path-means-identity", p, pr.Pos(), okEmpty, "with an empty shim path Proxy returns the wrapped handler itself", "with an empty shim path Proxy does not return the wrapped handler unchanged")
	}
}

func firstOf(is []ssa.Instruction) ssa.Instruction {
	if len(is) > 0 {
		return is[0]
	}
	return nil
}

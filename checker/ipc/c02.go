package ipc

import (
	"fmt"
	"go/token"
	"go/types"
	"strings"

	"golang.org/x/tools/go/ssa"
)

func init() {
	register(&PropSpec{
		ID:    "C02",
		Progs: []string{"mod"},
		Explanation: "Byte identity of the request through Request.Write → ReadRequest → ReverseProxy is net/http behaviour on run-time values and is not decided. Decided: nothing in this repository's code on the request path alters the request beyond the allowed set and nothing non-transparent sits on the path: " +
			"(H) both hop-by-hop tables equal the RFC 7230 set (+Proxy-Connection) and the proxy's request-side deletion is guarded by the predicate on the same name; " +
			"(W) who-may-write: every mutation of an *http.Request (header Set/Add/Del/map store, AddCookie, stores to URL/Host/Method/Body/… fields and to fields of its URL) in the proxy's client path and in the agent's handler chain (agent.forwardRequest, agent/sessions, agent/banner, agent/websockets) is enumerated and compared with a frozen, reasoned table; the reverse proxy towards the backend is httputil.NewSingleHostReverseProxy of a URL literal with only Scheme and Host, with no Director/Rewrite/ErrorHandler override; " +
			"(I) the request object stored by the proxy is the client's own, it is serialised with Request.Write (not WriteProxy), the agent parses it through a reader private to that reply and serves that very object; " +
			"(T) no non-transparent stdlib handler (ServeMux, StripPrefix, TimeoutHandler, …) is built into the pass-through chain. " +
			"(M) no pooled buffers on the request path. " +
			"(X) no function that returns an *http.Response defers the cancel of a request context (the caller reads the body after the function returned). " +
			"(B) the pass-through path does not read, parse or replace the body; (R) the agent never reads the body of the request it forwards itself (a short Read is not end-of-body)." +
			" The live value slices of request header fields (Header.Values, h[k], range values) are not sorted, reversed or overwritten in place.",
		Assumptions: []string{
			"net/http Request.Write/ReadRequest and httputil.ReverseProxy (Director mode) preserve method, target, Host, end-to-end header values and body bytes",
		},
		Run: runC02,
	})
}

// requestMutation is one mutation site of an *http.Request.
type requestMutation struct {
	Fn    *ssa.Function
	Instr ssa.Instruction
	Kind  string // "Header.Set", "Header.Del", "field:URL", "url-field:Path", "AddCookie", …
	Key   string // constant header key, or "" (dynamic)
	KeyV  ssa.Value
}

func isRequestType(t types.Type) bool { return NamedType(t) == "net/http.Request" }

// reqHeaderOf: v is the Header field of an *http.Request.
func reqHeaderOf(v ssa.Value) bool {
	for _, r := range Roots(v) {
		base, f, ok := FieldLoad(r)
		if !ok || f != "Header" || !isRequestType(base.Type()) {
			return false
		}
	}
	return true
}

// reqHeaderValues: v is (a slice of) the live value slice of a field of a request's header:
// h.Values(k), h[k] or the value variable of a range over h.
func reqHeaderValues(v ssa.Value) bool {
	hit := false
	aliasBack(v, func(x ssa.Value) bool {
		switch y := x.(type) {
		case *ssa.Call:
			if CalleeName(y.Common()) == "(net/http.Header).Values" && reqHeaderOf(y.Call.Args[0]) {
				hit = true
			}
		case *ssa.Lookup:
			if NamedType(y.X.Type()) == "net/http.Header" && reqHeaderOf(y.X) {
				hit = true
			}
		case *ssa.Extract:
			if nx, isNext := y.Tuple.(*ssa.Next); isNext && y.Index == 2 {
				if rg, isRg := nx.Iter.(*ssa.Range); isRg && NamedType(rg.X.Type()) == "net/http.Header" && reqHeaderOf(rg.X) {
					hit = true
				}
			}
		}
		return !hit
	})
	return hit
}

func requestMutations(fn *ssa.Function) []requestMutation {
	var out []requestMutation
	// requests created in this function are the agent's own outgoing requests
	own := func(v ssa.Value) bool {
		for _, r := range Roots(ThroughClone(v)) {
			if CallResult(r, 0, "net/http.NewRequest", "net/http.NewRequestWithContext") == nil {
				return false
			}
		}
		return true
	}
	EachInstr(fn, func(i ssa.Instruction) {
		switch x := i.(type) {
		case *ssa.Call:
			n := CalleeName(x.Common())
			switch n {
			case "(net/http.Header).Set", "(net/http.Header).Add", "(net/http.Header).Del":
				h := PArgs(&x.Call)[0]
				if !reqHeaderOf(h) {
					return
				}
				base, _, _ := FieldLoad(Roots(h)[0])
				if own(base) {
					return
				}
				k, _ := ConstString(PArgs(&x.Call)[1])
				out = append(out, requestMutation{fn, i, "Header." + strings.TrimPrefix(n, "(net/http.Header)."), canonicalHeaderKey(k), PArgs(&x.Call)[1]})
			case "(*net/http.Request).AddCookie", "(*net/http.Request).SetBasicAuth", "(*net/http.Request).SetPathValue":
				if own(PArgs(&x.Call)[0]) {
					return
				}
				out = append(out, requestMutation{fn, i, strings.TrimPrefix(n, "(*net/http.Request)."), "", nil})
			case "sort.Strings", "sort.Slice", "sort.SliceStable", "sort.Sort", "sort.Stable", "slices.Sort", "slices.SortFunc", "slices.SortStableFunc", "slices.Reverse", "math/rand.Shuffle":
				// sorting (or otherwise permuting) the value slice of a header field in place:
				// Header.Values and header[k] hand out the live slice, not a copy
				if len(PArgs(&x.Call)) > 0 && reqHeaderValues(PArgs(&x.Call)[0]) {
					out = append(out, requestMutation{fn, i, "Header.values-in-place", "", nil})
				}
			default:
				if b, ok := x.Call.Value.(*ssa.Builtin); ok && (b.Name() == "delete" || b.Name() == "clear") && len(PArgs(&x.Call)) > 0 && reqHeaderOf(PArgs(&x.Call)[0]) {
					out = append(out, requestMutation{fn, i, "Header.delete", "", nil})
				}
				if b, ok := x.Call.Value.(*ssa.Builtin); ok && b.Name() == "copy" && len(PArgs(&x.Call)) > 0 && reqHeaderValues(PArgs(&x.Call)[0]) {
					out = append(out, requestMutation{fn, i, "Header.values-in-place", "", nil})
				}
			}
		case *ssa.MapUpdate:
			if reqHeaderOf(x.Map) {
				k, _ := ConstString(x.Key)
				out = append(out, requestMutation{fn, i, "Header.store", canonicalHeaderKey(k), x.Key})
			}
		case *ssa.Store:
			if ia, isIA := x.Addr.(*ssa.IndexAddr); isIA && reqHeaderValues(ia.X) {
				out = append(out, requestMutation{fn, i, "Header.values-in-place", "", nil})
				return
			}
			base, f, ok := FieldAddrOf(x.Addr)
			if !ok {
				return
			}
			if isRequestType(base.Type()) {
				if _, isAlloc := Roots(base)[0].(*ssa.Alloc); isAlloc {
					return // a request literal being built
				}
				if own(base) {
					return
				}
				// a nil header map replaced by an empty one (guard in front of Header.Set): the
				// request carries the same — no — fields before and after
				if f == "Header" {
					if _, isMk := x.Val.(*ssa.MakeMap); isMk {
						for _, g := range GuardingIfs(x) {
							if bo, isB := g.If.Cond.(*ssa.BinOp); isB && bo.Op == token.EQL && g.Succ == 0 {
								if b2, f2, ok2 := FieldLoad(bo.X); ok2 && f2 == "Header" && SameValue(b2, base) && IsNilConst(bo.Y) {
									return
								}
							}
						}
					}
				}
				out = append(out, requestMutation{fn, i, "field:" + f, "", x.Val})
				return
			}
			if NamedType(base.Type()) == "net/url.URL" {
				// a field of request.URL (through the pointer stored in the request)
				for _, r := range Roots(base) {
					if b2, f2, ok := FieldLoad(r); ok && f2 == "URL" && isRequestType(b2.Type()) && !own(b2) {
						out = append(out, requestMutation{fn, i, "url-field:" + f, "", x.Val})
					}
				}
			}
		}
	})
	return out
}

func runC02(c *Ctx) {
	p := c.Progs["mod"]
	c.Rule("C02.Y", "compatibility with the party that is not changed with this code: stored request entities stay loadable; the bridge keeps its frame codec (= C15.E)", 4)
	ruleStoredEntityLoadable(c, p, "C02.Y", "app/store.storedRequest", "app/store.blob")
	c.Borrow(runC15, "C15.E", "C02.Y", func(k string) bool {
		return strings.HasPrefix(k, "Write:") || strings.HasPrefix(k, "Read:") || strings.HasPrefix(k, "site:utils/tcpbridge/connection.(*WebsocketNetConn)")
	})
	c.Rule("C02.H", "hop-by-hop tables exact; request-side deletion guarded by the predicate on the same name", 2)
	c.Rule("C02.W", "who-may-write the forwarded request: every mutation site is in the frozen table; plain single-host reverse proxy; the replayed request has no peer address; the session handler re-adds the client's cookies as sent", 17)
	c.Rule("C02.I", "identity of the forwarded request object, private parse reader, reply body lifetime", 6)
	c.Rule("C02.T", "no non-transparent handler in the pass-through chain", 6)

	ruleHopTables(c, p, "C02.H")
	sv := c.need(p, "C02.H", "server.(*proxy).ServeHTTP")

	// ---- C02.W
	scope := []*ssa.Function{}
	if sv != nil {
		scope = append(scope, sv)
	}
	if f := c.need(p, "C02.W", "agent.forwardRequest"); f != nil {
		scope = append(scope, f)
	}
	for _, pk := range []string{"agent", "agent/sessions", "agent/banner", "agent/websockets"} {
		for _, fn := range p.FuncsIn(pk) {
			dup := false
			for _, s := range scope {
				if s == fn {
					dup = true
				}
			}
			if !dup {
				scope = append(scope, fn)
			}
		}
	}
	flagGuard := func(i ssa.Instruction, flag string) bool {
		for _, g := range GuardingIfs(i) {
			cond, trueSucc := BoolTest(g.If)
			if PathOf(cond) == "**global:"+flag && g.Succ == trueSucc {
				return true
			}
		}
		return false
	}
	nsites := 0
	for _, fn := range scope {
		for _, m := range requestMutations(fn) {
			nsites++
			fname := FuncName(fn)
			top := TopFunc(fn)
			key := fmt.Sprintf("%s:%s", FuncName(top), m.Kind)
			if m.Key != "" {
				key += "(" + m.Key + ")"
			}
			ok, why := false, ""
			switch {
			case fname == "server.(*proxy).ServeHTTP" && m.Kind == "Header.Del" && m.Key == "":
				ok = hopGuard(m.Instr, m.KeyV, true)
				why = "removal of a hop-by-hop request field (guarded by isHopByHopHeader on the same name)"
				if !ok {
					why = "a request header is deleted without the hop-by-hop test on that name: end-to-end fields are dropped"
				}
			case fname == "agent.forwardRequest" && (m.Kind == "Header.Set" || m.Kind == "Header.Add") && m.Key == canonicalHeaderKey(hdrUserID):
				ok = flagGuard(m.Instr, "forwardUserID")
				why = "asserted user identity, only under -forward-user-id (C09)"
			case fname == "agent.forwardRequest" && m.Kind == "Header.Del" && m.Key == canonicalHeaderKey(hdrUserID):
				ok = flagGuard(m.Instr, "forwardUserID")
				why = "removal of a client-supplied identity header before the asserted one is added, only under -forward-user-id (C09)"
			case fname == "agent.forwardRequest" && m.Kind == "Header.Del" && m.Key == "Authorization":
				ok = flagGuard(m.Instr, "stripCredentials")
				why = "credential stripping, only under -strip-credentials (C09)"
			case fname == "agent/sessions.(*sessionHandler).restoreSession" && m.Kind == "Header.Del" && m.Key == "Cookie":
				ok, why = true, "session tracking replaces the Cookie header (sessions enabled only; C10)"
			case fname == "agent/sessions.(*sessionHandler).restoreSession" && m.Kind == "AddCookie":
				ok, why = true, "session tracking re-adds the client's other cookies and the jar's cookies (C10)"
			case FuncName(top) == "agent/websockets.createShimChannel" && m.Kind == "field:URL":
				ok = CallResult(m.KeyV, 0, "net/url.Parse") != nil
				why = "shim open endpoint restores the target URL from the request body (shim path only; C13)"
			case FuncName(top) == "agent/websockets.createShimChannel" && m.Kind == "Header.Set" && m.Key == "Host":
				ok, why = true, "shim open endpoint, -rewrite-websocket-host (shim path only)"
			default:
				why = "this mutation of the forwarded request is not in the who-may-write table: the backend no longer receives the client's request unaltered"
			}
			if ok {
				c.OK("C02.W", key, p, m.Instr.Pos(), "allowed: "+why)
			} else {
				c.Bad("C02.W", key, p, m.Instr.Pos(), fmt.Sprintf("%s in %s: %s", m.Kind, fname, why))
			}
		}
	}
	if nsites < 7 {
		c.Bad("C02.W", "mutation-sites", p, 0, fmt.Sprintf("only %d request mutation sites found (7 confirmed by hand): the enumeration lost sight of the request path", nsites))
	}
	// the reverse proxy towards the backend
	if hp := c.need(p, "C02.W", "agent.hostProxy"); hp != nil {
		mk := c.UniqueCall("C02.W", p, hp, false, "net/http/httputil.NewSingleHostReverseProxy")
		if mk != nil {
			u := PArgs(CallOf(mk))[0]
			if a, ok := Roots(u)[0].(*ssa.Alloc); ok && NamedType(a.Type()) == "net/url.URL" {
				set := map[string]bool{}
				for _, r := range Refs(a) {
					if fa, ok := r.(*ssa.FieldAddr); ok {
						for _, uu := range Refs(fa) {
							if _, ok := uu.(*ssa.Store); ok {
								set[fieldName(fa.X.Type(), fa.Field)] = true
							}
						}
					}
				}
				bad := ""
				for f := range set {
					if f != "Scheme" && f != "Host" {
						bad += " " + f
					}
				}
				c.Check("C02.W", "hostProxy:target-url", p, a.Pos(), bad == "" && set["Host"], "target URL literal has only Scheme and Host: no path/query is joined onto the client's target", "the reverse-proxy target URL sets"+bad+": the request target is rewritten")
				if v, ok := LiteralField(a, "Host"); ok {
					c.PathIs("C02.W", "hostProxy:target-host", p, a.Pos(), v, "backend host is the configured host", P(hp, 1))
				}
			} else {
				c.Unk("C02.W", "hostProxy:target-url", p, mk.Pos(), "target URL is not a local literal")
			}
			allowed := map[string]string{"Transport": "transport choice", "FlushInterval": "streaming (C05)", "ModifyResponse": "response-side shim injection (C14)"}
			for _, fn := range WithClosures(hp) {
				EachInstr(fn, func(i ssa.Instruction) {
					st, ok := i.(*ssa.Store)
					if !ok {
						return
					}
					base, f, ok := FieldAddrOf(st.Addr)
					if !ok || NamedType(base.Type()) != "net/http/httputil.ReverseProxy" {
						return
					}
					_, okf := allowed[f]
					if f == "ErrorLog" && plainStdLogger(st.Val) {
						c.OK("C02.W", "hostProxy:ReverseProxy."+f, p, st.Pos(), "the proxy's error log is a plain logger over the process's standard streams: it does not touch requests")
						return
					}
					c.Check("C02.W", "hostProxy:ReverseProxy."+f, p, st.Pos(), okf, "allowed override: "+allowed[f], "ReverseProxy."+f+" is overridden: the outgoing request is no longer the one httputil's single-host director produces from the client's request (Rewrite mode, for instance, strips Forwarded/X-Forwarded-* fields the client sent)")
				})
			}
		}
		// no hand-built ReverseProxy literal
		if as := AllocsOf(hp, "net/http/httputil.ReverseProxy"); len(as) > 0 {
			c.Bad("C02.W", "hostProxy:ReverseProxy-literal", p, as[0].Pos(), "the backend-facing ReverseProxy is built by hand (literal) instead of httputil.NewSingleHostReverseProxy: its Director/Rewrite semantics differ (Host, X-Forwarded-*, query joining)")
		}
	}

	// ---- C02.B: nobody on the pass-through path consumes or re-parses the request body
	c.Rule("C02.B", "the forwarded request's body is not read, parsed or replaced on the pass-through path", 2)
	{
		consumers := []string{"(*net/http.Request).ParseForm", "(*net/http.Request).ParseMultipartForm", "(*net/http.Request).FormValue", "(*net/http.Request).PostFormValue", "(*net/http.Request).FormFile", "(*net/http.Request).MultipartReader",
			"net/http/httputil.DumpRequest", "net/http/httputil.DumpRequestOut", "(*net/http.Request).Write", "(*net/http.Request).WriteProxy", "(*net/http.Request).Clone"}
		bad := ""
		inspected := 0
		for _, fn := range scope {
			top := TopFunc(fn)
			isShimEndpoint := FuncName(top) == "agent/websockets.createShimChannel"
			EachInstr(fn, func(i ssa.Instruction) {
				cc := CallOf(i)
				if cc == nil {
					return
				}
				inspected++
				n := CalleeName(cc)
				// readers of <request>.Body
				for _, a := range Args(cc) {
					for _, r := range Roots(a) {
						if base, fld, ok := FieldLoad(r); ok && fld == "Body" && isRequestType(base.Type()) {
							if !isShimEndpoint {
								bad = n + " reads the request body at " + p.Pos(i.Pos())
							}
						}
					}
				}
				for _, cn := range consumers {
					if n == cn && !isShimEndpoint && len(Args(cc)) > 0 && isRequestType(Args(cc)[0].Type()) {
						bad = n + " at " + p.Pos(i.Pos())
					}
				}
			})
		}
		c.Check("C02.B", "request-path:body-untouched", p, 0, bad == "" && inspected > 100, fmt.Sprintf("%d call sites on the request path inspected: none reads, parses, dumps or re-serialises the forwarded request (the shim endpoints read their own control messages only)", inspected), "on the pass-through path "+bad+": the backend no longer receives the body the client sent (consumed/parsed before forwarding)")
	}

	// the stored client request (pendingRequest.req) is consumed by Request.Write only: nobody in the
	// stand-alone proxy peeks at, pre-reads or replaces its body (a reader left behind by a timed-out
	// peek swallows the first bytes of a slow upload)
	{
		bad := ""
		n := 0
		stored := func(v ssa.Value) bool {
			for _, r := range Roots(v) {
				if base, fld, ok := FieldLoad(r); ok && fld == "req" && NamedTypeRel(base.Type()) == "server.pendingRequest" {
					return true
				}
			}
			return false
		}
		for _, fn := range p.AllFuncsIn("server") {
			EachInstrRaw(fn, func(i ssa.Instruction) {
				switch x := i.(type) {
				case *ssa.UnOp:
					if base, fld, ok := FieldLoad(x); ok && isRequestType(base.Type()) {
						n++
						if (fld == "Body" || fld == "GetBody") && stored(base) {
							bad = "the body of the stored client request is taken at " + p.Pos(x.Pos())
						}
					}
				case *ssa.Store:
					if base, fld, ok := FieldAddrOf(x.Addr); ok && isRequestType(base.Type()) && stored(base) {
						switch fld {
						case "Body", "ContentLength", "TransferEncoding", "GetBody":
							bad = "field " + fld + " of the stored client request is replaced at " + p.Pos(x.Pos())
						}
					}
				}
			})
		}
		c.Check("C02.B", "proxy:stored-request-body-consumed-by-Write-only", p, 0, bad == "" && n > 0, fmt.Sprintf("%d field reads of requests in the stand-alone proxy: the stored client request's body is touched by Request.Write only", n), bad+": bytes read ahead of Request.Write (or by a reader abandoned after a timeout) never reach the agent, so the backend receives a body without its first bytes")
	}

	c.Rule("C02.R", "the agent does not read the request body it forwards", 1)
	ruleRequestBodyUnread(c, p, "C02.R")
	c.Rule("C02.X", "the context of a fetched request is not cancelled before its body was forwarded", 1)
	ruleNoDeferredCancelOnReturnedResponse(c, p, "C02.X", "agent/utils", "agent")
	c.Rule("C02.V", "each worker goroutine forwards the request of its own iteration (no loop variable shared between workers, = C01.M)", 1)
	ruleLoopSharedCapture(c, p, "C02.V", 1, "agent", "agent/utils", "server")
	c.Rule("C02.M", "request bytes live in call-owned buffers (no pooled memory on the request path)", 1)
	rulePooledMemory(c, p, "C02.M", "agent/utils", "server", "agent")

	// ---- C02.I
	if f := c.need(p, "C02.I", "server.newPendingRequest"); f != nil {
		as := AllocsOf(f, "server.pendingRequest")
		if len(as) == 1 {
			if v, ok := LiteralField(as[0], "req"); ok {
				c.PathIs("C02.I", "proxy:stores-client-request", p, as[0].Pos(), v, "the pending entry holds the client's own request object", P(f, 0))
			} else {
				c.Bad("C02.I", "proxy:stores-client-request", p, as[0].Pos(), "pendingRequest.req is not set")
			}
		} else {
			c.Unk("C02.I", "proxy:stores-client-request", p, f.Pos(), "expected one pendingRequest literal")
		}
	}
	if f := c.need(p, "C02.I", "server.(*proxy).handleAgentGetRequest"); f != nil {
		w := Calls(f, "(*net/http.Request).Write")
		wp := Calls(f, "(*net/http.Request).WriteProxy")
		c.Check("C02.I", "proxy:serialises-with-Write", p, f.Pos(), len(w) == 1 && len(wp) == 0, "the request is serialised with Request.Write (origin form, Host preserved)", fmt.Sprintf("the pending request is serialised with %d Write / %d WriteProxy calls: WriteProxy emits an absolute-form target", len(w), len(wp)))
		if len(w) == 1 {
			c.ArgIs("C02.I", "proxy:serialises-stored-request", p, w[0], 0, "the serialised object is the stored client request", P(f, 0)+".requests["+P(f, 3)+"].req")
		}
		if len(w) == 1 {
			// nothing else is written into the reply after the serialised request: Request.Write has
			// flushed the request line and header before it can fail, so an error text appended to the
			// same stream is parsed by the agent as (part of) the client's body
			wr := ParamAt(f, 1)
			hit, _ := (&Walk{Target: func(i ssa.Instruction) bool {
				if i == w[0] {
					return false
				}
				_, ok := producesResponse(i, wr)
				return ok
			}, Ctx: f}).FromInstr(w[0])
			c.Check("C02.I", "proxy:nothing-follows-the-serialised-request", p, w[0].Pos(), hit == nil, "the reply to the agent ends with the serialised request", "after pending.req.Write(w) the handler writes more into the same reply ("+posStr(p, hit)+"): when serialisation fails midway the error text follows the already-sent request line and header, and the agent forwards it to the backend as the client's body")
		}
	}
	if f := c.need(p, "C02.I", "agent/utils.parseRequestFromProxyResponse"); f != nil {
		if rr := c.UniqueCall("C02.I", p, f, false, "net/http.ReadRequest"); rr != nil {
			ok := false
			if call := CallResult(Args(CallOf(rr))[0], 0, "bufio.NewReader", "bufio.NewReaderSize"); call != nil {
				ok = PathOf(PArgs(&call.Call)[0]) == P(f, 2)+".Body"
			}
			c.Check("C02.I", "agent:private-parse-reader", p, rr.Pos(), ok, "the embedded request is parsed through a bufio.Reader created for this reply's body", "the reader given to http.ReadRequest ("+PathOf(Args(CallOf(rr))[0])+") is not a fresh bufio.NewReader(proxyResp.Body): the parsed request's body reads lazily through it, so a shared/pooled reader lets two in-flight requests take each other's body bytes")
		}
	}
	if f := c.need(p, "C02.I", "agent/utils.ReadRequest"); f != nil {
		// the fetched reply's body (which the parsed request's body reads from, lazily) must stay open until the callback has returned
		var cb ssa.Instruction
		EachInstr(f, func(i ssa.Instruction) {
			if cc := CallOf(i); cc != nil && !cc.IsInvoke() && PathOf(cc.Value) == P(f, 4) {
				cb = i
			}
		})
		okDefer := false
		early := ""
		EachInstr(f, func(i ssa.Instruction) {
			cc := CallOf(i)
			if cc == nil || !strings.HasSuffix(CalleeName(cc), ").Close") {
				return
			}
			if PathOf(Args(cc)[0]) != "result0:"+ModPath+"/agent/utils.getRequestWithRetries.Body" {
				return
			}
			if _, isDefer := i.(*ssa.Defer); isDefer {
				okDefer = true
			} else if cb != nil && !Dominates(cb, i) {
				early = p.Pos(i.Pos())
			}
		})
		// helpers between fetch and callback must not close the reply body they are handed
		for _, fn := range p.FuncsIn("agent/utils") {
			if fn == f || ShortName(fn) == "getRequestWithRetries" {
				continue
			}
			for _, i := range Calls(fn, "(io.Closer).Close", "(io.ReadCloser).Close") {
				a := Args(CallOf(i))[0]
				for k, pr := range fn.Params {
					if NamedType(pr.Type()) == "net/http.Response" && PathOf(a) == P(fn, k)+".Body" {
						// is this helper on the fetch path? (called from ReadRequest)
						if len(Calls(f, FuncFullName(fn))) > 0 {
							early = p.Pos(i.Pos()) + " (in " + fn.Name() + ")"
						}
					}
				}
			}
		}
		c.Check("C02.I", "agent:fetched-reply-open-until-forwarded", p, f.Pos(), cb != nil && okDefer && early == "", "ReadRequest defers proxyResp.Body.Close() itself, so the reply body (from which the forwarded request's body is streamed lazily) stays open until the callback has returned", "the body of the fetched reply is closed before the callback has forwarded the request (Close at "+early+", deferred in ReadRequest: "+fmt.Sprint(okDefer)+"): the embedded request's body is streamed lazily from that reply, so bodies beyond the 4 KiB parse buffer are truncated")
	}
	if f := c.need(p, "C02.I", "agent.forwardRequest"); f != nil {
		if s := c.UniqueCall("C02.I", p, f, false, "(net/http.Handler).ServeHTTP"); s != nil {
			c.ArgIs("C02.I", "agent:serves-parsed-request", p, s, 2, "the handler chain receives the parsed request object itself", P(f, 2)+".Contents")
		}
	}

	ruleReplayedRequestHasNoPeer(c, p, "C02.W")
	// with session tracking on, the client's own cookies are re-added as the client sent them
	// (= C10.R): a de-duplication that keeps the jar's copy of a cookie replaces a value the
	// client sent by one the backend set earlier
	c.Borrow(runC10, "C10.R", "C02.W", func(k string) bool { return strings.HasPrefix(k, "restore:") })

	// ---- C02.T
	ruleTransparentChain(c, p, "C02.T")
	// the shim dispatch: mux only behind the prefix test
	if f := p.Func("agent/websockets.Proxy"); f != nil {
		n := 0
		for _, fn := range Closures(f) {
			for _, call := range Calls(fn, "(net/http.Handler).ServeHTTP") {
				a := Args(CallOf(call))
				if rs := Roots(a[0]); len(rs) != 1 || CallResult(rs[0], 0, ModPath+"/agent/websockets.createShimChannel") == nil {
					continue
				}
				n++
				guard := false
				for _, g := range GuardingIfs(call) {
					cond, trueSucc := BoolTest(g.If)
					if hp := CallResult(cond, 0, "strings.HasPrefix"); hp != nil && g.Succ == trueSucc {
						if PathOf(PArgs(&hp.Call)[0]) == P(fn, 1)+".URL.Path" {
							guard = true
						}
					}
				}
				c.Check("C02.T", "shim-dispatch:mux-only-under-prefix", p, call.Pos(), guard, "the shim's mux is only entered when the request path has the shim prefix", "the shim server (a ServeMux) is entered without the strings.HasPrefix(r.URL.Path, shimPath) test: non-shim requests pass through a mux")
			}
		}
		if n == 0 {
			c.Unk("C02.T", "shim-dispatch:mux-only-under-prefix", p, f.Pos(), "no dispatch to the shim server found in websockets.Proxy")
		}
	}
}

// ruleTransparentChain: no non-transparent stdlib handler is built into the
// agent's pass-through chain (ServeMux redirects unclean paths, StripPrefix
// rewrites them, TimeoutHandler buffers the whole response, …).
func ruleTransparentChain(c *Ctx, p *Prog, rule string) {
	nonTransparent := []string{"net/http.NewServeMux", "net/http.StripPrefix", "net/http.TimeoutHandler", "net/http.MaxBytesHandler", "net/http.RedirectHandler", "net/http.FileServer", "net/http.AllowQuerySemicolons"}
	for _, name := range []string{"agent.hostProxy", "agent/websockets.Proxy", "agent/banner.Proxy", "agent/sessions.(*Cache).SessionHandler"} {
		f := c.need(p, rule, name)
		if f == nil {
			continue
		}
		bad := ""
		for _, fn := range WithClosures(f) {
			for _, call := range Calls(fn, nonTransparent...) {
				bad = CalleeName(CallOf(call)) + " at " + p.Pos(call.Pos())
			}
		}
		c.Check(rule, name+":transparent", p, f.Pos(), bad == "", "no ServeMux/StripPrefix/TimeoutHandler/… on the pass-through route built here", "the pass-through chain built in "+name+" contains "+bad+": http.ServeMux answers 301 itself for any path that is not clean (/a//b, /a/../b) and strips ports for matching; http.TimeoutHandler buffers the whole response until the handler returns; the request/response no longer passes as sent")
	}
	// the stand-alone proxy: whatever its start-up code wraps around the proxy handler sees
	// every client request before it is stored (http.AllowQuerySemicolons rewrites ';' in the
	// query of the request it passes on; a mux cleans paths)
	if m := c.need(p, rule, "server.main"); m != nil {
		bad := ""
		for _, fn := range p.AllFuncsIn("server") {
			for _, call := range Calls(fn, nonTransparent...) {
				bad = CalleeName(CallOf(call)) + " at " + p.Pos(call.Pos())
			}
		}
		c.Check(rule, "server.main:transparent", p, m.Pos(), bad == "", "nothing in the stand-alone proxy wraps its handler in a ServeMux/StripPrefix/AllowQuerySemicolons/…", "the stand-alone proxy's start-up code uses "+bad+": the request that is stored for the agent is no longer the one the client sent (rewritten query, cleaned path, buffered response)")
	}
}

// aliasBack visits the values whose backing array v may share: sub-slices, phis, type
// changes, the destination (first argument) of append — not its appended elements, which
// are copied — and the arguments/results of new helpers.
func aliasBack(v ssa.Value, visit func(ssa.Value) bool) {
	seen := map[ssa.Value]bool{}
	var walk func(v ssa.Value, d int) bool
	walk = func(v ssa.Value, d int) bool {
		if v == nil || seen[v] || d > 12 {
			return true
		}
		seen[v] = true
		if !visit(v) {
			return false
		}
		switch x := v.(type) {
		case *ssa.Slice:
			return walk(x.X, d+1)
		case *ssa.ChangeType:
			return walk(x.X, d+1)
		case *ssa.MakeInterface:
			return walk(x.X, d+1)
		case *ssa.TypeAssert:
			return walk(x.X, d+1)
		case *ssa.Phi:
			for _, e := range x.Edges {
				if !walk(e, d+1) {
					return false
				}
			}
		case *ssa.UnOp:
			if x.Op == token.MUL {
				if cell, ok := x.X.(*ssa.Alloc); ok {
					for _, st := range storesTo(cell) {
						if !walk(st, d+1) {
							return false
						}
					}
				}
			}
		case *ssa.Parameter:
			for _, a := range helperParamArgs(x) {
				if !walk(a, d+1) {
					return false
				}
			}
		case *ssa.Call:
			if b, ok := x.Call.Value.(*ssa.Builtin); ok && b.Name() == "append" && len(x.Call.Args) > 0 {
				return walk(x.Call.Args[0], d+1)
			}
			if h, ok := calleeFn(x.Call.Value); ok && IsNewHelper(h) {
				for _, r := range helperResults(x, 0) {
					if !walk(r, d+1) {
						return false
					}
				}
			}
		case *ssa.Extract:
			// the value variable of a range over a header, or a comma-ok lookup
			return true
		}
		return true
	}
	walk(v, 0)
}

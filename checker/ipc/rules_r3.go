package ipc

// Rules added after the third round of independently seeded changes.

import (
	"fmt"
	"go/constant"
	"go/token"
	"go/types"
	"math/big"
	"strings"

	"golang.org/x/tools/go/ssa"
)

// ruleForgetSites (C12.U): every connections.Delete in the shim, including
// those in nested callbacks, belongs to the close endpoint or the poll endpoint.
func ruleForgetSites(c *Ctx, p *Prog, rule string, se *shimEndpoints) {
	n := 0
	seen := map[ssa.Instruction]bool{}
	for _, fn := range WithClosures(se.Create) {
		EachInstr(fn, func(i ssa.Instruction) {
			if !IsCall(i, "(*sync.Map).Delete", "(*sync.Map).LoadAndDelete", "(*sync.Map).CompareAndDelete") || seen[i] {
				return
			}
			seen[i] = true
			n++
			owner := Owner(i)
			ok := owner == se.ByName["close"] || owner == se.ByName["poll"]
			if isBoundWrapper(owner) {
				ok = false
			}
			for _, nm := range []string{"close", "poll"} {
				if ep := se.ByName[nm]; ep != nil && (owner == ep || inSplicedBody(ep, i)) {
					ok = true
				}
			}
			if openRollback(se, i) {
				ok = true
			}
			// a shared helper (releaseSession) is judged by all the endpoints that run it
			for nm, ep := range se.all() {
				if nm == "close" || nm == "poll" || ep == nil {
					continue
				}
				if (owner == ep || inSplicedBody(ep, i)) && !(nm == "open-inner" && openRollback(se, i)) {
					ok = false
				}
			}
			c.Check(rule, fmt.Sprintf("forget-site#%d:in-close-or-poll", n), p, i.Pos(), ok, "the session is forgotten by the close endpoint or by the poll endpoint itself", "a session is deleted from the table in "+FuncName(fn)+" (a callback / another endpoint): e.g. an error callback that forgets the session when the backend closes makes the next poll answer 'unknown session' instead of delivering the messages already received")
		})
	}
	if n == 0 {
		c.Unk(rule, "forget-sites", p, se.Create.Pos(), "no connections.Delete found in the shim")
	}
}

// openRollback: a Delete in the open handler that takes back the session this very call
// stored, on a path that ends in an error answer: the session ID was never disclosed to
// the client, so no later call can name it.
func openRollback(se *shimEndpoints, del ssa.Instruction) bool {
	in := se.Inner
	if in == nil || Owner(del) != in || len(in.Params) == 0 {
		return false
	}
	st := Calls(in, "(*sync.Map).Store")
	if len(st) != 1 || !Dominates(st[0], del) || !SameValue(Args(CallOf(st[0]))[1], Args(CallOf(del))[1]) {
		return false
	}
	w := ssa.Value(ParamAt(in, 0))
	isErr := func(i ssa.Instruction) bool { s, ok := producesResponse(i, w); return ok && s >= 400 }
	isOK := func(i ssa.Instruction) bool { s, ok := producesResponse(i, w); return ok && s < 400 }
	if hit, _ := (&Walk{Target: func(i ssa.Instruction) bool { return IsReturn(i) || isOK(i) }, Avoid: isErr}).FromInstr(del); hit != nil {
		return false
	}
	return true
}

// ruleParamOnlyPassedTo: parameter idx of fn is only passed on, as argument
// argIdx, to callee (and otherwise unused): it is not stored, captured or
// given to anything else.
func ruleParamOnlyPassedTo(c *Ctx, p *Prog, rule, key string, fn *ssa.Function, idx int, callee string, argIdx int, good, bad string) {
	if fn == nil || idx >= len(fn.Params) {
		c.Unk(rule, key, p, 0, "function or parameter not found")
		return
	}
	prm := fn.Params[idx]
	why := ""
	uses := 0
	for _, r := range Refs(prm) {
		switch x := r.(type) {
		case *ssa.DebugRef:
		case *ssa.Call:
			a := Args(x.Common())
			if CalleeName(x.Common()) == callee && argIdx < len(a) && a[argIdx] == ssa.Value(prm) {
				uses++
				continue
			}
			why = "passed to " + CalleeName(x.Common()) + " at " + p.Pos(x.Pos())
		default:
			why = fmt.Sprintf("used by %T at %s (stored in a struct, captured by a closure or handed on)", r, p.Pos(r.Pos()))
		}
	}
	c.Check(rule, key, p, fn.Pos(), why == "" && uses == 1, good, bad+" ("+why+")")
}

// ruleNoGetBody (C06.A): the upload request is not replayable by net/http on
// its own: GetBody is never set and the body handed to NewRequest is not one
// of the types for which NewRequest sets it.
func ruleNoGetBody(c *Ctx, p *Prog, rule string) {
	sts := StoresToField(p.FuncsIn("agent/utils"), "net/http.Request", "GetBody")
	bad := ""
	if len(sts) > 0 {
		bad = "Request.GetBody is set at " + p.Pos(sts[0].Pos())
	}
	if f := p.Func("agent/utils.postResponseWithRetries"); f != nil {
		for _, nr := range Calls(f, "net/http.NewRequest", "net/http.NewRequestWithContext") {
			a := PArgs(CallOf(nr))
			body := a[len(a)-1]
			if mi, ok := body.(*ssa.MakeInterface); ok {
				switch NamedType(mi.X.Type()) {
				case "bytes.Buffer", "bytes.Reader", "strings.Reader":
					bad = "the upload body is a " + NamedType(mi.X.Type()) + ": http.NewRequest sets GetBody for it"
				}
			}
		}
	}
	c.Check(rule, "upload:not-replayable-by-net/http", p, 0, bad == "", "the upload request has no GetBody: http.Client and the transport never re-send it on their own (307/308 redirects are returned to the retry loop, a dead keep-alive connection is an error)", bad+": http.Client then follows up to 10 redirects and the transport replays on stale connections inside a single client.Do — the three-attempt bound of the retry loop no longer bounds the number of uploads")
}

// ruleDecodedPointersChecked (C07.N): elements of a slice of pointers filled
// by encoding/json (a JSON null yields a nil pointer) are nil-checked before
// they are dereferenced.
func ruleDecodedPointersChecked(c *Ctx, p *Prog, rule string, pkgs ...string) {
	n := 0
	for _, pk := range pkgs {
		for _, fn := range p.AllFuncsIn(pk) {
			EachInstrRaw(fn, func(i ssa.Instruction) {
				if !IsCall(i, "encoding/json.Unmarshal", "(*encoding/json.Decoder).Decode") {
					return
				}
				n++
				a := Args(CallOf(i))
				tgt := a[len(a)-1]
				if mi, ok := tgt.(*ssa.MakeInterface); ok {
					tgt = mi.X
				}
				pt, ok := tgt.Type().Underlying().(*types.Pointer)
				if !ok {
					return
				}
				elemPtr := false
				switch u := pt.Elem().Underlying().(type) {
				case *types.Slice:
					_, elemPtr = u.Elem().Underlying().(*types.Pointer)
				case *types.Array:
					_, elemPtr = u.Elem().Underlying().(*types.Pointer)
				case *types.Map:
					_, elemPtr = u.Elem().Underlying().(*types.Pointer)
				}
				if !elemPtr {
					c.OK(rule, fmt.Sprintf("json-target:%s#%d", FuncName(fn), n), p, i.Pos(), "the decode target holds values, not pointers: a JSON null cannot produce a nil element")
					return
				}
				// every dereference of an element in this function must be nil-guarded
				bad := ""
				EachInstr(fn, func(j ssa.Instruction) {
					var base ssa.Value
					switch x := j.(type) {
					case *ssa.FieldAddr:
						base = x.X
					case *ssa.UnOp:
						return
					default:
						return
					}
					if _, isPtr := base.Type().Underlying().(*types.Pointer); !isPtr {
						return
					}
					fromElem := false
					for _, r := range Roots(base) {
						if u, ok := r.(*ssa.UnOp); ok {
							if ia, ok := u.X.(*ssa.IndexAddr); ok {
								for _, rr := range Roots(ia.X) {
									if uu, ok := rr.(*ssa.UnOp); ok && uu.X == tgt {
										fromElem = true
									}
								}
							}
						}
					}
					if !fromElem {
						return
					}
					guarded := false
					for _, g := range GuardConds(j) {
						if bo, ok := g.Cond.(*ssa.BinOp); ok {
							if (IsNilConst(bo.Y) && SameValue(bo.X, base)) || (IsNilConst(bo.X) && SameValue(bo.Y, base)) {
								guarded = true
							}
						}
					}
					if !guarded {
						bad = p.Pos(j.Pos())
					}
				})
				c.Check(rule, fmt.Sprintf("json-target:%s#%d", FuncName(fn), n), p, i.Pos(), bad == "", "elements decoded as pointers are nil-checked before use", "the decode target in "+FuncName(fn)+" is a collection of pointers and an element is dereferenced without a nil test at "+bad+": a JSON `null` element makes the handler panic, and a panic on the worker goroutine (no http.Server recovers it) terminates the whole agent")
			})
		}
	}
	if n == 0 {
		c.Unk(rule, "json-targets", p, 0, "no JSON decode site found in "+strings.Join(pkgs, ","))
	}
}

// ruleNoCloseUnderOtherSenders (C07.C): a channel made in a function of the
// given packages is not closed by one goroutine while another goroutine can
// still send on it (send on closed channel panics; nothing recovers it).
func ruleNoCloseUnderOtherSenders(c *Ctx, p *Prog, rule string, pkgs ...string) {
	n := 0
	for _, pk := range pkgs {
		for _, fn := range p.FuncsIn(pk) {
			if fn.Parent() != nil {
				continue
			}
			var chans []*ssa.MakeChan
			seenMk := map[*ssa.MakeChan]bool{}
			for _, f := range WithClosures(fn) {
				EachInstr(f, func(i ssa.Instruction) {
					if mc, ok := i.(*ssa.MakeChan); ok && !seenMk[mc] {
						seenMk[mc] = true
						chans = append(chans, mc)
					}
				})
			}
			for _, mc := range chans {
				var senders, closers []ssa.Instruction
				for _, f := range WithClosures(fn) {
					for _, op := range ChanOpsOf(f) {
						is := false
						for _, r := range Roots(op.Chan) {
							if r == ssa.Value(mc) {
								is = true
							}
						}
						if !is || op.Instr.Parent() != f {
							continue
						}
						switch op.Kind {
						case "send":
							senders = append(senders, op.Instr)
						case "close":
							closers = append(closers, op.Instr)
						}
					}
				}
				if len(closers) == 0 {
					continue
				}
				n++
				bad := ""
				for _, cl := range closers {
					waits := len(Calls(Owner(cl), "(*sync.WaitGroup).Wait")) > 0
					for _, s := range senders {
						// a send in a closure that the closing goroutine defers after it deferred
						// the close runs on that goroutine before the close (LIFO)
						if so := Owner(s); so != Owner(cl) && so.Parent() == Owner(cl) {
							if _, clDeferred := cl.(*ssa.Defer); clDeferred {
								var dsite *ssa.Defer
								uses := 0
								EachInstrRaw(Owner(cl), func(i ssa.Instruction) {
									if mk, isMk := i.(*ssa.MakeClosure); isMk && mk.Fn == ssa.Value(so) {
										for _, u := range Refs(mk) {
											uses++
											if d, isD := u.(*ssa.Defer); isD && d.Call.Value == ssa.Value(mk) {
												dsite = d
											}
										}
									}
								})
								if dsite != nil && uses == 1 && Dominates(cl, dsite) {
									continue
								}
							}
						}
						if Owner(s) != Owner(cl) && !waits {
							bad = "closed in " + FuncName(Owner(cl)) + " (" + p.Pos(cl.Pos()) + ") while " + FuncName(Owner(s)) + " sends on it (" + p.Pos(s.Pos()) + ")"
						}
					}
				}
				c.Check(rule, fmt.Sprintf("chan@%s:closed-by-its-only-sender", p.Pos(mc.Pos())), p, mc.Pos(), bad == "", "the channel is closed by the goroutine that is its only sender (or after a WaitGroup.Wait for the senders)", "channel made at "+p.Pos(mc.Pos())+" is "+bad+": a late send panics with 'send on closed channel' on a goroutine nobody recovers, which terminates the agent and every request in flight")
			}
		}
	}
	if n == 0 {
		c.Unk(rule, "closed-channels", p, 0, "no closed channel found in "+strings.Join(pkgs, ","))
	}
}

// ruleClosedCheckedBeforeEnqueue (C12.U): SendClientMessage tests the closed
// state with a non-blocking receive before (dominating) the select that
// enqueues the message — a single select over {enqueue, closed} picks a ready
// case at random and accepts messages for closed sessions.
func ruleClosedCheckedBeforeEnqueue(c *Ctx, p *Prog, rule string) {
	f := c.need(p, rule, "agent/websockets.(*Connection).SendClientMessage")
	if f == nil {
		return
	}
	ops := ChanOpsOf(f)
	var send *ChanOp
	for k := range ops {
		if ops[k].Kind == "send" {
			if _, fld, ok := FieldLoad(Roots(ops[k].Chan)[0]); ok && fld == "clientMessages" {
				send = &ops[k]
			}
		}
	}
	if send == nil {
		c.Unk(rule, "data:closed-checked-before-enqueue", p, f.Pos(), "no send on clientMessages found in SendClientMessage")
		return
	}
	ok := false
	for _, op := range ops {
		if op.Kind != "recv" || !op.InSelect || !op.HasDefault || op.Select == send.Select {
			continue
		}
		isClosed := isDoneChan(op.Chan)
		if _, fld, okf := FieldLoad(Roots(op.Chan)[0]); okf && fld == "closed" {
			isClosed = true
		}
		if isClosed && Dominates(op.Instr, send.Instr) {
			ok = true
		}
	}
	c.Check(rule, "data:closed-checked-before-enqueue", p, send.Instr.Pos(), ok, "a non-blocking test of the closed/done state dominates the enqueueing select: a message for a closed connection is always refused", "SendClientMessage does not test the closed state (non-blocking receive on closed/done) before the select that enqueues the message: with both cases ready Go picks one at random, so a data call on a closed session is answered 200 about half the time and its message is dropped into a queue nobody reads")
}

// ruleRequestUntouchedByDispatcher (C13.M): the shim dispatcher writes nothing
// through the request it passes on (no store through r.URL or other pointers
// reachable from r).
func ruleRequestUntouchedByDispatcher(c *Ctx, p *Prog, rule string, disp *ssa.Function) {
	bad := ""
	rp := P(disp, 1)
	EachInstr(disp, func(i ssa.Instruction) {
		st, ok := i.(*ssa.Store)
		if !ok {
			return
		}
		var base ssa.Value
		switch a := st.Addr.(type) {
		case *ssa.FieldAddr:
			base = a.X
		case *ssa.IndexAddr:
			base = a.X
		default:
			return
		}
		pth := PathOf(base)
		if pth == rp || strings.HasPrefix(pth, rp+".") || strings.HasPrefix(pth, "*"+rp+".") || strings.HasPrefix(pth, "&"+rp+".") {
			bad = "store through " + pth + " at " + p.Pos(st.Pos())
		}
	})
	for _, call := range Calls(disp, "(net/http.Header).Set", "(net/http.Header).Add", "(net/http.Header).Del") {
		if pth := PathOf(Args(CallOf(call))[0]); strings.HasPrefix(pth, rp+".") {
			bad = "header mutation on " + pth + " at " + p.Pos(call.Pos())
		}
	}
	c.Check(rule, "dispatch:request-untouched", p, disp.Pos(), bad == "", "the dispatcher stores nothing through the request it hands on (URL, header, fields)", "the shim dispatcher modifies the request before routing it ("+bad+"): `u := r.URL` copies the pointer, so cleaning u.Path rewrites the live request — non-shim requests reach the backend with a different path and unclean paths outside the prefix are captured by the shim")
}

// ruleSingleWebsocketWriter (C15.P): on bridge connections data frames are
// written only by WebsocketNetConn.Write (gorilla allows one concurrent
// writer; only WriteControl may be used from another goroutine).
func ruleSingleWebsocketWriter(c *Ctx, p *Prog, rule string) {
	writers := []string{"(*github.com/gorilla/websocket.Conn).WriteMessage", "(*github.com/gorilla/websocket.Conn).WriteJSON", "(*github.com/gorilla/websocket.Conn).NextWriter", "(*github.com/gorilla/websocket.Conn).WritePreparedMessage"}
	n := 0
	bad := ""
	for _, pk := range []string{"utils/tcpbridge/connection", "utils/tcpbridge/tcp-bridge-frontend", "utils/tcpbridge/tcp-bridge-backend"} {
		for _, fn := range p.AllFuncsIn(pk) {
			EachInstrRaw(fn, func(i ssa.Instruction) {
				if IsCall(i, writers...) {
					n++
					if FuncName(Owner(i)) != "utils/tcpbridge/connection.(*WebsocketNetConn).Write" {
						bad = FuncName(fn) + " at " + p.Pos(i.Pos())
					}
				}
			})
		}
	}
	c.Check(rule, "websocket:single-writer", p, 0, n >= 1 && bad == "", "WriteMessage is only called from WebsocketNetConn.Write, i.e. from the one io.Copy goroutine that writes to that connection", "a websocket data/ping frame is written outside WebsocketNetConn.Write ("+bad+"): gorilla/websocket allows one concurrent writer (only WriteControl is safe from another goroutine), so a keep-alive or side write during a data write corrupts the frame stream or panics with 'concurrent write to websocket connection', killing the bridge process")
}

// ruleDialContextNotRetained (C15/C16): DialWebsocket uses its context for
// the dial only: no goroutine, no wait on ctx.Done().
func ruleDialContextNotRetained(c *Ctx, p *Prog, rule string) {
	f := c.need(p, rule, "utils/tcpbridge/connection.DialWebsocket")
	if f == nil {
		return
	}
	bad := ""
	for _, fn := range WithClosures(f) {
		EachInstrRaw(fn, func(i ssa.Instruction) {
			if _, isGo := i.(*ssa.Go); isGo {
				bad = "starts a goroutine at " + p.Pos(i.Pos())
			}
			if cc := CallOf(i); cc != nil && cc.IsInvoke() && cc.Method.Name() == "Done" && NamedType(cc.Value.Type()) == "context.Context" {
				bad = "waits on ctx.Done() at " + p.Pos(i.Pos())
			}
		})
	}
	c.Check(rule, "dial:context-only-for-dialling", p, f.Pos(), bad == "", "DialWebsocket hands its context to the dialer only: the established connection does not depend on it", "DialWebsocket keeps using its context after the dial ("+bad+"): a dial timeout/cancel of the caller then closes the established tunnel under both copy directions, and in-flight bytes are lost")
}

// ruleNoRawDescriptor (C16.A): no File()/Fd()/SyscallConn on bridge sockets.
func ruleNoRawDescriptor(c *Ctx, p *Prog, rule string) {
	n := 0
	var hits []ssa.Instruction
	for _, pk := range []string{"utils/tcpbridge/connection", "utils/tcpbridge/tcp-bridge-frontend", "utils/tcpbridge/tcp-bridge-backend"} {
		for _, fn := range p.AllFuncsIn(pk) {
			EachInstrRaw(fn, func(i ssa.Instruction) {
				cc := CallOf(i)
				if cc == nil {
					return
				}
				n++
				name := CalleeName(cc)
				if strings.HasSuffix(name, "net.TCPConn).File") || name == "(*os.File).Fd" || strings.HasSuffix(name, ").SyscallConn") || strings.HasPrefix(name, "syscall.Setsockopt") {
					hits = append(hits, i)
				}
			})
		}
	}
	c.Check(rule, "close:no-raw-descriptor-access", p, posOf(hits), len(hits) == 0 && n > 30, "bridge sockets are only used through net.Conn: Close() from another goroutine always unblocks a pending Read", "a bridge socket's descriptor is taken out with File()/Fd()/SyscallConn at "+posStr(p, firstOf(hits))+": (*os.File).Fd switches the shared file description to blocking mode, after which Close() waits for an in-flight Read instead of interrupting it — closeBoth() hangs and the other peer never sees end-of-stream")
}

// ruleAcquiredThenDeferred (C16.D): after a connection was acquired, no path
// to a return skips its deferred Close, except the acquisition's own error branch.
func ruleAcquiredThenDeferred(c *Ctx, p *Prog, rule string, fn *ssa.Function, acq ssa.Instruction, isRelease func(ssa.Instruction) bool, key string) {
	// the error branch of the acquisition
	var errIf *ssa.If
	errSucc := 0
	if v, ok := acq.(ssa.Value); ok {
		for _, r := range Refs(v) {
			if e, ok := r.(*ssa.Extract); ok {
				for _, u := range Refs(e) {
					if bo, ok := u.(*ssa.BinOp); ok {
						for _, uu := range Refs(bo) {
							if ifi, ok := uu.(*ssa.If); ok {
								if _, s, ok := ErrNilTest(ifi); ok {
									errIf, errSucc = ifi, s
								}
							}
						}
					}
				}
			}
		}
	}
	if errIf == nil {
		c.Unk(rule, key, p, acq.Pos(), "the acquisition's error is not tested")
		return
	}
	okBlk := errIf.Block().Succs[1-errSucc]
	hit, path := (&Walk{Target: IsReturn, Avoid: isRelease}).FromBlock(okBlk)
	c.Check(rule, key, p, acq.Pos(), hit == nil, "once the connection was obtained every path to a return passes its deferred Close", "after the connection was obtained a path returns without its Close having been deferred ("+PathString(p, path)+"): e.g. the backend is dialled first and a failing websocket upgrade returns before `defer backendConn.Close()` — the backend connection outlives both endpoints")
}

// keyShape symbolically expands a string value built by fmt.Sprintf, possibly
// through module helper functions (parameters are substituted by the call's
// arguments, context-sensitively): it returns the effective format (constant
// %s arguments substituted) and the values rendered by the remaining verbs.
func keyShape(p *Prog, v ssa.Value, env map[*ssa.Parameter]ssa.Value, depth int) (format string, verbs []string, args []ssa.Value, ok bool) {
	subst := func(a ssa.Value) ssa.Value {
		for k := 0; k < 8; k++ {
			switch x := a.(type) {
			case *ssa.MakeInterface:
				a = x.X
				continue
			case *ssa.ChangeType:
				a = x.X
				continue
			case *ssa.Parameter:
				if r, has := env[x]; has {
					a = r
					continue
				}
			}
			break
		}
		return a
	}
	if depth > 4 {
		return "", nil, nil, false
	}
	v = subst(v)
	// string concatenation: the shapes of both sides, one after the other
	if bo, isBO := v.(*ssa.BinOp); isBO && bo.Op == token.ADD {
		f1, v1, a1, ok1 := keyShape(p, bo.X, env, depth+1)
		f2, v2, a2, ok2 := keyShape(p, bo.Y, env, depth+1)
		if !ok1 || !ok2 {
			return "", nil, nil, false
		}
		return f1 + f2, append(v1, v2...), append(a1, a2...), true
	}
	if s, isConst := ConstString(v); isConst {
		return strings.ReplaceAll(s, "%", "%%"), nil, nil, true
	}
	call, isCall := v.(*ssa.Call)
	if !isCall {
		// a plain string value spliced in as it is
		if b, isB := v.Type().Underlying().(*types.Basic); isB && b.Info()&types.IsString != 0 && depth > 0 {
			return "%s", []string{"s"}, []ssa.Value{v}, true
		}
		return "", nil, nil, false
	}
	if CalleeName(call.Common()) == "strconv.Quote" {
		return "%q", []string{"q"}, []ssa.Value{subst(PArgs(&call.Call)[0])}, true
	}
	if CalleeName(call.Common()) == "fmt.Sprintf" {
		f, isC := ConstString(PArgs(&call.Call)[0])
		if !isC {
			return "", nil, nil, false
		}
		// variadic arguments in index order
		var vals []ssa.Value
		if len(PArgs(&call.Call)) > 1 {
			if sl, isS := PArgs(&call.Call)[1].(*ssa.Slice); isS {
				if arr, isA := sl.X.(*ssa.Alloc); isA {
					byIdx := map[int64]ssa.Value{}
					for _, r := range Refs(arr) {
						if ia, isI := r.(*ssa.IndexAddr); isI {
							idx, _ := ConstInt(ia.Index)
							for _, u := range Refs(ia) {
								if st, isSt := u.(*ssa.Store); isSt {
									byIdx[idx] = st.Val
								}
							}
						}
					}
					for k := int64(0); k < int64(len(byIdx)); k++ {
						vals = append(vals, subst(byIdx[k]))
					}
				}
			}
		}
		// walk the verbs
		out := ""
		ai := 0
		for i := 0; i < len(f); i++ {
			if f[i] != '%' || i+1 >= len(f) {
				out += string(f[i])
				continue
			}
			vb := f[i+1]
			i++
			if vb == '%' {
				out += "%"
				continue
			}
			if ai >= len(vals) {
				return "", nil, nil, false
			}
			a := vals[ai]
			ai++
			if s, isConst := ConstString(a); isConst && (vb == 's' || vb == 'v') {
				out += s
				continue
			}
			out += "%" + string(vb)
			verbs = append(verbs, string(vb))
			args = append(args, a)
		}
		return out, verbs, args, true
	}
	if f := call.Call.StaticCallee(); f != nil && p.IsModFunc(f) && len(f.Blocks) > 0 {
		rs := Returns(f)
		if len(rs) != 1 || len(rs[0].Results) != 1 {
			return "", nil, nil, false
		}
		env2 := map[*ssa.Parameter]ssa.Value{}
		for k, prm := range f.Params {
			if k < len(PArgs(&call.Call)) {
				env2[prm] = subst(PArgs(&call.Call)[k])
			}
		}
		return keyShape(p, ReturnValue(rs[0], 0), env2, depth+1)
	}
	return "", nil, nil, false
}

// ruleCacheKeysByUse: the memcache keys of the caching store, found where they
// are used (Item.Key of the Set, key argument of the Get): an injective
// encoding of (backend ID, request ID) of the very call, with different
// constant parts for requests and responses.
func ruleCacheKeysByUse(c *Ctx, p *Prog, rule string) {
	const mc = "google.golang.org/appengine/v2/memcache"
	formats := map[string]string{}
	for _, m := range []struct {
		name   string
		write  bool
		kind   string
		b, r   string // expected paths of backend ID and request ID (relative to the method)
		bi, ri int
	}{
		{"WriteRequest", true, "request", "", "", 2, 2},
		{"ReadRequest", false, "request", "", "", 2, 3},
		{"WriteResponse", true, "response", "", "", 2, 2},
		{"ReadResponse", false, "response", "", "", 2, 3},
	} {
		fn := p.Func("app/cache.(*cachingStore)." + m.name)
		key := "cache-key:" + m.name
		if fn == nil {
			c.Unk(rule, key, p, 0, "method not found")
			continue
		}
		var kv ssa.Value
		if m.write {
			for _, al := range AllocsOf(fn, mc+".Item") {
				if v, ok := LiteralField(al, "Key"); ok {
					kv = v
				}
			}
			if kv == nil {
				for _, al := range AllocsOf(fn, "google.golang.org/appengine/v2/memcache.Item") {
					if v, ok := LiteralField(al, "Key"); ok {
						kv = v
					}
				}
			}
		} else {
			EachInstr(fn, func(i ssa.Instruction) {
				if cc := CallOf(i); cc != nil && strings.HasSuffix(CalleeName(cc), "memcache.Codec).Get") {
					kv = Args(cc)[2]
				}
			})
		}
		if kv == nil {
			c.Unk(rule, key, p, fn.Pos(), "no memcache key found in "+m.name+" (Item.Key / Codec.Get key)")
			continue
		}
		// the key travels through a shared new helper (cacheObject(ctx, key, obj)): take the
		// argument of the call in this method
		for k := 0; k < 3; k++ {
			prm, isP := kv.(*ssa.Parameter)
			if !isP || prm.Parent() == fn {
				break
			}
			a := helperParamArgIn(prm, fn)
			if a == nil {
				break
			}
			kv = a
		}
		format, verbs, args, ok := keyShape(p, kv, map[*ssa.Parameter]ssa.Value{}, 0)
		wantB, wantR := P(fn, 2)+".BackendID", P(fn, 2)+".RequestID"
		if !m.write {
			wantB, wantR = P(fn, 2), P(fn, 3)
		}
		good := ok && len(verbs) == 2 && verbs[0] == "q" && verbs[1] == "q" && PathOf(args[0]) == wantB && PathOf(args[1]) == wantR
		formats[m.name] = format
		why := "the key is not a fmt.Sprintf this rule can expand"
		if ok {
			why = fmt.Sprintf("effective format %q with %d non-constant components", format, len(verbs))
			if len(args) == 2 {
				why += " (" + PathOf(args[0]) + ", " + PathOf(args[1]) + ")"
			}
		}
		c.Check(rule, key, p, fn.Pos(), good, fmt.Sprintf("memcache key = Sprintf(%q, backendID, requestID) of this very call, both quoted: an injective encoding", format), m.name+": "+why+": the memcache key is not an injective %q-encoding of (backend ID, request ID) of the call — keys of different backends/requests can collide, so one backend's agent can read or answer another backend's requests")
	}
	c.Check(rule, "cache-key:request-vs-response", p, 0, formats["WriteRequest"] != "" && formats["WriteRequest"] == formats["ReadRequest"] && formats["WriteResponse"] == formats["ReadResponse"] && formats["WriteRequest"] != formats["WriteResponse"], "requests and responses use different constant key parts; write and read sides agree", fmt.Sprintf("key formats: %v — write/read sides must agree and requests must not share keys with responses", formats))
}

// ruleNoLockAcrossRPC: no mutex that request-path code takes (the metrics
// handler's) is held across a network call: a response whose status is
// recorded while the periodic export is in flight would wait for the RPC.
func ruleNoLockAcrossRPC(c *Ctx, p *Prog, rule string) {
	ls := ComputeLocksets(p)
	n := 0
	bad := ""
	for _, fn := range p.AllFuncsIn("agent/metrics") {
		EachInstrRaw(fn, func(i ssa.Instruction) {
			cc := CallOf(i)
			if cc == nil {
				return
			}
			name := CalleeName(cc)
			remote := strings.Contains(name, "cloud.google.com/") || strings.Contains(name, "google.golang.org/api") || strings.Contains(name, "google.golang.org/grpc") || strings.HasPrefix(name, "(*net/http.Client)") || strings.HasPrefix(name, "net/http.")
			// the monitoring client behind the package's own interface: a method taking a context is an RPC
			if cc.IsInvoke() && len(PArgs(cc)) > 0 && NamedType(PArgs(cc)[0].Type()) == "context.Context" && strings.Contains(name, "agent/metrics.") {
				remote = true
			}
			if !remote {
				return
			}
			n++
			if held := ls.Held(i); len(held) > 0 {
				bad = name[strings.LastIndex(name, "/")+1:] + " at " + p.Pos(i.Pos()) + " runs with " + held.String() + " held"
			}
		})
	}
	c.Check(rule, "metrics:no-lock-across-rpc", p, 0, n >= 1 && bad == "", fmt.Sprintf("%d remote calls of the metrics handler inspected: none runs with the handler's mutex held (counts are swapped out first)", n), "the metrics mutex is held across a network call ("+bad+"): WriteResponseCodeMetric, which the response path calls for every response, blocks for the duration of the export RPC — responses stall while metrics are emitted, and a hung monitoring endpoint wedges the agent")
}

// ruleSerialiserDoesNotBlockOnMetrics (C05): the goroutine that serialises
// the response to the proxy records the status code asynchronously (go …) or
// after resp.Write: a synchronous call into the metrics handler before the
// write puts the handler's mutex on the streaming path.
func ruleSerialiserDoesNotBlockOnMetrics(c *Ctx, p *Prog, rule string) {
	f := c.need(p, rule, "agent/utils.NewResponseForwarder")
	if f == nil {
		return
	}
	w := c.UniqueCall(rule, p, f, true, "(*net/http.Response).Write")
	if w == nil {
		return
	}
	g := Owner(w)
	bad := ""
	EachInstr(g, func(i ssa.Instruction) {
		call, isCall := i.(*ssa.Call) // plain (synchronous) calls only; `go metricHandler.…` is fine
		if !isCall || !strings.Contains(CalleeName(call.Common()), "agent/metrics.MetricHandler)") {
			return
		}
		if h, _ := (&Walk{Target: func(x ssa.Instruction) bool { return x == w }}).FromInstr(i); h != nil {
			bad = CalleeName(call.Common()) + " at " + p.Pos(i.Pos())
		}
	})
	c.Check(rule, "serialiser:no-synchronous-metrics-before-write", p, w.Pos(), bad == "", "the serialiser calls nothing of the metrics handler synchronously before resp.Write", "the serialiser calls "+bad+" synchronously before resp.Write: the metrics handler's mutex (taken by the periodic export) is now on the path of every response header and chunk")
}

// ruleWorkerPerRequest (C07.E): every request ID gets its own goroutine: the
// worker is the direct callee of a go statement (not called in a loop inside
// one goroutine per batch).
func ruleWorkerPerRequest(c *Ctx, p *Prog, rule string) {
	f := c.need(p, rule, "agent.pollForNewRequests")
	if f == nil {
		return
	}
	n, bad := 0, ""
	for _, fn := range WithClosures(f) {
		EachInstr(fn, func(i ssa.Instruction) {
			if !IsCall(i, ModPath+"/agent.processOneRequest") {
				return
			}
			n++
			if _, isGo := i.(*ssa.Go); !isGo {
				bad = "processOneRequest is called synchronously at " + p.Pos(i.Pos()) + " (in " + FuncName(fn) + ")"
			}
		})
	}
	c.Check(rule, "poll:one-goroutine-per-request", p, f.Pos(), n >= 1 && bad == "", "each request is handed to its own goroutine (go processOneRequest): a request that hangs in the backend holds up nothing else", bad+": requests of one pending-list batch are processed one after the other, so a request that hangs in the backend blocks every request listed after it")
}

// ruleMayNilDeref: a pointer value that may be nil on some path (a φ with a
// nil edge, or a local declared without a value) is dereferenced only under a
// nil test of that value. Panics on the worker goroutine are not recovered.
func ruleMayNilDeref(c *Ctx, p *Prog, rule string, fns ...string) {
	for _, name := range fns {
		f := c.need(p, rule, name)
		if f == nil {
			continue
		}
		bad := ""
		nphi := 0
		for _, fn := range WithClosures(f) {
			EachInstrRaw(fn, func(i ssa.Instruction) {
				ph, ok := i.(*ssa.Phi)
				if !ok {
					return
				}
				if _, isPtr := ph.Type().Underlying().(*types.Pointer); !isPtr {
					return
				}
				var nilEdge func(x *ssa.Phi, seen map[*ssa.Phi]bool) bool
				nilEdge = func(x *ssa.Phi, seen map[*ssa.Phi]bool) bool {
					if seen[x] {
						return false
					}
					seen[x] = true
					for _, e := range x.Edges {
						if IsNilConst(e) {
							return true
						}
						if y, isPhi := e.(*ssa.Phi); isPhi && nilEdge(y, seen) {
							return true
						}
					}
					return false
				}
				if !nilEdge(ph, map[*ssa.Phi]bool{}) {
					return
				}
				nphi++
				for _, u := range Refs(ph) {
					deref := false
					switch x := u.(type) {
					case *ssa.FieldAddr:
						deref = x.X == ssa.Value(ph)
					case *ssa.UnOp:
						deref = x.Op == token.MUL && x.X == ssa.Value(ph)
					case *ssa.Call:
						// method call with pointer receiver defined on the value type dereferences; be conservative: only explicit loads
					}
					if !deref {
						continue
					}
					guarded := false
					for _, g := range GuardConds(u) {
						if bo, ok := g.Cond.(*ssa.BinOp); ok {
							if (SameValue(bo.X, ph) && IsNilConst(bo.Y)) || (SameValue(bo.Y, ph) && IsNilConst(bo.X)) {
								if (bo.Op == token.NEQ && g.Truth) || (bo.Op == token.EQL && !g.Truth) {
									guarded = true
								}
							}
						}
					}
					if !guarded {
						bad = "a pointer that is nil on some path is dereferenced at " + p.Pos(u.Pos())
					}
				}
			})
		}
		c.Check(rule, "nil-deref:"+name, p, f.Pos(), bad == "", fmt.Sprintf("%d possibly-nil pointer values inspected: each is dereferenced only under a nil test", nphi), name+": "+bad+" without a nil test: malformed input that takes that path panics on the worker goroutine, which terminates the agent")
	}
}

// ruleOnlyWrappedBy (C10): the backend-facing proxy built in hostProxy reaches
// the handler chain only through SessionHandler: nothing else calls it or
// captures it (a bypass route for some request class skips cookie filtering).
func ruleOnlyWrappedBy(c *Ctx, p *Prog, rule string) {
	hp := c.need(p, rule, "agent.hostProxy")
	if hp == nil {
		return
	}
	ctor := Calls(hp, "net/http/httputil.NewSingleHostReverseProxy")
	if len(ctor) != 1 {
		c.Unk(rule, "hostProxy:reverse-proxy", p, hp.Pos(), "the reverse proxy constructor call was not found")
		return
	}
	rp := ctor[0].(ssa.Value)
	bad := ""
	nSess := 0
	var visit func(v ssa.Value, depth int)
	visit = func(v ssa.Value, depth int) {
		if depth > 6 {
			return
		}
		for _, u := range Refs(v) {
			switch x := u.(type) {
			case *ssa.DebugRef:
			case *ssa.FieldAddr:
				// field stores on the proxy (Transport, FlushInterval, ModifyResponse): judged by C02.W/C14.P
			case *ssa.MakeInterface:
				visit(x, depth+1)
			case *ssa.ChangeInterface:
				visit(x, depth+1)
			case *ssa.Phi:
				visit(x, depth+1)
			case *ssa.Store:
				// stored into the local handler variable: follow the loads of that cell
				if cell, ok := x.Addr.(*ssa.Alloc); ok && x.Val == v {
					for _, r := range Refs(cell) {
						if ld, ok := r.(*ssa.UnOp); ok {
							visit(ld, depth+1)
						}
						if mc, ok := r.(*ssa.MakeClosure); ok {
							bad = "captured by the closure " + FuncName(mc.Fn.(*ssa.Function)) + " at " + p.Pos(mc.Pos())
						}
					}
				}
			case *ssa.Call:
				n := CalleeName(x.Common())
				if strings.HasSuffix(n, "agent/sessions.Cache).SessionHandler") {
					nSess++
					continue
				}
				if depth == 0 && x.Call.Value != v {
					// a method call on the proxy value itself is not expected in hostProxy
				}
				bad = "passed to / called by " + n + " at " + p.Pos(x.Pos())
			case *ssa.MakeClosure:
				bad = "captured by the closure " + FuncName(x.Fn.(*ssa.Function)) + " at " + p.Pos(x.Pos())
			case *ssa.Extract:
				visit(x, depth+1)
			case *ssa.Return:
				// returned by a new constructor helper: continue at its call sites
				if info := helperOf(x.Parent()); info != nil && x.Parent() != hp {
					for _, site := range info.sites {
						if sv, isV := site.(ssa.Value); isV {
							visit(sv, depth+1)
						}
					}
					continue
				}
				bad = "returned unwrapped at " + p.Pos(x.Pos())
			}
		}
	}
	visit(rp, 0)
	// the shim serves websocket-open requests itself: the wrapper it is given for them is the
	// session handler of the cache as it is when hostProxy runs (a method value taken at
	// package initialisation binds the still-nil cache, i.e. "sessions disabled")
	for _, call := range Calls(hp, ModPath+"/agent/websockets.Proxy") {
		a := PArgs(CallOf(call))
		okW, why := false, "it is not a value this rule can resolve"
		if len(a) > 6 && a[6] != nil {
			okW = true
			for _, r := range Roots(a[6]) {
				mc, isMC := r.(*ssa.MakeClosure)
				fn, _ := func() (*ssa.Function, bool) {
					if !isMC {
						return nil, false
					}
					f, ok := mc.Fn.(*ssa.Function)
					return f, ok
				}()
				switch {
				case fn != nil && isBoundWrapper(fn) && strings.HasSuffix(fn.Name(), "SessionHandler$bound") && TopFunc(mc.Parent()) == hp && len(mc.Bindings) == 1 && PathOf(mc.Bindings[0]) == "*global:sessionLRU":
				case fn != nil && !isBoundWrapper(fn) && TopFunc(mc.Parent()) == hp && len(Calls(fn, "(*"+ModPath+"/agent/sessions.Cache).SessionHandler")) == 1:
				default:
					okW = false
					why = "it is " + PathOf(a[6]) + ", not sessionLRU.SessionHandler evaluated in hostProxy"
				}
			}
		}
		c.Check(rule, "hostProxy:shim-open-wrapped-by-session-handler", p, call.Pos(), okW, "websocket-open requests, which the shim serves itself, are wrapped by the session handler of the configured cache", "the wrapper handed to the websocket shim for open requests is not the session handler of the cache configured at start-up ("+why+"): shimmed websocket opens bypass session handling — the backend gets the session cookie and none of the session's cookies")
	}
	c.Check(rule, "hostProxy:proxy-only-behind-session-handler", p, hp.Pos(), bad == "" && nSess == 1, "the reverse proxy is handed to SessionHandler and to nothing else: every request and response passes the session handler", "the backend-facing reverse proxy is reachable around the session handler ("+bad+"): requests of that route keep the session cookie, miss the jar's cookies, and their responses' Set-Cookie reach the client")
}

// ruleRequestBodyUnread (C02): the agent does not read the body of the request
// it is about to forward (a single Read taken for "the whole body" truncates
// chunked bodies; any consumption alters what the backend receives).
func ruleRequestBodyUnread(c *Ctx, p *Prog, rule string) {
	n := 0
	bad := ""
	for _, name := range []string{"agent/utils.parseRequestFromProxyResponse", "agent/utils.ReadRequest", "agent.forwardRequest", "agent.processOneRequest"} {
		f := p.Func(name)
		if f == nil {
			continue
		}
		for _, fn := range WithClosures(f) {
			EachInstr(fn, func(i ssa.Instruction) {
				cc := CallOf(i)
				if cc == nil {
					return
				}
				n++
				nm := CalleeName(cc)
				short := nm[strings.LastIndex(nm, ".")+1:]
				switch short {
				case "Read", "ReadAll", "ReadFull", "ReadAtLeast", "Copy", "CopyN", "CopyBuffer", "ReadFrom", "Discard", "Peek":
				default:
					return
				}
				for _, a := range Args(cc) {
					isReqBody := false
					SliceBack(a, func(v ssa.Value) bool {
						if base, fld, ok := FieldLoad(v); ok && fld == "Body" && NamedType(base.Type()) == "net/http.Request" {
							isReqBody = true
						}
						return true
					})
					if isReqBody {
						bad = nm + " at " + p.Pos(i.Pos()) + " (in " + FuncName(fn) + ")"
					}
				}
			})
		}
	}
	c.Check(rule, "agent:request-body-not-read-before-forwarding", p, 0, n > 10 && bad == "", "the agent never reads the parsed request's Body itself: the backend reads it", "the agent reads the body of the request it forwards ("+bad+"): a short Read is not end-of-body (the chunked reader returns at chunk boundaries), so multi-chunk bodies are truncated or re-framed with a wrong length")
}

// ruleIndexSliceAgreement: an offset obtained by searching one string/slice is
// only used to slice that same value (slicing another value — e.g. the
// original after searching its ToLower copy — goes out of range or lands in
// the wrong place; an out-of-range panic on the worker kills the agent).
func ruleIndexSliceAgreement(c *Ctx, p *Prog, rule string, pkgs ...string) {
	n := 0
	bad := ""
	for _, pk := range pkgs {
		for _, fn := range p.FuncsIn(pk) {
			for _, call := range Calls(fn, "strings.Index", "strings.IndexByte", "strings.IndexRune", "strings.IndexAny", "strings.LastIndex", "bytes.Index", "bytes.IndexByte", "bytes.LastIndex") {
				if call.Parent() != fn {
					continue
				}
				n++
				src := PArgs(CallOf(call))[0]
				EachInstr(fn, func(i ssa.Instruction) {
					sl, ok := i.(*ssa.Slice)
					if !ok {
						return
					}
					uses := false
					for _, b := range []ssa.Value{sl.Low, sl.High} {
						if b == nil {
							continue
						}
						r, _ := DerivesFrom(b, func(v ssa.Value) bool { return v == call.(ssa.Value) }, func(ssa.Value) bool { return false })
						if r {
							uses = true
						}
					}
					if uses && !SameValue(sl.X, src) {
						bad = "the offset found in " + PathOf(src) + " is used to slice " + PathOf(sl.X) + " at " + p.Pos(sl.Pos())
					}
				})
			}
		}
	}
	c.Check(rule, "index-slice-agreement:"+strings.Join(pkgs, ","), p, 0, bad == "", fmt.Sprintf("%d index searches inspected: every offset is applied to the value it was found in", n), bad+": byte offsets do not carry over between a string and a transformed copy of it (ToLower changes lengths for İ, K and invalid UTF-8), so the slice can go out of range — a panic in the response hook that nothing recovers terminates the agent")
}

// ruleChainNotRetried: no call on the chain worker → ReadRequest → callback →
// forwardRequest → NewResponseForwarder sits in a loop: the only retries of
// an upload are the three attempts of postResponseWithRetries.
func ruleChainNotRetried(c *Ctx, p *Prog, rule string) {
	type link struct{ fn, callee, what string }
	for _, l := range []link{
		{"agent.processOneRequest", ModPath + "/agent/utils.ReadRequest", "ReadRequest (whose error also covers the forwarding callback and the upload)"},
		{"agent.forwardRequest", ModPath + "/agent/utils.NewResponseForwarder", "NewResponseForwarder"},
		{"agent.forwardRequest", "(net/http.Handler).ServeHTTP", "the backend handler"},
	} {
		f := c.need(p, rule, l.fn)
		if f == nil {
			continue
		}
		var hits []ssa.Instruction
		for _, fn := range WithClosures(f) {
			hits = append(hits, Calls(fn, l.callee)...)
		}
		ok := len(hits) == 1 && !InLoop(hits[0].Block())
		c.Check(rule, "no-outer-retry:"+l.fn+"→"+shortCallee(l.callee), p, posOf(hits), ok, "called once, outside any loop", fmt.Sprintf("%s calls %s at %d site(s) / inside a loop: a retry at this level repeats the backend call and the whole three-attempt upload, so one response can be uploaded up to nine times", l.fn, l.what, len(hits)))
	}
}

// ruleReplayDoesNotWaitForSource (C05): when the replay buffer has bytes to
// hand out, Read returns them without also reading from the source — that
// read blocks until the backend produces more, and a backend that waits for
// the client to see the replayed chunk never does.
func ruleReplayDoesNotWaitForSource(c *Ctx, p *Prog, rule string) {
	rd := c.need(p, rule, "agent/utils.(*bufferedReadSeeker).Read")
	if rd == nil {
		return
	}
	var replay, src *ssa.Call
	EachInstr(rd, func(i ssa.Instruction) {
		call, ok := i.(*ssa.Call)
		if !ok {
			return
		}
		if b, isB := call.Call.Value.(*ssa.Builtin); isB && b.Name() == "copy" && len(PArgs(&call.Call)) == 2 {
			if sl, isS := PArgs(&call.Call)[1].(*ssa.Slice); isS {
				if _, f, ok := FieldLoad(sl.X); ok && f == "buf" {
					replay = call
				}
			}
		}
		if call.Call.IsInvoke() && call.Call.Method.Name() == "Read" {
			if _, f, ok := FieldLoad(call.Call.Value); ok && f == "r" {
				src = call
			}
		}
	})
	if replay == nil || src == nil {
		c.Unk(rule, "replay:returns-without-reading-the-source", p, rd.Pos(), "the replay copy or the source read was not found in bufferedReadSeeker.Read")
		return
	}
	env := func(k int64) Env {
		return func(v ssa.Value) (constant.Value, bool) {
			if v == ssa.Value(replay) {
				return IntC(k), true
			}
			// the state in which k bytes are waiting to be replayed
			if base, f, ok := FieldLoad(v); ok && NamedTypeRel(base.Type()) == "agent/utils.bufferedReadSeeker" {
				switch f {
				case "readHead":
					return IntC(0), true
				case "writeHead":
					return IntC(k), true
				}
			}
			return nil, false
		}
	}
	h3, _ := (&Walk{Target: func(i ssa.Instruction) bool { return i == ssa.Instruction(src) }, Edge: EdgeUnder(env(3))}).FromBlock(rd.Blocks[0])
	h0, _ := (&Walk{Target: func(i ssa.Instruction) bool { return i == ssa.Instruction(src) }, Edge: EdgeUnder(env(0))}).FromBlock(rd.Blocks[0])
	c.Check(rule, "replay:returns-without-reading-the-source", p, src.Pos(), h3 == nil && h0 != nil, "with replayed bytes in hand Read returns them at once; the source is only read when nothing was replayed", "bufferedReadSeeker.Read reads from the source in the same call that replayed buffered bytes: after a failed upload attempt the retry holds the already flushed chunk back until the backend produces more output — a backend that waits for the client to see that chunk never does")
}

// ruleDialHandshakeBounded (C16.A): every websocket dial of the bridge is bounded in
// time — through gorilla's DefaultDialer (45 s HandshakeTimeout), a Dialer whose
// HandshakeTimeout is a positive constant, or a context with a deadline. gorilla
// enforces the context during the handshake only through its deadline, so an
// unbounded dial against a peer that accepts TCP and never answers the upgrade pins
// the per-connection goroutine and both sockets for ever.
func ruleDialHandshakeBounded(c *Ctx, p *Prog, rule string, pkgs ...string) {
	n := 0
	if len(pkgs) == 0 {
		pkgs = []string{"utils/tcpbridge/connection", "utils/tcpbridge/tcp-bridge-frontend", "utils/tcpbridge/tcp-bridge-backend"}
	}
	for _, pk := range pkgs {
		for _, fn := range p.FuncsIn(pk) {
			for _, call := range Calls(fn, "(*github.com/gorilla/websocket.Dialer).DialContext", "(*github.com/gorilla/websocket.Dialer).Dial") {
				if Owner(call) != fn && call.Parent() != fn {
					continue
				}
				n++
				cc := CallOf(call)
				why := ""
				bounded := false
				positive := func(lit ssa.Value) bool {
					v, has := LiteralField(lit, "HandshakeTimeout")
					if !has {
						// a private copy of gorilla's DefaultDialer with other fields adjusted
						nst, copyOfDefault := 0, false
						for _, r := range Refs(lit) {
							if st, isSt := r.(*ssa.Store); isSt && st.Addr == lit {
								nst++
								if strings.HasSuffix(PathOf(st.Val), "global:github.com/gorilla/websocket.DefaultDialer") {
									copyOfDefault = true
								}
							}
							if fa, isFA := r.(*ssa.FieldAddr); isFA && fieldName(fa.X.Type(), fa.Field) == "HandshakeTimeout" {
								nst = 99 // written more than once or conditionally
							}
						}
						return nst == 1 && copyOfDefault
					}
					if k, isC := ConstInt(v); isC {
						return k > 0
					}
					// a configured value: positive wherever it is set
					win, err := (&interp{p: p, globals: map[string]iv{}}).evalValue(v, 0)
					return err == nil && win.kind == 'i' && win.ilo.Sign() > 0
				}
				for _, r := range Roots(PArgs(cc)[0]) {
					if u, isU := r.(*ssa.UnOp); isU && u.Op == token.MUL {
						if g, isG := u.X.(*ssa.Global); isG {
							r = g
						}
					}
					switch x := r.(type) {
					case *ssa.Global:
						if x.Pkg != nil && x.Pkg.Pkg.Path() == "github.com/gorilla/websocket" && x.Name() == "DefaultDialer" {
							bounded = true
							continue
						}
						// a dialer of the module: every value stored into it must carry a timeout
						ns, ok := 0, true
						for _, g := range p.AllFuncs {
							EachInstrRaw(g, func(i ssa.Instruction) {
								if st, isSt := i.(*ssa.Store); isSt && st.Addr == ssa.Value(x) {
									ns++
									for _, rr := range Roots(st.Val) {
										if !positive(rr) {
											ok = false
										}
									}
								}
							})
						}
						if x.Pkg != nil {
							if ini := x.Pkg.Func("init"); ini != nil {
								EachInstrRaw(ini, func(i ssa.Instruction) {
									if st, isSt := i.(*ssa.Store); isSt && st.Addr == ssa.Value(x) {
										ns++
										for _, rr := range Roots(st.Val) {
											if !positive(rr) {
												ok = false
											}
										}
									}
								})
							}
						}
						if ns > 0 && ok {
							bounded = true
						} else {
							why = "the dialer " + GlobalName(x) + " has no positive HandshakeTimeout"
						}
					case *ssa.Alloc:
						if positive(x) {
							bounded = true
						} else {
							why = "the websocket.Dialer literal sets no positive HandshakeTimeout"
						}
					default:
						why = "the dialer " + PathOf(PArgs(cc)[0]) + " is not one this rule can resolve"
					}
				}
				if !bounded && CalleeName(cc) == "(*github.com/gorilla/websocket.Dialer).DialContext" {
					for _, r := range Roots(PArgs(cc)[1]) {
						if CallResult(r, 0, "context.WithTimeout") != nil || CallResult(r, 0, "context.WithDeadline") != nil {
							bounded = true
						}
					}
				}
				c.Check(rule, "dial:handshake-bounded:"+FuncName(fn), p, call.Pos(), bounded, "the websocket dial goes through gorilla's DefaultDialer (45 s handshake timeout), a dialer with a positive HandshakeTimeout, or a context with a deadline", why+": gorilla/websocket enforces the dial context during the handshake only through its deadline, so against a peer that accepts the TCP connection and never answers the upgrade the dial never returns — the goroutine serving that client never reads its socket again, does not notice the client closing, and keeps both connections open")
			}
		}
	}
	if n == 0 {
		c.Unk(rule, "dial:handshake-bounded", p, 0, "no websocket dial found in "+strings.Join(pkgs, ", "))
	}
}

// ruleNoResponseReplay (C10.B): the agent keeps no response headers across requests. The
// session writer adds `Set-Cookie: <session>` for a client that presented none and strips
// the backend's cookies — per response. A structure that stores a header (or a whole
// response) in a cache, map or package variable and replays it hands one client's session
// cookie to every later client of that URL.
func ruleNoResponseReplay(c *Ctx, p *Prog, rule string, pkgs ...string) {
	holdsHeader := func(t types.Type) string {
		seen := map[types.Type]bool{}
		var walk func(t types.Type, d int) string
		walk = func(t types.Type, d int) string {
			if t == nil || seen[t] || d > 4 {
				return ""
			}
			seen[t] = true
			switch NamedType(t) {
			case "net/http.Header":
				return "an http.Header"
			case "net/http.Response":
				return "an *http.Response"
			case "net/http.Cookie":
				return "cookies"
			}
			switch u := t.Underlying().(type) {
			case *types.Pointer:
				return walk(u.Elem(), d+1)
			case *types.Slice:
				return walk(u.Elem(), d+1)
			case *types.Struct:
				if !IsNewType(t) {
					return "" // pinned types are judged by the rules written for them
				}
				for k := 0; k < u.NumFields(); k++ {
					if w := walk(u.Field(k).Type(), d+1); w != "" {
						return w
					}
				}
			}
			return ""
		}
		return walk(t, 0)
	}
	n := 0
	bad := ""
	for _, pk := range pkgs {
		for _, fn := range p.AllFuncsIn(pk) {
			EachInstrRaw(fn, func(i ssa.Instruction) {
				var stored ssa.Value
				switch x := i.(type) {
				case *ssa.Call:
					switch CalleeName(x.Common()) {
					case "(*github.com/golang/groupcache/lru.Cache).Add":
						stored = x.Call.Args[2]
					case "(*sync.Map).Store", "(*sync.Map).LoadOrStore", "(*sync.Map).Swap":
						stored = x.Call.Args[2]
					default:
						return
					}
				case *ssa.MapUpdate:
					stored = x.Value
				case *ssa.Store:
					if _, isG := x.Addr.(*ssa.Global); !isG {
						return
					}
					stored = x.Val
				default:
					return
				}
				n++
				v := stored
				if mi, isMI := v.(*ssa.MakeInterface); isMI {
					v = mi.X
				}
				if NamedType(v.Type()) == "net/http.Header" {
					return // header maps themselves (w.Header()[k] = v) are per response
				}
				if w := holdsHeader(v.Type()); w != "" {
					bad = "a value holding " + w + " is kept across requests at " + p.Pos(i.Pos()) + " (in " + FuncName(fn) + ")"
				}
			})
		}
	}
	c.Check(rule, "agent:no-response-kept-across-requests", p, 0, bad == "" && n > 0, fmt.Sprintf("no response header, cookie or response object is stored in a cache, map or package variable of the agent (%d stores inspected)", n), bad+": a replayed response carries the Set-Cookie the session writer issued for the first client, so later clients share that session (and its backend cookies)")
}

// ruleRecordingDoesNotWait: recording a response code (WriteResponseCodeMetric
// and everything it runs synchronously) performs no blocking channel
// operation and waits for no other goroutine. Every shim endpoint and every
// proxied response calls it before the handler returns; a send on a bounded
// channel that the exporting goroutine drains blocks every request once the
// exporter is stuck in an RPC.
func ruleRecordingDoesNotWait(c *Ctx, p *Prog, rule string) {
	f := c.need(p, rule, "agent/metrics.(*MetricHandler).WriteResponseCodeMetric")
	if f == nil {
		return
	}
	seen := map[*ssa.Function]bool{f: true}
	q := []*ssa.Function{f}
	bad := ""
	n := 0
	for len(q) > 0 {
		fn := q[0]
		q = q[1:]
		n++
		EachInstrRaw(fn, func(i ssa.Instruction) {
			switch x := i.(type) {
			case *ssa.Go:
				return
			case *ssa.Send:
				bad = "channel send at " + p.Pos(x.Pos())
			case *ssa.Select:
				if x.Blocking {
					timed := false
					for _, st := range x.States {
						if st.Dir == types.RecvOnly && isTimerChan(st.Chan) {
							timed = true
						}
					}
					if !timed {
						bad = "select without default at " + p.Pos(x.Pos())
					}
				}
			case *ssa.UnOp:
				if x.Op == token.ARROW && !isTimerChan(x.X) {
					bad = "channel receive at " + p.Pos(x.Pos())
				}
			case *ssa.MakeClosure:
				onlyGo := true
				for _, r := range *x.Referrers() {
					if _, isGo := r.(*ssa.Go); !isGo {
						onlyGo = false
					}
				}
				if g := x.Fn.(*ssa.Function); !onlyGo && !seen[g] {
					seen[g] = true
					q = append(q, g)
				}
			}
			if cc := CallOf(i); cc != nil {
				switch CalleeName(cc) {
				case "(*sync.WaitGroup).Wait", "(*sync.Cond).Wait":
					bad = CalleeName(cc) + " at " + p.Pos(i.Pos())
				}
				if g := StaticFunc(cc); g != nil && p.IsModFunc(g) && len(g.Blocks) > 0 && !seen[g] {
					seen[g] = true
					q = append(q, g)
				}
			}
		})
	}
	c.Check(rule, "metrics:recording-does-not-wait", p, f.Pos(), bad == "", fmt.Sprintf("%d function(s) run synchronously by WriteResponseCodeMetric: no channel send/receive, blocking select or wait for another goroutine", n), "WriteResponseCodeMetric, which every response path calls before the handler returns, waits for another goroutine ("+bad+"): once the exporter is busy or stuck in an RPC and the channel is full, every request of the agent hangs without an answer")
}

// rulePipeClosers: who may close an end of a pipe of the response path. The
// body pipe and the upload pipe are closed by the parties that own the event:
// the handler's Close / CloseWithError, the writer's own give-up on the
// request context, and the two forwarder goroutines. A close from anywhere
// else — a watchdog timer armed per chunk, an idle reaper — ends a healthy
// stream whose backend merely pauses between chunks.
func rulePipeClosers(c *Ctx, p *Prog, rule string) {
	allowed := map[string]bool{
		"agent/utils.(*streamingResponseWriter).WriteHeader":    true,
		"agent/utils.(*streamingResponseWriter).Close":          true,
		"agent/utils.(*streamingResponseWriter).CloseWithError": true,
		"agent/utils.NewResponseForwarder":                      true,
	}
	n := 0
	bad := ""
	for _, fn := range p.AllFuncsIn("agent/utils") {
		top := TopFunc(fn)
		EachInstrRaw(fn, func(i ssa.Instruction) {
			cc := CallOf(i)
			if cc == nil {
				return
			}
			switch CalleeName(cc) {
			case "(*io.PipeReader).Close", "(*io.PipeReader).CloseWithError", "(*io.PipeWriter).Close", "(*io.PipeWriter).CloseWithError":
			default:
				return
			}
			n++
			if !allowed[FuncName(top)] {
				bad = CalleeName(cc) + " in " + FuncName(fn) + " at " + p.Pos(i.Pos())
			}
		})
		// a timer whose callback belongs to the response writer
		for _, call := range Calls(fn, "time.AfterFunc") {
			if strings.Contains(FuncName(top), "treamingResponseWriter") || strings.Contains(FuncName(top), "NewResponseForwarder") {
				bad = "time.AfterFunc in " + FuncName(fn) + " at " + p.Pos(call.Pos())
			}
		}
	}
	c.Check(rule, "pipes:closed-by-their-owners-only", p, 0, bad == "" && n >= 4, fmt.Sprintf("%d pipe closes in agent/utils, all in the writer's Close/CloseWithError/WriteHeader or the forwarder goroutines; no timer on the writer", n), "an end of a response-path pipe is closed by a new party ("+bad+"): a watchdog or reaper ends a stream whose backend merely pauses between chunks — later chunks fail and the proxy sees a truncated body")
}

// ruleOneSendPerRoundTrip: a RoundTripper of the module sends the request it is
// given once. A second wrapped RoundTrip reachable after a first (a resend on
// 401, a retry inside the transport) doubles the attempts of the retry loop
// above it and resends a streaming body from wherever the first send left it.
func ruleOneSendPerRoundTrip(c *Ctx, p *Prog, rule string) {
	n := 0
	for _, fn := range p.AllFuncsIn("agent/utils") {
		if fn.Name() != "RoundTrip" || fn.Signature.Recv() == nil {
			continue
		}
		var sends []ssa.Instruction
		EachInstr(fn, func(i ssa.Instruction) {
			if IsCall(i, "(net/http.RoundTripper).RoundTrip", "(*net/http.Transport).RoundTrip", "(*net/http.Client).Do") {
				sends = append(sends, i)
			}
		})
		bad := ""
		for _, a := range sends {
			if InLoop(a.Block()) {
				bad = "the wrapped RoundTrip at " + p.Pos(a.Pos()) + " is inside a loop"
			}
			for _, b := range sends {
				if a == b {
					continue
				}
				tgt := b
				if h, _ := (&Walk{Target: func(i ssa.Instruction) bool { return i == tgt }, Local: true}).FromInstr(a); h != nil {
					bad = "a second send at " + p.Pos(b.Pos()) + " follows the one at " + p.Pos(a.Pos())
				}
			}
		}
		n++
		c.Check(rule, "transport:"+FuncName(fn)+":one-send-per-call", p, fn.Pos(), bad == "" && len(sends) >= 1, fmt.Sprintf("%d send site(s), none after another, none in a loop", len(sends)), FuncName(fn)+" can send a request more than once ("+bad+"): each attempt of the upload loop may become two, and a resent streaming body starts wherever the first send stopped reading — the proxy acknowledges a response without its first bytes")
	}
	if n == 0 {
		c.Unk(rule, "transport:one-send-per-call", p, 0, "no RoundTrip method found in agent/utils (the VM identity transport was renamed or removed)")
	}
}

// ruleExternalIndexInBounds: a slice or array indexed with a value that comes from outside the
// function (a parameter, a field, a parsed number) — not a loop counter — has a non-negative
// lower bound at the index expression. A table lookup keyed by a client-chosen protocol version
// that is only clamped from above panics with index out of range [-1] in a request goroutine
// that nothing recovers: one malformed header terminates the agent.
func ruleExternalIndexInBounds(c *Ctx, p *Prog, rule string, pkgs ...string) {
	n := 0
	bad := ""
	for _, pk := range pkgs {
		for _, fn := range p.AllFuncsIn(pk) {
			EachInstrRaw(fn, func(i ssa.Instruction) {
				var x, idx ssa.Value
				switch v := i.(type) {
				case *ssa.IndexAddr:
					x, idx = v.X, v.Index
				case *ssa.Index:
					x, idx = v.X, v.Index
				case *ssa.Lookup:
					// s[i] on a string (a map lookup cannot be out of range)
					if b, isB := v.X.Type().Underlying().(*types.Basic); !isB || b.Info()&types.IsString == 0 {
						return
					}
					x, idx = v.X, v.Index
				default:
					return
				}
				switch t := derefT(x.Type()).Underlying().(type) {
				case *types.Slice, *types.Array:
				case *types.Basic:
					if t.Info()&types.IsString == 0 {
						return
					}
				default:
					return
				}
				if _, isC := idx.(*ssa.Const); isC {
					return
				}
				if b, ok := idx.Type().Underlying().(*types.Basic); ok && b.Info()&types.IsUnsigned != 0 {
					return
				}
				// loop counters (a phi that is incremented around a cycle) are bounded by their loop
				external, counter := false, false
				SliceBack(idx, func(v ssa.Value) bool {
					switch y := v.(type) {
					case *ssa.Phi:
						for _, e := range y.Edges {
							if bo, isB := e.(*ssa.BinOp); isB && (bo.Op == token.ADD || bo.Op == token.SUB) && (bo.X == ssa.Value(y) || bo.Y == ssa.Value(y)) {
								counter = true
							}
						}
					case *ssa.Parameter, *ssa.FreeVar:
						if _, isInt := y.Type().Underlying().(*types.Basic); isInt {
							external = true
						}
					case *ssa.Call:
						switch CalleeName(y.Common()) {
						case "strconv.Atoi", "strconv.ParseInt":
							external = true
						}
					case *ssa.UnOp:
						if _, _, isF := FieldLoad(y); isF {
							if b, isB := y.Type().Underlying().(*types.Basic); isB && b.Info()&types.IsInteger != 0 {
								external = true
							}
						}
					}
					return true
				})
				// an index counted back from the end (x[len(x)-1]): the length must be known to be
				// large enough on every way to this instruction — an empty path, header value or
				// list makes it -1
				if !counter {
					lenArg, back := "", int64(0)
					SliceBack(idx, func(v ssa.Value) bool {
						if bo, isB := v.(*ssa.BinOp); isB && bo.Op == token.SUB {
							if k, isC := ConstInt(bo.Y); isC && k >= 1 {
								for _, r := range Roots(bo.X) {
									if call, isCall := r.(*ssa.Call); isCall {
										if b, isBI := call.Call.Value.(*ssa.Builtin); isBI && b.Name() == "len" && len(call.Call.Args) == 1 {
											lenArg, back = PathOf(call.Call.Args[0]), k
										}
									}
								}
							}
						}
						return true
					})
					if lenArg != "" && back > 0 {
						n++
						guarded := false
						for _, g := range GuardConds(i) {
							bo, isB := g.Cond.(*ssa.BinOp)
							if !isB {
								continue
							}
							op := bo.Op
							if !g.Truth {
								switch op {
								case token.LSS:
									op = token.GEQ
								case token.LEQ:
									op = token.GTR
								case token.GTR:
									op = token.LEQ
								case token.GEQ:
									op = token.LSS
								case token.EQL:
									op = token.NEQ
								case token.NEQ:
									op = token.EQL
								}
							}
							// the string or slice itself compared with "" / nil
							if PathOf(bo.X) == lenArg && op == token.NEQ && back == 1 {
								if sv, isS := ConstString(bo.Y); (isS && sv == "") || IsNilConst(bo.Y) {
									guarded = true
								}
							}
							// its length compared with a constant
							for _, r := range Roots(bo.X) {
								call, isCall := r.(*ssa.Call)
								if !isCall {
									continue
								}
								b, isBI := call.Call.Value.(*ssa.Builtin)
								if !isBI || b.Name() != "len" || len(call.Call.Args) != 1 || PathOf(call.Call.Args[0]) != lenArg {
									continue
								}
								k, isC := ConstInt(bo.Y)
								if !isC {
									continue
								}
								if (op == token.GTR && k >= back-1) || (op == token.GEQ && k >= back) || (op == token.NEQ && k == 0 && back == 1) {
									guarded = true
								}
							}
						}
						if !guarded {
							bad = fmt.Sprintf("index %s counted back from the end of %s at %s in %s, with nothing on the way that shows the length is at least %d", PathOf(idx), lenArg, p.Pos(i.Pos()), FuncName(fn), back)
						}
						return
					}
				}
				if counter || !external {
					return
				}
				n++
				win, err := (&interp{p: p, globals: map[string]iv{}}).evalValue(idx, 0)
				if err != nil || win.kind != 'i' || win.ilo.Sign() < 0 {
					bad = fmt.Sprintf("index %s (range %s) at %s in %s", PathOf(idx), win, p.Pos(i.Pos()), FuncName(fn))
				} else if arr, isArr := derefT(x.Type()).Underlying().(*types.Array); isArr && win.ihi.Cmp(big.NewInt(arr.Len())) >= 0 {
					// a fixed table: the upper end is known as well
					bad = fmt.Sprintf("index %s (range %s) into a %d-element array at %s in %s", PathOf(idx), win, arr.Len(), p.Pos(i.Pos()), FuncName(fn))
				}
			})
		}
	}
	c.Check(rule, "index:external-values-have-a-lower-bound", p, 0, bad == "", fmt.Sprintf("%d slice/array accesses indexed by a value from outside the function: each has a non-negative lower bound", n), "a slice or array is indexed with a value that can be out of range — "+bad+": an input that was only clamped from one side (a negative version number, a status code beyond a fixed table) panics with index out of range in a request goroutine nothing recovers, which terminates the agent")
}

// ruleResponseDerefOnErrorPath: a *http.Response that a call returned together with an error is
// not dereferenced on the branch where that error is non-nil, unless it was tested for nil. The
// standard client returns a nil response with every error, gorilla's Dial returns one only for a
// failed handshake (not for refused connections, DNS or TLS failures): `resp.Body.Close()` in
// the error branch is a nil dereference in a goroutine that nothing recovers.
func ruleResponseDerefOnErrorPath(c *Ctx, p *Prog, rule string, pkgs ...string) {
	n := 0
	bad := ""
	for _, pk := range pkgs {
		for _, fn := range p.AllFuncsIn(pk) {
			EachInstrRaw(fn, func(i ssa.Instruction) {
				call, ok := i.(*ssa.Call)
				if !ok {
					return
				}
				res := call.Call.Signature().Results()
				if res.Len() < 2 || NamedType(res.At(res.Len()-1).Type()) != "error" {
					return
				}
				ri := -1
				for k := 0; k < res.Len()-1; k++ {
					if NamedType(res.At(k).Type()) == "net/http.Response" {
						ri = k
					}
				}
				if ri < 0 {
					return
				}
				var respV, errV ssa.Value
				for _, r := range Refs(call) {
					if ex, isE := r.(*ssa.Extract); isE {
						if ex.Index == ri {
							respV = ex
						}
						if ex.Index == res.Len()-1 {
							errV = ex
						}
					}
				}
				if respV == nil || errV == nil {
					return
				}
				n++
				for _, u := range Refs(respV) {
					fa, isFA := u.(*ssa.FieldAddr)
					if !isFA || fa.X != respV {
						continue
					}
					onErr, nilChecked := false, false
					for _, g := range GuardConds(fa) {
						bo, isB := g.Cond.(*ssa.BinOp)
						if !isB {
							continue
						}
						nonNil := (bo.Op == token.NEQ && g.Truth) || (bo.Op == token.EQL && !g.Truth)
						if (bo.X == errV && IsNilConst(bo.Y)) || (bo.Y == errV && IsNilConst(bo.X)) {
							if nonNil {
								onErr = true
							}
						}
						if (bo.X == respV && IsNilConst(bo.Y)) || (bo.Y == respV && IsNilConst(bo.X)) {
							if nonNil {
								nilChecked = true
							}
						}
					}
					if onErr && !nilChecked {
						bad = "the response of " + CalleeName(call.Common()) + " is dereferenced at " + p.Pos(fa.Pos()) + " in " + FuncName(fn)
					}
				}
			})
		}
	}
	c.Check(rule, "response:not-dereferenced-where-its-error-is-set", p, 0, bad == "", fmt.Sprintf("%d calls returning (*http.Response, error) inspected: the response is not touched on the error branch without a nil test", n), bad+" on the branch where the call's error is non-nil, without a nil test: for every failure but a refused handshake the response is nil, and the panic in an unrecovered request goroutine terminates the agent (the caller gets no answer)")
}

// ruleSentinelComparedRaw: an error compared with a sentinel of another package by == / !=
// (datastore.ErrNoSuchEntity, memcache.ErrCacheMiss, io.EOF) is the error that package returned,
// not a decorated copy: once a helper wraps it with %w (or builds a new error) the comparison is
// never true and the "not found" case silently takes the generic error path — a different answer
// for unknown records than for forbidden ones.
func ruleSentinelComparedRaw(c *Ctx, p *Prog, rule string, pkgs ...string) {
	n := 0
	bad := ""
	for _, pk := range pkgs {
		for _, fn := range p.AllFuncsIn(pk) {
			EachInstrRaw(fn, func(i ssa.Instruction) {
				bo, ok := i.(*ssa.BinOp)
				if !ok || (bo.Op != token.EQL && bo.Op != token.NEQ) {
					return
				}
				for _, pair := range [][2]ssa.Value{{bo.X, bo.Y}, {bo.Y, bo.X}} {
					ld, isLd := pair[1].(*ssa.UnOp)
					if !isLd || ld.Op != token.MUL {
						continue
					}
					g, isG := ld.X.(*ssa.Global)
					if !isG || NamedType(g.Type()) != "error" && NamedType(derefT(g.Type())) != "error" {
						continue
					}
					if g.Pkg == nil || strings.HasPrefix(g.Pkg.Pkg.Path(), ModPath) {
						continue
					}
					n++
					for _, root := range Roots(pair[0]) {
						var call *ssa.Call
						switch r := root.(type) {
						case *ssa.Extract:
							call, _ = r.Tuple.(*ssa.Call)
						case *ssa.Call:
							call = r
						}
						if call == nil {
							continue
						}
						callee := StaticFunc(call.Common())
						name := CalleeName(call.Common())
						if name == "fmt.Errorf" || name == "errors.New" || (callee != nil && p.IsModFunc(callee)) {
							bad = fmt.Sprintf("%s %s %s.%s at %s, but the error comes from %s", PathOf(pair[0]), bo.Op, g.Pkg.Pkg.Name(), g.Name(), p.Pos(bo.Pos()), name)
						}
					}
				}
			})
		}
	}
	c.Check(rule, "errors:sentinels-compared-on-the-raw-error", p, 0, bad == "", fmt.Sprintf("%d comparisons with sentinel errors of other packages: each on the error that package returned", n), bad+": a wrapped error never equals the sentinel, so the 'no such record' case takes the generic error path — unknown IDs are answered differently from forbidden ones (an enumeration oracle), or a miss is treated as a failure")
}

// ruleOneWriterPerCapturedResult: of the goroutines a function starts, at most one assigns any
// given captured variable. Two goroutines that both write the one `err` the function returns
// race, and whichever finishes last decides the result — a failed store reported as success, or
// a best-effort bookkeeping failure reported as the store's.
func ruleOneWriterPerCapturedResult(c *Ctx, p *Prog, rule string, pkgs ...string) {
	n := 0
	bad := ""
	for _, pk := range pkgs {
		for _, fn := range p.AllFuncsIn(pk) {
			// goroutine literals started in fn
			var gos []*ssa.MakeClosure
			EachInstrRaw(fn, func(i ssa.Instruction) {
				if g, ok := i.(*ssa.Go); ok {
					if mc, isMC := g.Call.Value.(*ssa.MakeClosure); isMC {
						gos = append(gos, mc)
					}
				}
			})
			if len(gos) < 2 {
				continue
			}
			n++
			writers := map[*ssa.Alloc][]string{}
			for _, mc := range gos {
				cl := mc.Fn.(*ssa.Function)
				for bi, b := range mc.Bindings {
					al, isAl := b.(*ssa.Alloc)
					if !isAl || bi >= len(cl.FreeVars) {
						continue
					}
					fv := cl.FreeVars[bi]
					wrote := false
					for _, h := range WithClosures(cl) {
						EachInstrRaw(h, func(j ssa.Instruction) {
							if st, isSt := j.(*ssa.Store); isSt && resolveCell(st.Addr) == al {
								wrote = true
							}
						})
					}
					_ = fv
					if wrote {
						writers[al] = append(writers[al], p.Pos(mc.Pos()))
					}
				}
			}
			for al, ws := range writers {
				if len(ws) > 1 {
					bad = fmt.Sprintf("variable %s of %s is assigned by %d goroutines (%s)", al.Comment, FuncName(fn), len(ws), strings.Join(ws, ", "))
				}
			}
		}
	}
	c.Check(rule, "goroutines:one-writer-per-captured-variable", p, 0, bad == "", fmt.Sprintf("%d functions that start several goroutines inspected: no captured variable is assigned by more than one of them", n), bad+": the goroutines race on it and the last writer decides what the function returns — a failed write of the response can be reported as success (the agent is told 200, the client waits for its 504), or a bookkeeping failure fails a response that was stored")
}

// ruleWaitWindowNotInherited: the wait loops of the App Engine proxy (30 s for a response, the
// long poll for pending requests) build their own deadline on top of the context they are
// given; a deadline can only be shortened by a child context, so the context handed to them must
// not already carry one made by the caller (a 10 s write timeout declared at function scope
// silently becomes the response window).
func ruleWaitWindowNotInherited(c *Ctx, p *Prog, rule string) {
	n := 0
	bad := ""
	for _, fn := range p.AllFuncsIn("app") {
		EachInstrRaw(fn, func(i ssa.Instruction) {
			cc := CallOf(i)
			if cc == nil {
				return
			}
			switch CalleeName(cc) {
			case ModPath + "/app.waitForResponse", ModPath + "/app.waitForNextRequests":
			default:
				return
			}
			n++
			var walk func(v ssa.Value, d int)
			walk = func(v ssa.Value, d int) {
				if d > 6 {
					return
				}
				for _, r := range Roots(v) {
					var call *ssa.Call
					switch x := r.(type) {
					case *ssa.Extract:
						call, _ = x.Tuple.(*ssa.Call)
					case *ssa.Call:
						call = x
					}
					if call == nil {
						continue
					}
					switch CalleeName(call.Common()) {
					case "context.WithTimeout", "context.WithDeadline":
						bad = CalleeName(cc)[strings.LastIndex(CalleeName(cc), ".")+1:] + " in " + FuncName(fn) + " is given a context made by " + CalleeName(call.Common()) + " at " + p.Pos(call.Pos())
					case "context.WithCancel", "context.WithValue", "context.WithoutCancel":
						walk(call.Call.Args[0], d+1)
					}
				}
			}
			walk(PArgs(cc)[0], 0)
		})
	}
	c.Check(rule, "wait-loops:window-not-shortened-by-the-caller", p, 0, bad == "" && n >= 2, fmt.Sprintf("%d calls of the wait loops: the context they receive carries no deadline of the caller's making", n), bad+": the loop's own WithTimeout can only shorten that deadline, so the wait ends early — a response posted within the documented window is accepted from the agent while the client has already been answered 504")
}

// ruleNoOwnCopyLoop: the reader and writer types on the response/upload path define no WriteTo
// or ReadFrom of their own. io.Copy (which http.Transport uses to send a request body, and
// io.NopCloser forwards) prefers those methods over Read/Write: merely adding one reroutes every
// upload off the path whose replay, fencing and single-read behaviour is established — a WriteTo
// that emits the retained prefix and then continues through Read sends that prefix twice.
func ruleNoOwnCopyLoop(c *Ctx, p *Prog, rule string, pkgs ...string) {
	n := 0
	bad := ""
	for _, pk := range pkgs {
		for _, t := range p.NamedTypesIn(pk) {
			ms := p.MethodsOf(t)
			rw := false
			for _, m := range ms {
				if m.Name() == "Read" || m.Name() == "Write" {
					rw = true
				}
			}
			if !rw {
				continue
			}
			n++
			for _, m := range ms {
				if (m.Name() == "WriteTo" || m.Name() == "ReadFrom") && m.Synthetic == "" {
					bad = NamedTypeRel(t) + " declares " + m.Name() + " at " + p.Pos(m.Pos())
				}
			}
		}
	}
	c.Check(rule, "copy:no-own-copy-loop:"+strings.Join(pkgs, ","), p, 0, bad == "" && n >= 1, fmt.Sprintf("%d reader/writer types inspected: none declares WriteTo or ReadFrom", n), bad+": io.Copy and http.Transport hand the whole transfer to that method instead of calling Read/Write, so the replay and single-read discipline established for Read no longer governs what is sent (a retried upload can carry its prefix twice)")
}

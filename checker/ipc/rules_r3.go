package ipc

// Rules added after the third round of independently seeded changes.

import (
	"fmt"
	"go/types"
	"strings"

	"golang.org/x/tools/go/ssa"
)

// ruleForgetSites (C12.U): every connections.Delete in the shim, including
// those in nested callbacks, belongs to the close endpoint or the poll endpoint.
func ruleForgetSites(c *Ctx, p *Prog, rule string, se *shimEndpoints) {
	n := 0
	seen := map[ssa.Instruction]bool{}
	for _, fn := range WithClosures(se.Create) {
		EachInstr(fn, func(i ssa.Instruction) {
			if !IsCall(i, "(*sync.Map).Delete") || seen[i] {
				return
			}
			seen[i] = true
			n++
			owner := Owner(i)
			ok := owner == se.ByName["close"] || owner == se.ByName["poll"]
			if isBoundWrapper(owner) {
				ok = false
			}
			for _, nm := range []string{"close", "poll"} {
				if ep := se.ByName[nm]; ep != nil && (owner == ep || inSplicedBody(ep, i)) {
					ok = true
				}
			}
			c.Check(rule, fmt.Sprintf("forget-site#%d:in-close-or-poll", n), p, i.Pos(), ok, "the session is forgotten by the close endpoint or by the poll endpoint itself", "a session is deleted from the table in "+FuncName(fn)+" (a callback / another endpoint): e.g. an error callback that forgets the session when the backend closes makes the next poll answer 'unknown session' instead of delivering the messages already received")
		})
	}
	if n == 0 {
		c.Unk(rule, "forget-sites", p, se.Create.Pos(), "no connections.Delete found in the shim")
	}
}

// ruleParamOnlyPassedTo: parameter idx of fn is only passed on, as argument
// argIdx, to callee (and otherwise unused): it is not stored, captured or
// given to anything else.
func ruleParamOnlyPassedTo(c *Ctx, p *Prog, rule, key string, fn *ssa.Function, idx int, callee string, argIdx int, good, bad string) {
	if fn == nil || idx >= len(fn.Params) {
		c.Unk(rule, key, p, 0, "function or parameter not found")
		return
	}
	prm := fn.Params[idx]
	why := ""
	uses := 0
	for _, r := range Refs(prm) {
		switch x := r.(type) {
		case *ssa.DebugRef:
		case *ssa.Call:
			a := Args(x.Common())
			if CalleeName(x.Common()) == callee && argIdx < len(a) && a[argIdx] == ssa.Value(prm) {
				uses++
				continue
			}
			why = "passed to " + CalleeName(x.Common()) + " at " + p.Pos(x.Pos())
		default:
			why = fmt.Sprintf("used by %T at %s (stored in a struct, captured by a closure or handed on)", r, p.Pos(r.Pos()))
		}
	}
	c.Check(rule, key, p, fn.Pos(), why == "" && uses == 1, good, bad+" ("+why+")")
}

// ruleNoGetBody (C06.A): the upload request is not replayable by net/http on
// its own: GetBody is never set and the body handed to NewRequest is not one
// of the types for which NewRequest sets it.
func ruleNoGetBody(c *Ctx, p *Prog, rule string) {
	sts := StoresToField(p.FuncsIn("agent/utils"), "net/http.Request", "GetBody")
	bad := ""
	if len(sts) > 0 {
		bad = "Request.GetBody is set at " + p.Pos(sts[0].Pos())
	}
	if f := p.Func("agent/utils.postResponseWithRetries"); f != nil {
		for _, nr := range Calls(f, "net/http.NewRequest", "net/http.NewRequestWithContext") {
			a := CallOf(nr).Args
			body := a[len(a)-1]
			if mi, ok := body.(*ssa.MakeInterface); ok {
				switch NamedType(mi.X.Type()) {
				case "bytes.Buffer", "bytes.Reader", "strings.Reader":
					bad = "the upload body is a " + NamedType(mi.X.Type()) + ": http.NewRequest sets GetBody for it"
				}
			}
		}
	}
	c.Check(rule, "upload:not-replayable-by-net/http", p, 0, bad == "", "the upload request has no GetBody: http.Client and the transport never re-send it on their own (307/308 redirects are returned to the retry loop, a dead keep-alive connection is an error)", bad+": http.Client then follows up to 10 redirects and the transport replays on stale connections inside a single client.Do — the three-attempt bound of the retry loop no longer bounds the number of uploads")
}

// ruleDecodedPointersChecked (C07.N): elements of a slice of pointers filled
// by encoding/json (a JSON null yields a nil pointer) are nil-checked before
// they are dereferenced.
func ruleDecodedPointersChecked(c *Ctx, p *Prog, rule string, pkgs ...string) {
	n := 0
	for _, pk := range pkgs {
		for _, fn := range p.FuncsIn(pk) {
			EachInstrRaw(fn, func(i ssa.Instruction) {
				if !IsCall(i, "encoding/json.Unmarshal", "(*encoding/json.Decoder).Decode") {
					return
				}
				n++
				a := Args(CallOf(i))
				tgt := a[len(a)-1]
				if mi, ok := tgt.(*ssa.MakeInterface); ok {
					tgt = mi.X
				}
				pt, ok := tgt.Type().Underlying().(*types.Pointer)
				if !ok {
					return
				}
				elemPtr := false
				switch u := pt.Elem().Underlying().(type) {
				case *types.Slice:
					_, elemPtr = u.Elem().Underlying().(*types.Pointer)
				case *types.Array:
					_, elemPtr = u.Elem().Underlying().(*types.Pointer)
				case *types.Map:
					_, elemPtr = u.Elem().Underlying().(*types.Pointer)
				}
				if !elemPtr {
					c.OK(rule, fmt.Sprintf("json-target:%s#%d", FuncName(fn), n), p, i.Pos(), "the decode target holds values, not pointers: a JSON null cannot produce a nil element")
					return
				}
				// every dereference of an element in this function must be nil-guarded
				bad := ""
				EachInstr(fn, func(j ssa.Instruction) {
					var base ssa.Value
					switch x := j.(type) {
					case *ssa.FieldAddr:
						base = x.X
					case *ssa.UnOp:
						return
					default:
						return
					}
					if _, isPtr := base.Type().Underlying().(*types.Pointer); !isPtr {
						return
					}
					fromElem := false
					for _, r := range Roots(base) {
						if u, ok := r.(*ssa.UnOp); ok {
							if ia, ok := u.X.(*ssa.IndexAddr); ok {
								for _, rr := range Roots(ia.X) {
									if uu, ok := rr.(*ssa.UnOp); ok && uu.X == tgt {
										fromElem = true
									}
								}
							}
						}
					}
					if !fromElem {
						return
					}
					guarded := false
					for _, g := range GuardConds(j) {
						if bo, ok := g.Cond.(*ssa.BinOp); ok {
							if (IsNilConst(bo.Y) && SameValue(bo.X, base)) || (IsNilConst(bo.X) && SameValue(bo.Y, base)) {
								guarded = true
							}
						}
					}
					if !guarded {
						bad = p.Pos(j.Pos())
					}
				})
				c.Check(rule, fmt.Sprintf("json-target:%s#%d", FuncName(fn), n), p, i.Pos(), bad == "", "elements decoded as pointers are nil-checked before use", "the decode target in "+FuncName(fn)+" is a collection of pointers and an element is dereferenced without a nil test at "+bad+": a JSON `null` element makes the handler panic, and a panic on the worker goroutine (no http.Server recovers it) terminates the whole agent")
			})
		}
	}
	if n == 0 {
		c.Unk(rule, "json-targets", p, 0, "no JSON decode site found in "+strings.Join(pkgs, ","))
	}
}

// ruleNoCloseUnderOtherSenders (C07.C): a channel made in a function of the
// given packages is not closed by one goroutine while another goroutine can
// still send on it (send on closed channel panics; nothing recovers it).
func ruleNoCloseUnderOtherSenders(c *Ctx, p *Prog, rule string, pkgs ...string) {
	n := 0
	for _, pk := range pkgs {
		for _, fn := range p.FuncsIn(pk) {
			if fn.Parent() != nil {
				continue
			}
			var chans []*ssa.MakeChan
			for _, f := range WithClosures(fn) {
				EachInstrRaw(f, func(i ssa.Instruction) {
					if mc, ok := i.(*ssa.MakeChan); ok {
						chans = append(chans, mc)
					}
				})
			}
			for _, mc := range chans {
				var senders, closers []ssa.Instruction
				for _, f := range WithClosures(fn) {
					for _, op := range ChanOpsOf(f) {
						is := false
						for _, r := range Roots(op.Chan) {
							if r == ssa.Value(mc) {
								is = true
							}
						}
						if !is || op.Instr.Parent() != f {
							continue
						}
						switch op.Kind {
						case "send":
							senders = append(senders, op.Instr)
						case "close":
							closers = append(closers, op.Instr)
						}
					}
				}
				if len(closers) == 0 {
					continue
				}
				n++
				bad := ""
				for _, cl := range closers {
					waits := len(Calls(Owner(cl), "(*sync.WaitGroup).Wait")) > 0
					for _, s := range senders {
						if Owner(s) != Owner(cl) && !waits {
							bad = "closed in " + FuncName(Owner(cl)) + " (" + p.Pos(cl.Pos()) + ") while " + FuncName(Owner(s)) + " sends on it (" + p.Pos(s.Pos()) + ")"
						}
					}
				}
				c.Check(rule, fmt.Sprintf("chan@%s:closed-by-its-only-sender", p.Pos(mc.Pos())), p, mc.Pos(), bad == "", "the channel is closed by the goroutine that is its only sender (or after a WaitGroup.Wait for the senders)", "channel made at "+p.Pos(mc.Pos())+" is "+bad+": a late send panics with 'send on closed channel' on a goroutine nobody recovers, which terminates the agent and every request in flight")
			}
		}
	}
	if n == 0 {
		c.Unk(rule, "closed-channels", p, 0, "no closed channel found in "+strings.Join(pkgs, ","))
	}
}

// ruleClosedCheckedBeforeEnqueue (C12.U): SendClientMessage tests the closed
// state with a non-blocking receive before (dominating) the select that
// enqueues the message — a single select over {enqueue, closed} picks a ready
// case at random and accepts messages for closed sessions.
func ruleClosedCheckedBeforeEnqueue(c *Ctx, p *Prog, rule string) {
	f := c.need(p, rule, "agent/websockets.(*Connection).SendClientMessage")
	if f == nil {
		return
	}
	ops := ChanOpsOf(f)
	var send *ChanOp
	for k := range ops {
		if ops[k].Kind == "send" {
			if _, fld, ok := FieldLoad(Roots(ops[k].Chan)[0]); ok && fld == "clientMessages" {
				send = &ops[k]
			}
		}
	}
	if send == nil {
		c.Unk(rule, "data:closed-checked-before-enqueue", p, f.Pos(), "no send on clientMessages found in SendClientMessage")
		return
	}
	ok := false
	for _, op := range ops {
		if op.Kind != "recv" || !op.InSelect || !op.HasDefault || op.Select == send.Select {
			continue
		}
		isClosed := isDoneChan(op.Chan)
		if _, fld, okf := FieldLoad(Roots(op.Chan)[0]); okf && fld == "closed" {
			isClosed = true
		}
		if isClosed && Dominates(op.Instr, send.Instr) {
			ok = true
		}
	}
	c.Check(rule, "data:closed-checked-before-enqueue", p, send.Instr.Pos(), ok, "a non-blocking test of the closed/done state dominates the enqueueing select: a message for a closed connection is always refused", "SendClientMessage does not test the closed state (non-blocking receive on closed/done) before the select that enqueues the message: with both cases ready Go picks one at random, so a data call on a closed session is answered 200 about half the time and its message is dropped into a queue nobody reads")
}

// ruleRequestUntouchedByDispatcher (C13.M): the shim dispatcher writes nothing
// through the request it passes on (no store through r.URL or other pointers
// reachable from r).
func ruleRequestUntouchedByDispatcher(c *Ctx, p *Prog, rule string, disp *ssa.Function) {
	bad := ""
	rp := P(disp, 1)
	EachInstr(disp, func(i ssa.Instruction) {
		st, ok := i.(*ssa.Store)
		if !ok {
			return
		}
		var base ssa.Value
		switch a := st.Addr.(type) {
		case *ssa.FieldAddr:
			base = a.X
		case *ssa.IndexAddr:
			base = a.X
		default:
			return
		}
		pth := PathOf(base)
		if pth == rp || strings.HasPrefix(pth, rp+".") || strings.HasPrefix(pth, "*"+rp+".") || strings.HasPrefix(pth, "&"+rp+".") {
			bad = "store through " + pth + " at " + p.Pos(st.Pos())
		}
	})
	for _, call := range Calls(disp, "(net/http.Header).Set", "(net/http.Header).Add", "(net/http.Header).Del") {
		if pth := PathOf(Args(CallOf(call))[0]); strings.HasPrefix(pth, rp+".") {
			bad = "header mutation on " + pth + " at " + p.Pos(call.Pos())
		}
	}
	c.Check(rule, "dispatch:request-untouched", p, disp.Pos(), bad == "", "the dispatcher stores nothing through the request it hands on (URL, header, fields)", "the shim dispatcher modifies the request before routing it ("+bad+"): `u := r.URL` copies the pointer, so cleaning u.Path rewrites the live request — non-shim requests reach the backend with a different path and unclean paths outside the prefix are captured by the shim")
}

// ruleSingleWebsocketWriter (C15.P): on bridge connections data frames are
// written only by WebsocketNetConn.Write (gorilla allows one concurrent
// writer; only WriteControl may be used from another goroutine).
func ruleSingleWebsocketWriter(c *Ctx, p *Prog, rule string) {
	writers := []string{"(*github.com/gorilla/websocket.Conn).WriteMessage", "(*github.com/gorilla/websocket.Conn).WriteJSON", "(*github.com/gorilla/websocket.Conn).NextWriter", "(*github.com/gorilla/websocket.Conn).WritePreparedMessage"}
	n := 0
	bad := ""
	for _, pk := range []string{"utils/tcpbridge/connection", "utils/tcpbridge/tcp-bridge-frontend", "utils/tcpbridge/tcp-bridge-backend"} {
		for _, fn := range p.FuncsIn(pk) {
			EachInstrRaw(fn, func(i ssa.Instruction) {
				if IsCall(i, writers...) {
					n++
					if FuncName(Owner(i)) != "utils/tcpbridge/connection.(*WebsocketNetConn).Write" {
						bad = FuncName(fn) + " at " + p.Pos(i.Pos())
					}
				}
			})
		}
	}
	c.Check(rule, "websocket:single-writer", p, 0, n >= 1 && bad == "", "WriteMessage is only called from WebsocketNetConn.Write, i.e. from the one io.Copy goroutine that writes to that connection", "a websocket data/ping frame is written outside WebsocketNetConn.Write ("+bad+"): gorilla/websocket allows one concurrent writer (only WriteControl is safe from another goroutine), so a keep-alive or side write during a data write corrupts the frame stream or panics with 'concurrent write to websocket connection', killing the bridge process")
}

// ruleDialContextNotRetained (C15/C16): DialWebsocket uses its context for
// the dial only: no goroutine, no wait on ctx.Done().
func ruleDialContextNotRetained(c *Ctx, p *Prog, rule string) {
	f := c.need(p, rule, "utils/tcpbridge/connection.DialWebsocket")
	if f == nil {
		return
	}
	bad := ""
	for _, fn := range WithClosures(f) {
		EachInstrRaw(fn, func(i ssa.Instruction) {
			if _, isGo := i.(*ssa.Go); isGo {
				bad = "starts a goroutine at " + p.Pos(i.Pos())
			}
			if cc := CallOf(i); cc != nil && cc.IsInvoke() && cc.Method.Name() == "Done" && NamedType(cc.Value.Type()) == "context.Context" {
				bad = "waits on ctx.Done() at " + p.Pos(i.Pos())
			}
		})
	}
	c.Check(rule, "dial:context-only-for-dialling", p, f.Pos(), bad == "", "DialWebsocket hands its context to the dialer only: the established connection does not depend on it", "DialWebsocket keeps using its context after the dial ("+bad+"): a dial timeout/cancel of the caller then closes the established tunnel under both copy directions, and in-flight bytes are lost")
}

// ruleNoRawDescriptor (C16.A): no File()/Fd()/SyscallConn on bridge sockets.
func ruleNoRawDescriptor(c *Ctx, p *Prog, rule string) {
	n := 0
	var hits []ssa.Instruction
	for _, pk := range []string{"utils/tcpbridge/connection", "utils/tcpbridge/tcp-bridge-frontend", "utils/tcpbridge/tcp-bridge-backend"} {
		for _, fn := range p.FuncsIn(pk) {
			EachInstrRaw(fn, func(i ssa.Instruction) {
				cc := CallOf(i)
				if cc == nil {
					return
				}
				n++
				name := CalleeName(cc)
				if strings.HasSuffix(name, "net.TCPConn).File") || name == "(*os.File).Fd" || strings.HasSuffix(name, ").SyscallConn") || strings.HasPrefix(name, "syscall.Setsockopt") {
					hits = append(hits, i)
				}
			})
		}
	}
	c.Check(rule, "close:no-raw-descriptor-access", p, posOf(hits), len(hits) == 0 && n > 30, "bridge sockets are only used through net.Conn: Close() from another goroutine always unblocks a pending Read", "a bridge socket's descriptor is taken out with File()/Fd()/SyscallConn at "+posStr(p, firstOf(hits))+": (*os.File).Fd switches the shared file description to blocking mode, after which Close() waits for an in-flight Read instead of interrupting it — closeBoth() hangs and the other peer never sees end-of-stream")
}

// ruleAcquiredThenDeferred (C16.D): after a connection was acquired, no path
// to a return skips its deferred Close, except the acquisition's own error branch.
func ruleAcquiredThenDeferred(c *Ctx, p *Prog, rule string, fn *ssa.Function, acq ssa.Instruction, isRelease func(ssa.Instruction) bool, key string) {
	// the error branch of the acquisition
	var errIf *ssa.If
	errSucc := 0
	if v, ok := acq.(ssa.Value); ok {
		for _, r := range Refs(v) {
			if e, ok := r.(*ssa.Extract); ok {
				for _, u := range Refs(e) {
					if bo, ok := u.(*ssa.BinOp); ok {
						for _, uu := range Refs(bo) {
							if ifi, ok := uu.(*ssa.If); ok {
								if _, s, ok := ErrNilTest(ifi); ok {
									errIf, errSucc = ifi, s
								}
							}
						}
					}
				}
			}
		}
	}
	if errIf == nil {
		c.Unk(rule, key, p, acq.Pos(), "the acquisition's error is not tested")
		return
	}
	okBlk := errIf.Block().Succs[1-errSucc]
	hit, path := (&Walk{Target: IsReturn, Avoid: isRelease}).FromBlock(okBlk)
	c.Check(rule, key, p, acq.Pos(), hit == nil, "once the connection was obtained every path to a return passes its deferred Close", "after the connection was obtained a path returns without its Close having been deferred ("+PathString(p, path)+"): e.g. the backend is dialled first and a failing websocket upgrade returns before `defer backendConn.Close()` — the backend connection outlives both endpoints")
}

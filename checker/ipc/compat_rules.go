package ipc

// Rules about the party that is NOT changed together with the code under analysis: the other
// implementation of the agent<->proxy protocol, an agent / page / bridge end of the previous
// build, entities and cache entries written before an upgrade, command lines of existing
// deployments. Each rule pins one fact that party relies on and that is visible in the shape
// of the current source: which exchanges the agent starts, which headers a receiver lets
// decide, which fields a stored or cached struct has and which of them decide, which flag
// decides what.

import (
	"fmt"
	"go/constant"
	"go/token"
	"go/types"
	"sort"
	"strings"

	"golang.org/x/tools/go/ssa"
)

// ---------------------------------------------------------------- forward "decides" walk

func isCompareOp(op token.Token) bool {
	switch op {
	case token.EQL, token.NEQ, token.LSS, token.LEQ, token.GTR, token.GEQ:
		return true
	}
	return false
}

func isLogCall(cc *ssa.CallCommon) bool {
	n := CalleeName(cc)
	return strings.HasPrefix(n, "log.") || strings.HasPrefix(n, "(*log.Logger).") || n == "fmt.Print" || n == "fmt.Println" || n == "fmt.Printf"
}

// decisiveUse follows the value v forward (loads, conversions, phis, arithmetic, results of
// library calls it is passed to, parameters of module functions it is passed to) and returns
// the first instruction at which it takes part in a decision: an operand of a comparison, the
// condition of a branch, or the key of a map access. Copies into a field of the same name,
// log calls and plain data sinks (header values, bodies) are not decisions.
func decisiveUse(p *Prog, v ssa.Value, sameName string) ssa.Instruction {
	seen := map[ssa.Value]bool{}
	var rec func(v ssa.Value, depth int) ssa.Instruction
	rec = func(v ssa.Value, depth int) ssa.Instruction {
		if v == nil || seen[v] || depth > 40 {
			return nil
		}
		seen[v] = true
		refs := v.Referrers()
		if refs == nil {
			return nil
		}
		for _, r := range *refs {
			switch x := r.(type) {
			case *ssa.BinOp:
				if isCompareOp(x.Op) {
					return x
				}
				if d := rec(x, depth+1); d != nil {
					return d
				}
			case *ssa.If:
				return x
			case *ssa.Lookup:
				if x.Index == v {
					if _, isMap := x.X.Type().Underlying().(*types.Map); isMap {
						return x
					}
				}
				if d := rec(x, depth+1); d != nil {
					return d
				}
			case *ssa.MapUpdate:
				if x.Key == v {
					return x
				}
			case *ssa.Store:
				if x.Val != v {
					continue
				}
				if _, f, ok := FieldAddrOf(x.Addr); ok {
					if f == sameName {
						continue
					}
					continue // stored into another record: data, not a decision
				}
				if cell, ok := x.Addr.(*ssa.Alloc); ok {
					if d := rec(cell, depth+1); d != nil {
						return d
					}
				}
			case *ssa.UnOp:
				if x.Op == token.NOT || x.Op == token.MUL || x.Op == token.SUB || x.Op == token.XOR {
					if d := rec(x, depth+1); d != nil {
						return d
					}
				}
			case *ssa.Phi, *ssa.Convert, *ssa.ChangeType, *ssa.MakeInterface, *ssa.Extract, *ssa.Slice, *ssa.Index, *ssa.IndexAddr, *ssa.TypeAssert, *ssa.ChangeInterface, *ssa.Field, *ssa.FieldAddr:
				if d := rec(x.(ssa.Value), depth+1); d != nil {
					return d
				}
			case ssa.CallInstruction:
				cc := x.Common()
				if isLogCall(cc) {
					continue
				}
				if callee := cc.StaticCallee(); callee != nil && p.IsModFunc(callee) && len(callee.Blocks) > 0 {
					for k, a := range cc.Args {
						if a == v && k < len(callee.Params) {
							if d := rec(callee.Params[k], depth+5); d != nil {
								return d
							}
						}
					}
					continue
				}
				if cv, ok := x.(*ssa.Call); ok {
					// a library call: what it computes from the value may decide later
					if d := rec(cv, depth+1); d != nil {
						return d
					}
				}
			}
		}
		return nil
	}
	return rec(v, 0)
}

func namedOf(t types.Type) *types.Named {
	for {
		pt, ok := t.Underlying().(*types.Pointer)
		if !ok {
			break
		}
		t = pt.Elem()
	}
	n, _ := t.(*types.Named)
	return n
}

// ruleNewWireFieldNotDecisive: a struct that crosses a version boundary — it is stored in the
// datastore, gob-encoded into memcache, or decoded from the JSON another build's page sends —
// may grow fields, but a field the previous build never wrote arrives as its zero value, for
// as long as old entities, cache entries, tabs and agents exist. Such a field must not decide
// anything: no comparison, branch or map key may depend on it.
func ruleNewWireFieldNotDecisive(c *Ctx, p *Prog, rule, what string, typeNames ...string) {
	for _, ent := range typeNames {
		k := strings.LastIndex(ent, ".")
		rel, name := ent[:k], ent[k+1:]
		key := "wire:" + ent + ":fields-the-other-side-never-wrote-decide-nothing"
		pk := p.ModPkgs[ModPath+"/"+rel]
		if pk == nil {
			c.Unk(rule, key, p, 0, "package "+rel+" not loaded")
			continue
		}
		var tn *types.TypeName
		for _, n := range pk.Types.Scope().Names() {
			if t, isT := pk.Types.Scope().Lookup(n).(*types.TypeName); isT && objName(t) == name {
				tn = t
			}
		}
		if tn == nil {
			c.Unk(rule, key, p, 0, "type "+ent+" not found (renamed or removed)")
			continue
		}
		st, _ := tn.Type().Underlying().(*types.Struct)
		if st == nil {
			c.Unk(rule, key, p, tn.Pos(), ent+" is no longer a struct")
			continue
		}
		newIdx := map[int]*types.Var{}
		for i := 0; i < st.NumFields(); i++ {
			if f, isNew := isNewFieldOfPinnedStruct(tn.Type(), i); isNew {
				newIdx[i] = f
			}
		}
		bad := ""
		reads := 0
		if len(newIdx) > 0 {
			for _, fn := range p.AllFuncs {
				if !p.IsModFunc(fn) {
					continue
				}
				EachInstrRaw(fn, func(i ssa.Instruction) {
					var x ssa.Value
					var idx int
					switch y := i.(type) {
					case *ssa.FieldAddr:
						x, idx = y.X, y.Field
					case *ssa.Field:
						x, idx = y.X, y.Field
					default:
						return
					}
					n := namedOf(x.Type())
					if n == nil || n.Obj() != tn {
						return
					}
					f, isNew := newIdx[idx]
					if !isNew {
						return
					}
					reads++
					if d := decisiveUse(p, i.(ssa.Value), f.Name()); d != nil && bad == "" {
						bad = fmt.Sprintf("the new field %s.%s decides at %s (in %s)", name, f.Name(), p.Pos(d.Pos()), FuncName(d.Parent()))
					}
				})
			}
		}
		var names []string
		for _, f := range newIdx {
			names = append(names, f.Name())
		}
		sort.Strings(names)
		c.Check(rule, key, p, tn.Pos(), bad == "", fmt.Sprintf("%s has %d field(s) beyond the ones every build wrote %v; none of them takes part in a comparison, branch or map key (%d access(es) followed)", ent, len(newIdx), names, reads), bad+": "+what)
	}
}

// ruleGobFieldsStable: a struct that is gob-encoded into memcache keeps the names and types
// of the fields the deployed build encodes: gob matches fields by name and silently skips
// the ones the reader does not have, so a renamed field is decoded as its zero value for as
// long as instances of the two builds share the cache (the three App Engine services are
// deployed one by one and share it permanently).
func ruleGobFieldsStable(c *Ctx, p *Prog, rule, what string, typeNames ...string) {
	pn := pinnedTable()
	for _, ent := range typeNames {
		k := strings.LastIndex(ent, ".")
		rel, name := ent[:k], ent[k+1:]
		key := "wire:" + ent + ":encoded-fields-keep-name-and-type"
		pk := p.ModPkgs[ModPath+"/"+rel]
		if pk == nil || pn.Pkgs == nil || pn.Pkgs[rel] == nil {
			c.Unk(rule, key, p, 0, "package "+rel+" not loaded")
			continue
		}
		fp, ok := pn.Pkgs[rel].Types[name]
		if !ok {
			c.Unk(rule, key, p, 0, "no pinned definition of "+ent)
			continue
		}
		var st *types.Struct
		var pos token.Pos
		for _, n := range pk.Types.Scope().Names() {
			if tn, isT := pk.Types.Scope().Lookup(n).(*types.TypeName); isT && objName(tn) == name {
				st, _ = tn.Type().Underlying().(*types.Struct)
				pos = tn.Pos()
			}
		}
		if st == nil {
			c.Unk(rule, key, p, 0, "type "+ent+" not found (renamed or removed)")
			continue
		}
		bad := ""
		for _, f := range fp.Fields {
			sp := strings.Index(f, " ")
			fname, ftype := f[:sp], f[sp+1:]
			found := false
			for i := 0; i < st.NumFields(); i++ {
				if st.Field(i).Name() != fname {
					continue
				}
				found = true
				if got := typeStr(st.Field(i).Type()); got != ftype {
					bad = fmt.Sprintf("field %s changed its type from %s to %s", fname, ftype, got)
				}
			}
			if !found {
				bad = "field " + fname + " no longer exists under that name"
			}
		}
		c.Check(rule, key, p, pos, bad == "", fmt.Sprintf("all %d fields %s has ever been encoded with are still there under their names and types", len(fp.Fields), ent), ent+": "+bad+": "+what)
	}
}

// ---------------------------------------------------------------- blob layout

// ruleBlobLayout: a stored blob is its inlined prefix followed by its parts, for the writer
// and for the reader: entities written by the deployed build (and read by it: the three
// services are deployed one by one) have that layout.
func ruleBlobLayout(c *Ctx, p *Prog, rule string) {
	rd := c.need(p, rule, "app/store.(*blob).read")
	nb := c.need(p, rule, "app/store.newBlob")
	if rd != nil {
		bad := ""
		n := 0
		for _, ret := range Returns(rd) {
			if len(ret.Results) != 2 || !IsNilConst(ret.Results[1]) {
				continue
			}
			n++
			hasInlined := false
			SliceBack(ret.Results[0], func(v ssa.Value) bool {
				if _, f, ok := FieldAddrOf(v); ok && f == "Inlined" {
					hasInlined = true
				}
				if fl, ok := v.(*ssa.Field); ok && fieldName(fl.X.Type(), fl.Field) == "Inlined" {
					hasInlined = true
				}
				return !hasInlined
			})
			if !hasInlined {
				bad = "the bytes returned at " + p.Pos(ret.Pos()) + " are not built from the Inlined field"
			}
		}
		c.Check(rule, "blob:read-starts-with-the-inlined-prefix", p, rd.Pos(), bad == "" && n > 0, fmt.Sprintf("every successful return of (*blob).read (%d) hands out bytes that start from the Inlined field", n), bad+": a blob stored by the deployed build keeps its first 1,000,000 bytes inline and only the rest in parts — read back without them, a large request or response loses its head (status line, headers) and the client is answered 500 or a mid-body fragment")
	}
	if nb != nil && len(nb.Params) >= 2 {
		src := nb.Params[1]
		bad := ""
		var cut constant.Value
		nlit := 0
		EachInstrRaw(nb, func(i ssa.Instruction) {
			st, ok := i.(*ssa.Store)
			if !ok {
				return
			}
			base, fld, ok := FieldAddrOf(st.Addr)
			if !ok || fld != "Inlined" || NamedTypeRel(base.Type()) != "app/store.blob" {
				return
			}
			nlit++
			v := st.Val
			if !slicedFrom(v, src) {
				bad = "Inlined is " + PathOf(v) + " at " + p.Pos(st.Pos())
				return
			}
			if sl, isS := v.(*ssa.Slice); isS {
				if sl.Low != nil && !isZeroConst(sl.Low) {
					bad = "the inlined prefix does not start at byte 0 at " + p.Pos(sl.Pos())
				}
				if hc, isC := sl.High.(*ssa.Const); isC && hc.Value != nil {
					cut = hc.Value
				}
			}
		})
		for _, call := range Calls(nb, ModPath+"/app/store.writeBlobParts") {
			a := PArgs(CallOf(call))
			if len(a) < 2 {
				continue
			}
			sl, isS := a[1].(*ssa.Slice)
			if !isS || !slicedFrom(sl.X, src) {
				bad = "the parts are cut from " + PathOf(a[1]) + " at " + p.Pos(call.Pos())
				continue
			}
			lc, isC := sl.Low.(*ssa.Const)
			if !isC || lc.Value == nil || cut == nil || !constant.Compare(lc.Value, token.EQL, cut) {
				bad = "the parts do not start where the inlined prefix ends at " + p.Pos(call.Pos())
			}
		}
		c.Check(rule, "blob:write-inlines-the-prefix-and-parts-the-rest", p, nb.Pos(), bad == "" && nlit > 0, fmt.Sprintf("newBlob keeps bytes[0:limit] inline and hands bytes[limit:] to writeBlobParts (%d literal(s))", nlit), bad+": readers of the deployed build (the agent service, or the default service, is upgraded later or rolled back) rebuild a blob as Inlined followed by the parts; with another split they hand out a body with a hole or a duplicate megabyte")
	}
}

// ---------------------------------------------------------------- agent -> proxy exchanges

// pinnedOwnersOf lifts an instruction through new helpers to the pinned functions it runs for.
func pinnedOwnersOf(i ssa.Instruction) []*ssa.Function {
	seen := map[*ssa.Function]bool{}
	var out []*ssa.Function
	var rec func(i ssa.Instruction, d int)
	rec = func(i ssa.Instruction, d int) {
		fn := TopFunc(i.Parent())
		if helperOf(fn) == nil || d > 6 {
			if !seen[fn] {
				seen[fn] = true
				out = append(out, fn)
			}
			return
		}
		sites := liftSites(i)
		if fn != i.Parent() {
			info := helperOf(fn)
			sites = nil
			for _, s := range info.sites {
				sites = append(sites, s)
			}
		}
		if len(sites) == 0 {
			if !seen[fn] {
				seen[fn] = true
				out = append(out, fn)
			}
			return
		}
		for _, s := range sites {
			rec(s, d+1)
		}
	}
	rec(i, 0)
	return out
}

// ruleAgentProxyExchanges: the agent starts exactly three kinds of exchange with the proxy —
// list the pending IDs, fetch one request, post one response. Both proxy implementations, and
// every older build of them, tell these apart by method and by which of the two ID headers is
// present (the stand-alone proxy: a backend ID without a request ID IS a list poll that takes
// the queued IDs; the App Engine proxy: every POST to agent/response IS an upload). A fourth
// kind of call (a probe, a "draining" or "gave up" notice) is therefore served as one of the
// three by a proxy that was not changed with the agent.
func ruleAgentProxyExchanges(c *Ctx, p *Prog, rule string) {
	allowed := map[string]string{
		"agent/utils.ListPendingRequests":     "list",
		"agent/utils.getRequestWithRetries":   "fetch",
		"agent/utils.ReadRequest":             "fetch",
		"agent/utils.postResponseWithRetries": "post",
	}
	n := 0
	for _, rel := range []string{"agent", "agent/utils", "agent/metrics", "agent/sessions", "agent/websockets", "agent/banner"} {
		for _, fn := range p.AllFuncsIn(rel) {
			for _, call := range Calls(fn, "(net/http.Header).Set", "(net/http.Header).Add") {
				a := CallOf(call).Args
				if len(a) < 2 {
					continue
				}
				k, ok := ConstString(a[1])
				if !ok || canonicalHeaderKey(k) != canonicalHeaderKey("X-Inverting-Proxy-Backend-ID") {
					continue
				}
				n++
				for _, o := range pinnedOwnersOf(call) {
					name := FuncName(o)
					kind, ok := allowed[name]
					key := "exchange:" + name + ":one-of-list-fetch-post"
					if ok {
						c.OK(rule, key, p, call.Pos(), "the backend ID is attached to the "+kind+" call in "+name)
					} else {
						c.Bad(rule, key, p, call.Pos(), "a request carrying the backend ID is built for "+name+" ("+FuncName(fn)+" at "+p.Pos(call.Pos())+"): a fourth kind of agent call. A stand-alone proxy that was not changed with the agent dispatches on the ID headers alone — a call with a backend ID and no request ID is a list poll that takes the queued request IDs (the agent throws them away: those clients are never answered), one with both IDs is a fetch or an upload; the App Engine proxy stores the body of any POST to agent/response as the response")
					}
				}
			}
		}
	}
	if n == 0 {
		c.Unk(rule, "exchange:sites", p, 0, "no site attaches the backend ID header to a request")
	}
}

// ruleReceiverHeadersDecide: the agent-facing endpoints of a proxy let only the two ID
// headers of the agent's request decide: agents of the deployed build send nothing else (a
// Content-Type of text/plain on uploads, no version), so a header that is newly required or
// compared rejects or misroutes every call of an agent that was not upgraded with the proxy.
func ruleReceiverHeadersDecide(c *Ctx, p *Prog, rule string, fnNames []string, allowedKeys ...string) {
	allowed := map[string]bool{}
	for _, k := range allowedKeys {
		allowed[canonicalHeaderKey(k)] = true
	}
	for _, name := range fnNames {
		fn := p.Func(name)
		key := "receiver:" + name + ":only-the-id-headers-decide"
		if fn == nil {
			c.Unk(rule, key, p, 0, "anchored function "+name+" not found")
			continue
		}
		bad := ""
		n := 0
		scope := []*ssa.Function{fn}
		for _, h := range p.AllFuncsIn(Rel(fnPkg(fn).Pkg.Path())) {
			if helperOf(h) != nil {
				for _, o := range ownersOfFunc(h) {
					if o == fn {
						scope = append(scope, h)
					}
				}
			}
		}
		for _, f := range scope {
			for _, call := range Calls(f, "(net/http.Header).Get", "(net/http.Header).Values") {
				cc := CallOf(call)
				if len(cc.Args) < 2 {
					continue
				}
				// only headers of a request
				if _, fld, ok := FieldLoad(cc.Args[0]); !ok || fld != "Header" {
					continue
				} else if b, _, _ := FieldLoad(cc.Args[0]); NamedType(b.Type()) != "net/http.Request" {
					continue
				}
				n++
				k, ok := ConstString(cc.Args[1])
				if !ok || allowed[canonicalHeaderKey(k)] {
					continue
				}
				cv, isV := call.(ssa.Value)
				if !isV {
					continue
				}
				if d := decisiveUse(p, cv, ""); d != nil {
					bad = fmt.Sprintf("the request header %q read in %s decides at %s", k, FuncName(f), p.Pos(d.Pos()))
				}
			}
		}
		c.Check(rule, key, p, fn.Pos(), bad == "", fmt.Sprintf("%s lets no header of the agent's request decide beyond the ID headers (%d header read(s))", name, n), bad+": an agent of the deployed build does not send that header (or sends the value it always sent), so its calls are rejected or handled as something else — its uploads are refused and dropped, the client times out")
	}
}

func ownersOfFunc(h *ssa.Function) []*ssa.Function {
	info := helperOf(h)
	if info == nil {
		return []*ssa.Function{h}
	}
	seen := map[*ssa.Function]bool{}
	var out []*ssa.Function
	for _, s := range info.sites {
		for _, o := range pinnedOwnersOf(s) {
			if !seen[o] {
				seen[o] = true
				out = append(out, o)
			}
		}
	}
	return out
}

// ruleUploadReadFailureIs5xx: the stand-alone proxy answers an upload whose body ends early
// with a 5xx: an agent retries exactly on 5xx (and on transport errors) and takes every other
// status as the acknowledgement of a complete upload.
func ruleUploadReadFailureIs5xx(c *Ctx, p *Prog, rule string) {
	fn := c.need(p, rule, "server.(*proxy).handleAgentPostResponse")
	if fn == nil {
		return
	}
	n := 0
	bad := ""
	for _, f := range WithClosures(fn) {
		for _, b := range f.Blocks {
			ifi := BlockIf(b)
			if ifi == nil {
				continue
			}
			v, nonNil, ok := ErrNilTest(ifi)
			if !ok || CallResult(v, 1, "io.Copy", "io.CopyBuffer", "io.ReadAll", "io/ioutil.ReadAll", "io.CopyN") == nil {
				continue
			}
			n++
			errBlk := b.Succs[nonNil]
			for _, bb := range f.Blocks {
				if !(bb == errBlk || errBlk.Dominates(bb)) || len(errBlk.Preds) != 1 {
					continue
				}
				for _, in := range bb.Instrs {
					cc := CallOf(in)
					if cc == nil {
						continue
					}
					var st ssa.Value
					switch CalleeName(cc) {
					case "net/http.Error":
						if len(cc.Args) >= 3 {
							st = cc.Args[2]
						}
					case "(net/http.ResponseWriter).WriteHeader":
						if len(cc.Args) >= 1 {
							st = cc.Args[len(cc.Args)-1]
						}
					}
					if st == nil {
						continue
					}
					if code, isC := ConstInt(st); isC && (code < 500 || code > 599) {
						bad = fmt.Sprintf("a failure while reading the uploaded body is answered %d at %s", code, p.Pos(in.Pos()))
					}
				}
			}
		}
	}
	c.Check(rule, "post:cut-short-upload-is-answered-5xx", p, fn.Pos(), bad == "", fmt.Sprintf("no reply with a status outside 5xx is written where the copy of the uploaded body has failed (%d test(s) of that error in the handler; a reply written by a shared error helper is not followed)", n), bad+": agents (of this and of every earlier build) retry an upload on 5xx only and take any other status as the acknowledgement — a response that arrived cut short is then acknowledged and never replayed")
}

// ruleProxyTimeoutAlwaysApplied: the HTTP client the agent talks to the proxy with gets
// --proxy-timeout on every start: it is the only bound on an upload attempt (and on a list
// or fetch call) against a proxy that accepts the connection and then says nothing.
func ruleProxyTimeoutAlwaysApplied(c *Ctx, p *Prog, rule string) {
	ra := c.need(p, rule, "agent.runAdapter")
	if ra == nil {
		return
	}
	poll := c.UniqueCall(rule, p, ra, false, ModPath+"/agent.pollForNewRequests")
	if poll == nil {
		return
	}
	ok := false
	where := ""
	scope := []*ssa.Function{ra}
	for _, h := range p.AllFuncsIn("agent") {
		if helperOf(h) != nil {
			scope = append(scope, h)
		}
	}
	for _, f := range scope {
		EachInstrRaw(f, func(i ssa.Instruction) {
			st, isS := i.(*ssa.Store)
			if !isS {
				return
			}
			base, fld, isF := FieldAddrOf(st.Addr)
			if !isF || fld != "Timeout" || NamedType(base.Type()) != "net/http.Client" {
				return
			}
			if PathOf(st.Val) != "**global:proxyTimeout" {
				where = "client.Timeout is set to " + PathOf(st.Val) + " at " + p.Pos(st.Pos())
				return
			}
			if Dominates(st, poll) {
				ok = true
			} else {
				where = "the assignment at " + p.Pos(st.Pos()) + " is not on every path to the polling loop"
			}
		})
	}
	if where == "" {
		where = "no assignment of *proxyTimeout to client.Timeout"
	}
	c.Check(rule, "runAdapter:proxy-timeout-always-applied", p, poll.Pos(), ok, "client.Timeout = *proxyTimeout on every path to the polling loop", where+": for the values it is skipped for, the client has no timeout at all — an upload attempt against a proxy that reads the body and never answers does not end, and Close(), the handler and the worker stay blocked for good")
}

// ---------------------------------------------------------------- sessions

// ruleEverySessionIDGetsAJar: cachedCookieJar makes a jar for whatever session ID it is
// given: a cookie issued by the previous build (or by another replica) is still presented
// for 12 hours. A format test on the ID turns those into an error the response path does
// not expect.
func ruleEverySessionIDGetsAJar(c *Ctx, p *Prog, rule string) {
	fn := c.need(p, rule, "agent/sessions.(*Cache).cachedCookieJar")
	if fn == nil || len(fn.Params) < 2 {
		return
	}
	id := fn.Params[1]
	bad := ""
	n := 0
	scope := []*ssa.Function{fn}
	for _, h := range p.AllFuncsIn("agent/sessions") {
		if helperOf(h) != nil {
			for _, o := range ownersOfFunc(h) {
				if o == fn {
					scope = append(scope, h)
				}
			}
		}
	}
	// branches of a function that depend on what its ID parameter looks like (not merely on whether
	// the cache has it, and not on whether some step failed)
	var inspect func(f *ssa.Function, id ssa.Value, depth int)
	var dependsOnID func(v, id ssa.Value, depth int) bool
	seenFn := map[*ssa.Function]bool{}
	dependsOnID = func(v, id ssa.Value, depth int) bool {
		hit := false
		SliceBack(v, func(x ssa.Value) bool {
			if hit {
				return false
			}
			if cl, ok := x.(*ssa.Call); ok {
				name := CalleeName(&cl.Call)
				if strings.HasSuffix(name, ".Get") || strings.HasSuffix(name, ".Peek") || strings.HasSuffix(name, ".Contains") {
					return false // the cache lookup by that ID
				}
				if strings.HasPrefix(name, "fmt.") || strings.HasPrefix(name, "errors.") || strings.HasPrefix(name, "log.") {
					return false // the ID quoted in a message
				}
				if callee := cl.Call.StaticCallee(); callee != nil && p.IsModFunc(callee) && len(callee.Blocks) > 0 && depth < 3 {
					for k, a := range cl.Call.Args {
						if !(a == id || sameRoot(a, id)) || k >= len(callee.Params) {
							continue
						}
						inspect(callee, callee.Params[k], depth+1)
						for _, ret := range Returns(callee) {
							for _, rv := range ret.Results {
								if types.Implements(rv.Type(), errorIface()) {
									continue
								}
								if dependsOnID(rv, callee.Params[k], depth+1) {
									hit = true
								}
							}
						}
					}
					return false
				}
			}
			if mi, ok := x.(*ssa.MakeInterface); ok && types.Implements(mi.X.Type(), errorIface()) {
				return false
			}
			if x == id {
				hit = true
				return false
			}
			return true
		})
		return hit
	}
	inspect = func(f *ssa.Function, id ssa.Value, depth int) {
		if seenFn[f] || depth > 3 {
			return
		}
		seenFn[f] = true
		for _, b := range f.Blocks {
			ifi := BlockIf(b)
			if ifi == nil {
				continue
			}
			n++
			if _, _, isErrTest := ErrNilTest(ifi); isErrTest {
				continue // "did a step fail": the steps are judged by their own branches
			}
			if dependsOnID(ifi.Cond, id, depth) {
				bad = "the branch at " + p.Pos(ifi.Pos()) + " in " + FuncName(f) + " depends on what the session ID looks like"
			}
		}
	}
	_ = scope
	inspect(fn, id, 0)
	c.Check(rule, "jar:every-session-id-gets-a-jar", p, fn.Pos(), bad == "", fmt.Sprintf("no branch of cachedCookieJar depends on what the session ID looks like (%d branch(es)): only on whether the cache has it", n), bad+": a session cookie issued by the previous build (valid for 12 hours, never re-issued) no longer gets a jar — WriteHeader only logs that error and then stores the backend's cookies into a nil jar: a panic in a worker goroutine nothing recovers, which ends the agent for every user")
}

// ---------------------------------------------------------------- shim

// ruleShimSessionIDFromBodyOnly: the shim endpoints take the session ID from the JSON body
// of a POST and from nowhere else. An ID in the URL makes a poll a body-less GET, which
// caches between the browser and the agent (the App Engine proxy stores every GET 200
// without Cache-Control per user and URL) answer themselves.
func ruleShimSessionIDFromBodyOnly(c *Ctx, p *Prog, rule string) {
	bad := ""
	n := 0
	for _, fn := range p.AllFuncsIn("agent/websockets") {
		for _, call := range Calls(fn, "encoding/json.Unmarshal") {
			a := CallOf(call).Args
			if len(a) == 2 {
				n++
			}
		}
		EachInstrRaw(fn, func(i ssa.Instruction) {
			st, ok := i.(*ssa.Store)
			if !ok {
				return
			}
			base, fld, ok := FieldAddrOf(st.Addr)
			if !ok || fld != "ID" {
				return
			}
			if nm := namedOf(base.Type()); nm == nil || objName(nm.Obj()) != "sessionMessage" {
				return
			}
			if _, isC := st.Val.(*ssa.Const); isC {
				return
			}
			for _, r := range Roots(st.Val) {
				if cl, isCall := r.(*ssa.Call); isCall {
					name := CalleeName(&cl.Call)
					if strings.HasPrefix(name, "(net/url.Values).") || strings.HasPrefix(name, "(*net/url.URL).") || strings.HasPrefix(name, "(*net/http.Request).") || strings.HasPrefix(name, "(net/http.Header).") || strings.HasPrefix(name, "strings.") || strings.HasPrefix(name, "path.") {
						bad = "sessionMessage.ID is set from " + name + " in " + FuncName(fn) + " at " + p.Pos(st.Pos())
					}
				}
			}
		})
	}
	c.Check(rule, "shim:session-id-comes-from-the-posted-body-only", p, 0, bad == "" && n >= 1, fmt.Sprintf("the session ID of a shim call is decoded from its JSON body (%d decode site(s) in the package); nothing fills it from the URL or a header", n), bad+": calls that name their session in the URL can be body-less GETs; a 200 reply to a GET without Cache-Control is stored by the App Engine proxy per user and URL and replayed for every later poll of that session — the client receives the first batch of server messages again and again and none after it")
}

// ruleDataLoopSendsEveryMessage: in the data endpoint every message of the posted batch is
// handed to SendClientMessage before the loop moves on; the only other way out of an
// iteration is a failed call.
func ruleDataLoopSendsEveryMessage(c *Ctx, p *Prog, rule string) {
	n := 0
	for _, fn := range p.AllFuncsIn("agent/websockets") {
		for _, call := range Calls(fn, "(*"+ModPath+"/agent/websockets.Connection).SendClientMessage") {
			s := call.Block()
			if !InLoop(s) {
				continue
			}
			n++
			bad := ""
			for _, b := range fn.Blocks {
				for _, h := range b.Succs {
					// back edge b -> h of a loop that contains the call
					if !(h == b || h.Dominates(b)) || !(h == s || h.Dominates(s)) {
						continue
					}
					if !(s == b || s.Dominates(b)) {
						bad = "the loop at " + p.Pos(posOfBlock(h)) + " can move on to the next message (from " + p.Pos(posOfBlock(b)) + ") without having passed SendClientMessage"
					}
				}
			}
			c.Check(rule, "data:every-posted-message-is-sent", p, call.Pos(), bad == "", "every iteration over the posted batch passes SendClientMessage or ends the call with an error", bad+": a message the page posted is acknowledged with 200 and never reaches the backend websocket (for a page of the previous build, which sends no such marker, that is every message)")
		}
	}
	if n == 0 {
		c.Unk(rule, "data:every-posted-message-is-sent", p, 0, "no SendClientMessage call inside a loop found in agent/websockets")
	}
}

func posOfBlock(b *ssa.BasicBlock) token.Pos {
	for _, i := range b.Instrs {
		if i.Pos().IsValid() {
			return i.Pos()
		}
	}
	return token.NoPos
}

// ---------------------------------------------------------------- agent flags / hostProxy

// ruleShimMountedBySh imPathAlone etc.: what each agent flag decides is part of the
// deployment surface: existing command lines rely on it.
func ruleHostProxyFlagRoles(c *Ctx, p *Prog, rule string, which ...string) {
	hp := c.need(p, rule, "agent.hostProxy")
	if hp == nil {
		return
	}
	want := map[string]bool{}
	for _, w := range which {
		want[w] = true
	}
	scope := WithClosures(hp)
	for _, h := range p.AllFuncsIn("agent") {
		if helperOf(h) != nil {
			for _, o := range ownersOfFunc(h) {
				if o == hp {
					scope = append(scope, h)
				}
			}
		}
	}
	var proxyCall ssa.Instruction
	var modStores []*ssa.Store
	for _, f := range scope {
		for _, call := range Calls(f, ModPath+"/agent/websockets.Proxy") {
			proxyCall = call
		}
		EachInstrRaw(f, func(i ssa.Instruction) {
			if st, ok := i.(*ssa.Store); ok {
				if base, fld, okf := FieldAddrOf(st.Addr); okf && fld == "ModifyResponse" && NamedType(base.Type()) == "net/http/httputil.ReverseProxy" {
					modStores = append(modStores, st)
				}
			}
		})
	}
	shimPath, inject, host := P(hp, 2), P(hp, 3), P(hp, 1)
	if want["mount"] {
		key := "hostProxy:shim-endpoints-mounted-by-shim-path-alone"
		if proxyCall == nil {
			c.Unk(rule, key, p, hp.Pos(), "no call of websockets.Proxy in hostProxy")
		} else {
			bad := ""
			n := 0
			for _, g := range GuardConds(proxyCall) {
				n++
				if bo, ok := g.Cond.(*ssa.BinOp); ok && (bo.Op == token.NEQ || bo.Op == token.EQL) {
					if (PathOf(bo.X) == shimPath && isEmptyStringConst(bo.Y)) || (PathOf(bo.Y) == shimPath && isEmptyStringConst(bo.X)) {
						continue
					}
				}
				if _, _, isErr := ErrNilTest(g.If); isErr {
					continue
				}
				if PathOf(g.Cond) == inject || strings.Contains(PathOf(g.Cond), "global:") || mentionsPath(g.Cond, inject) {
					bad = "the call is also guarded by " + PathOf(g.Cond) + " at " + p.Pos(g.If.Pos())
				}
			}
			c.Check(rule, key, p, proxyCall.Pos(), bad == "", fmt.Sprintf("websockets.Proxy is mounted whenever --shim-path is set (%d guard(s), none on another flag)", n), bad+": deployments that run with --shim-path set and --shim-websockets=false (pages that ship the shim client themselves) lose the open/data/poll/close endpoints — their calls are forwarded to the backend and answered 404")
		}
	}
	if want["inject"] {
		key := "hostProxy:shim-code-injected-only-when-the-flag-says-so"
		if len(modStores) == 0 {
			c.Unk(rule, key, p, hp.Pos(), "no assignment of ModifyResponse in hostProxy")
		} else {
			bad := ""
			for _, st := range modStores {
				ok := false
				for _, g := range GuardConds(st) {
					if g.Truth && PathOf(g.Cond) == inject {
						ok = true
					}
				}
				if !ok {
					bad = "the assignment at " + p.Pos(st.Pos()) + " is not under `if " + inject + "`"
				}
			}
			c.Check(rule, key, p, modStores[0].Pos(), bad == "", "ModifyResponse is only set where the --shim-websockets parameter is true", bad+": with --shim-websockets=false (or absent: the default) HTML responses must reach the client byte for byte; a fallback that injects whenever the flag was not spelled out rewrites every HTML body of existing deployments that set only --shim-path")
		}
	}
	if want["host"] {
		key := "hostProxy:shim-dials-the-host-the-reverse-proxy-targets"
		if proxyCall == nil {
			c.Unk(rule, key, p, hp.Pos(), "no call of websockets.Proxy in hostProxy")
		} else {
			a := PArgs(CallOf(proxyCall))
			ok := len(a) > 2 && a[2] != nil && PathOf(a[2]) == host
			got := ""
			if len(a) > 2 && a[2] != nil {
				got = PathOf(a[2])
			}
			c.Check(rule, key, p, proxyCall.Pos(), ok, "the backend host given to the websocket shim is hostProxy's own host parameter", "the websocket shim is given "+got+" instead of "+host+": shimmed websocket connections go to another address than --host names (a flag default evaluated before flag.Parse is the literal default of the other flag, e.g. localhost:8080) — the only network peer is no longer the configured backend")
		}
	}
}

func isEmptyStringConst(v ssa.Value) bool {
	s, ok := ConstString(v)
	return ok && s == ""
}

func mentionsPath(v ssa.Value, path string) bool {
	hit := false
	SliceBack(v, func(x ssa.Value) bool {
		if PathOf(x) == path {
			hit = true
		}
		return !hit
	})
	return hit
}

// ruleFlagDecidesStore: the store of a value of type typ into field fld is reached from the
// true edge of a test of the flag itself.
func ruleFlagDecidesH2C(c *Ctx, p *Prog, rule, fnName, flagName, key string) {
	fn := c.need(p, rule, fnName)
	if fn == nil {
		return
	}
	var stores []*ssa.Store
	scope := WithClosures(fn)
	for _, h := range p.AllFuncsIn(Rel(fnPkg(fn).Pkg.Path())) {
		if helperOf(h) != nil {
			scope = append(scope, h)
		}
	}
	for _, f := range scope {
		EachInstrRaw(f, func(i ssa.Instruction) {
			if st, ok := i.(*ssa.Store); ok {
				if base, fld, okf := FieldAddrOf(st.Addr); okf && fld == "Transport" && NamedType(base.Type()) == "net/http/httputil.ReverseProxy" {
					if strings.Contains(st.Val.Type().String(), "http2.Transport") || strings.Contains(typeOfIface(st.Val), "http2.Transport") {
						stores = append(stores, st)
					}
				}
			}
		})
	}
	if len(stores) == 0 {
		c.Unk(rule, key, p, fn.Pos(), "no assignment of an http2.Transport to the pass-through proxy found")
		return
	}
	bad := ""
	for _, st := range stores {
		ok := false
		f := st.Parent()
		for _, b := range f.Blocks {
			ifi := BlockIf(b)
			if ifi == nil {
				continue
			}
			cond, trueSucc := BoolTest(ifi)
			if PathOf(cond) != "**global:"+flagName {
				continue
			}
			t := b.Succs[trueSucc]
			for k := 0; k < 6 && t != nil; k++ {
				if t == st.Block() || t.Dominates(st.Block()) {
					ok = true
					break
				}
				if len(t.Succs) != 1 {
					break
				}
				t = t.Succs[0]
			}
		}
		if !ok {
			bad = "the assignment at " + p.Pos(st.Pos()) + " is not reached from `if *" + flagName + "`"
		}
	}
	c.Check(rule, key, p, stores[0].Pos(), bad == "", "the prior-knowledge HTTP/2 transport is installed whenever the --"+strings.ToLower(flagName)+" flag variable is true", bad+": an existing command line that passes the flag gets HTTP/1.1 towards a backend that only speaks prior-knowledge HTTP/2 (gRPC): every non-bridge request is answered 502 instead of being passed through")
}

func typeOfIface(v ssa.Value) string {
	if mi, ok := v.(*ssa.MakeInterface); ok {
		return mi.X.Type().String()
	}
	return ""
}

// ---------------------------------------------------------------- banner

// ruleBannerNoReferrerPolicy: the page the banner writer renders must leave the Referer its
// iframe sends alone: for browsers without Fetch Metadata isAlreadyFramed recognises the
// framed request by a Referer with the same host AND path.
func ruleBannerNoReferrerPolicy(c *Ctx, p *Prog, rule string) {
	pk := p.ModPkgs[ModPath+"/agent/banner"]
	if pk == nil {
		c.Unk(rule, "frame:no-referrer-policy", p, 0, "package agent/banner not loaded")
		return
	}
	bad := ""
	n := 0
	sawFrame := false
	check := func(s string, pos token.Pos) {
		n++
		ls := strings.ToLower(s)
		if strings.Contains(ls, "<iframe") {
			sawFrame = true
		}
		if strings.Contains(ls, "referrer") {
			bad = "a string of package banner mentions a referrer policy at " + p.Pos(pos)
		}
	}
	for _, name := range pk.Types.Scope().Names() {
		if cn, ok := pk.Types.Scope().Lookup(name).(*types.Const); ok && cn.Val().Kind() == constant.String {
			check(constant.StringVal(cn.Val()), cn.Pos())
		}
	}
	for _, fn := range p.AllFuncsIn("agent/banner") {
		EachInstrRaw(fn, func(i ssa.Instruction) {
			for _, op := range i.Operands(nil) {
				if op == nil || *op == nil {
					continue
				}
				if s, ok := ConstString(*op); ok {
					check(s, i.Pos())
				}
			}
		})
	}
	c.Check(rule, "frame:no-referrer-policy", p, 0, bad == "" && sawFrame, fmt.Sprintf("neither the frame page nor a header set by the banner writer restricts the Referer (%d string(s) inspected, the frame template among them)", n), bad+": the iframe's request then carries only the origin (or nothing) as Referer; isAlreadyFramed's fallback for browsers without Sec-Fetch-Dest compares host and path, does not match, and answers the framed request with another banner frame — frames nest without end and the original body is never shown")
}

// ---------------------------------------------------------------- bridge handshake

// ruleBridgeHandshakeVocabulary: the bridge's websocket client and server offer no
// extension and no subprotocol. A backend of the deployed build echoes the request headers
// into its handshake reply: with an offered extension gorilla refuses the upgrade, with an
// offered subprotocol the client believes it was agreed.
func ruleBridgeHandshakeVocabulary(c *Ctx, p *Prog, rule string) {
	bad := ""
	n := 0
	for _, rel := range []string{"utils/tcpbridge/connection", "utils/tcpbridge/tcp-bridge-frontend", "utils/tcpbridge/tcp-bridge-backend"} {
		for _, fn := range p.AllFuncsIn(rel) {
			EachInstrRaw(fn, func(i ssa.Instruction) {
				st, ok := i.(*ssa.Store)
				if !ok {
					return
				}
				base, fld, ok := FieldAddrOf(st.Addr)
				if !ok {
					return
				}
				switch NamedType(base.Type()) {
				case "github.com/gorilla/websocket.Dialer", "github.com/gorilla/websocket.Upgrader":
				default:
					return
				}
				n++
				switch fld {
				case "EnableCompression":
					if cv, isC := st.Val.(*ssa.Const); !isC || cv.Value == nil || constant.BoolVal(cv.Value) {
						bad = "EnableCompression is set at " + p.Pos(st.Pos())
					}
				case "Subprotocols":
					if !IsNilConst(st.Val) {
						bad = "Subprotocols is set at " + p.Pos(st.Pos())
					}
				}
			})
			for _, call := range Calls(fn, "(*github.com/gorilla/websocket.Dialer).DialContext", "(*github.com/gorilla/websocket.Dialer).Dial", "(*github.com/gorilla/websocket.Upgrader).Upgrade") {
				n++
				_ = call
			}
		}
	}
	c.Check(rule, "handshake:no-extension-or-subprotocol-offered", p, 0, bad == "" && n >= 2, fmt.Sprintf("no websocket dialer or upgrader of the bridge enables compression or names a subprotocol (%d dial/upgrade site(s) and option store(s))", n), bad+": a bridge end of the deployed build reflects the request headers into its handshake reply — gorilla refuses an upgrade whose reply carries Sec-WebSocket-Extensions (500, no bridged connection can be opened), and an echoed Sec-WebSocket-Protocol makes the new end speak a framing the old one skips")
}

// ---------------------------------------------------------------- App Engine dispatcher

// ruleEndUserHandlerForEveryOtherService: the App Engine entry point serves end users under
// every service name other than the two agent-facing ones.
func ruleEndUserHandlerForEveryOtherService(c *Ctx, p *Prog, rule string) {
	var call ssa.Instruction
	for _, fn := range p.AllFuncsIn("app") {
		if TopFunc(fn) == nil || !strings.HasPrefix(FuncName(TopFunc(fn)), "app.init") {
			continue
		}
		for _, cl := range Calls(fn, ModPath+"/app.proxyHandler") {
			call = cl
		}
	}
	key := "dispatch:end-user-handler-for-every-other-service"
	if call == nil {
		c.Unk(rule, key, p, 0, "no call of proxyHandler from the registered entry point")
		return
	}
	reachesModuleName := func(v ssa.Value) bool {
		hit := false
		SliceBack(v, func(x ssa.Value) bool {
			if cl, ok := x.(*ssa.Call); ok {
				n := CalleeName(&cl.Call)
				if strings.HasSuffix(n, ".ModuleName") && strings.Contains(n, "appengine") {
					hit = true
				}
				if callee := cl.Call.StaticCallee(); callee != nil && p.IsModFunc(callee) {
					if len(Calls(callee, "google.golang.org/appengine.ModuleName", "google.golang.org/appengine/v2.ModuleName")) > 0 {
						hit = true
					}
				}
			}
			return !hit
		})
		return hit
	}
	bad := ""
	n := 0
	for _, g := range GuardConds(call) {
		if !reachesModuleName(g.Cond) {
			continue
		}
		n++
		asserted := g.Truth
		if bo, ok := g.Cond.(*ssa.BinOp); ok && bo.Op == token.NEQ {
			asserted = !g.Truth
		}
		if asserted {
			bad = "proxyHandler is only reached where the service name equals something (" + p.Pos(g.If.Pos()) + ")"
		}
	}
	c.Check(rule, key, p, call.Pos(), bad == "", fmt.Sprintf("proxyHandler is reached for every service name that is not one of the agent-facing ones (%d guard(s) on the service name, all negative)", n), bad+": deployments that run the end-user handler under another service name than the one listed (`service: notebooks-proxy`; a project's default service is often taken) are answered 404 before any backend is looked up")
}

// slicedFrom: v is src or a (re-)slice of it.
func slicedFrom(v, src ssa.Value) bool {
	for k := 0; k < 8; k++ {
		if v == src {
			return true
		}
		sl, ok := v.(*ssa.Slice)
		if !ok {
			return false
		}
		v = sl.X
	}
	return false
}

// ---------------------------------------------------------------- bridge lifetime

// ruleNoDeadlineClosesBridge: nothing with a deadline ends a bridged connection. The bridge
// carries streams of any length; the only events that close the pair are the two copy
// directions. A clean-up hook (context.AfterFunc, time.AfterFunc) that closes connections
// must not hang on a context made with WithTimeout/WithDeadline — r.Context() counts as that
// context once r was re-bound with r.WithContext(ctx).
func ruleNoDeadlineClosesBridge(c *Ctx, p *Prog, rule string) {
	bad := ""
	n := 0
	for _, rel := range []string{"utils/tcpbridge/connection", "utils/tcpbridge/tcp-bridge-frontend", "utils/tcpbridge/tcp-bridge-backend"} {
		for _, fn := range p.AllFuncsIn(rel) {
			n++
			for _, call := range Calls(fn, "context.AfterFunc") {
				a := CallOf(call).Args
				if len(a) < 2 {
					continue
				}
				deadline := ""
				SliceBack(a[0], func(v ssa.Value) bool {
					if cl, ok := v.(*ssa.Call); ok {
						switch CalleeName(&cl.Call) {
						case "context.WithTimeout", "context.WithDeadline", "context.WithTimeoutCause", "context.WithDeadlineCause":
							deadline = CalleeName(&cl.Call) + " at " + p.Pos(cl.Pos())
						}
					}
					return deadline == ""
				})
				if deadline != "" {
					bad = "the hook registered at " + p.Pos(call.Pos()) + " in " + FuncName(fn) + " fires when the context of " + deadline + " expires"
				}
			}
			for _, call := range Calls(fn, "time.AfterFunc") {
				a := CallOf(call).Args
				if len(a) < 2 {
					continue
				}
				closes := false
				for _, r := range Roots(a[1]) {
					var cb *ssa.Function
					switch x := r.(type) {
					case *ssa.MakeClosure:
						cb, _ = x.Fn.(*ssa.Function)
					case *ssa.Function:
						cb = x
					}
					if cb == nil {
						closes = true // a callback this rule cannot read
						continue
					}
					for _, f := range WithClosures(cb) {
						EachInstrRaw(f, func(i ssa.Instruction) {
							if cc := CallOf(i); cc != nil && (strings.HasSuffix(CalleeName(cc), ".Close") || strings.HasSuffix(CalleeName(cc), "closeBoth")) {
								closes = true
							}
							if cc := CallOf(i); cc != nil && cc.StaticCallee() == nil && !cc.IsInvoke() {
								closes = true // calls a function value (closeBoth)
							}
						})
					}
				}
				if closes {
					bad = "the timer started at " + p.Pos(call.Pos()) + " in " + FuncName(fn) + " closes connections when it fires"
				}
			}
		}
	}
	c.Check(rule, "bridge:no-deadline-closes-the-pair", p, 0, bad == "" && n > 0, fmt.Sprintf("no timer or deadline-bound clean-up hook closes a bridged connection (%d functions of the bridge inspected)", n), bad+": a bridged connection that is still in use then is cut in both directions with bytes in flight — streams longer than the deadline do not arrive complete")
}

// ruleReaderEndsOnEveryReadError: the goroutine that reads the backend websocket ends on
// every error of ReadMessage/NextReader. gorilla's read errors are permanent (the connection
// remembers them) and the 1000th read of a failed connection panics — in a goroutine nothing
// recovers, that ends the agent.
func ruleReaderEndsOnEveryReadError(c *Ctx, p *Prog, rule string) {
	nc := c.need(p, rule, "agent/websockets.NewConnection")
	if nc == nil {
		return
	}
	n := 0
	for _, fn := range WithClosures(nc) {
		for _, call := range Calls(fn, "(*github.com/gorilla/websocket.Conn).ReadMessage", "(*github.com/gorilla/websocket.Conn).NextReader") {
			if !InLoop(call.Block()) {
				continue
			}
			n++
			bad := ""
			cv := call.(ssa.Value)
			var errV ssa.Value
			for _, r := range Refs(cv) {
				if ex, ok := r.(*ssa.Extract); ok && ex.Index == cv.Type().(*types.Tuple).Len()-1 {
					errV = ex
				}
			}
			if errV == nil {
				bad = "the error of the read is not looked at"
			} else {
				// reach the read again without ever taking the "error is nil" edge of a test of this error
				onlyErrEdges := func(b *ssa.BasicBlock, idx int) bool {
					ifi := BlockIf(b)
					if ifi == nil {
						return true
					}
					v, nonNil, okT := ErrNilTest(ifi)
					if !okT || v != errV {
						return true
					}
					return idx == nonNil
				}
				hit, _ := (&Walk{Target: func(i ssa.Instruction) bool { return i == call }, Edge: onlyErrEdges}).FromInstr(call)
				if hit != nil {
					bad = "the loop can come back to the read at " + p.Pos(call.Pos()) + " without the previous read having succeeded"
				}
			}
			c.Check(rule, "reader:every-read-error-ends-the-reader", p, call.Pos(), bad == "", "no path from a failed read of the backend websocket leads back to the read", bad+": gorilla keeps returning the same error and panics on the 1000th read of a failed connection (\"repeated read on failed websocket connection\") — in a goroutine nothing recovers, which terminates the agent for every session")
		}
	}
	if n == 0 {
		c.Unk(rule, "reader:every-read-error-ends-the-reader", p, nc.Pos(), "no read of the backend websocket inside a loop found in NewConnection")
	}
}

func errorIface() *types.Interface {
	return types.Universe.Lookup("error").Type().Underlying().(*types.Interface)
}

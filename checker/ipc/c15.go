package ipc

import (
	"fmt"
	"go/constant"
	"go/token"
	"go/types"
	"strings"

	"golang.org/x/tools/go/ssa"
)

func init() {
	register(&PropSpec{
		ID:    "C15",
		Progs: []string{"mod"},
		Explanation: "Byte-stream integrity for all sizes and segmentations is behavioural and not decided. Decided (each a necessary condition): " +
			"(E) codec agreement of WebsocketNetConn: Write sends exactly one TextMessage carrying hex.EncodeToString of its own argument and reports len(argument); Read accepts exactly that message type (partial evaluation on the type), decodes with hex.DecodeString of the payload it just read, refills its buffer only when it is empty, hands out bytes from the front and keeps the remainder (re-slice from the consumed count), returning that count; " +
			"(P) every function that bridges two connections starts exactly two copy goroutines io.Copy(a,b) / io.Copy(b,a) over the same two values and waits for exactly two Done()s; " +
			"(H) the bridge handler passes anything that is not a websocket upgrade for the streaming path to the pass-through handler with its own (w, r) and does not upgrade it; the frontend dials a path ending in the same StreamingPath constant. " +
			"(V) goroutines started per accepted connection capture no variable that lives outside the accept loop and is reassigned by it; the bridge backend's pass-through proxy is the stock NewSingleHostReverseProxy with only FlushInterval/Transport set; (M) no pooled buffers. " +
			"Data frames are written only from WebsocketNetConn.Write (gorilla's single-writer rule); DialWebsocket uses its context for the dial only.",
		Assumptions: []string{"gorilla/websocket delivers text messages whole and in order; encoding/hex round-trips; io.Copy writes everything it reads"},
		Run:         runC15,
	})
	register(&PropSpec{
		ID:    "C16",
		Progs: []string{"mod"},
		Explanation: "'Within bounded time' is not decided. Decided is the structural obstacle the property names: (K) in every function that bridges two connections with two copy goroutines, each goroutine — when its io.Copy returns, before it reports Done and independently of its sibling — closes the connections of the pair (directly or through a closure that closes them), so a close by one peer ends the other direction and is shown to the other peer; " +
			"(D) every connection acquired in a bridging function (Upgrade, Dial, Accept, DialWebsocket) has a deferred Close that follows its successful acquisition. " +
			"Not decided: delivery of in-flight data before the close, timing. " +
			"(A) no SetLinger(≥0) on any bridge connection (an abortive close discards queued data and resets the peer); a net.Conn wrapper's Close either is the embedded connection's or takes no lock that another method holds across blocking network I/O. " +
			"No raw descriptor access (File/Fd/SyscallConn) on bridge sockets; after an acquisition no path returns before its Close is deferred; DialWebsocket does not retain its context. " +
			"Every websocket dial of the bridge is bounded in time (gorilla DefaultDialer, a positive HandshakeTimeout, or a deadline context). (L, C15) no websocket read limit is armed on bridge connections." +
			" A wrapper's Close writes nothing to the websocket unless the write is bounded (WriteControl with time.Now().Add(<constant>)): gorilla serialises writers, and a data write stalled by back-pressure holds that lock.",
		Assumptions: []string{"closing a net.Conn / websocket.Conn unblocks a Read pending on it and makes the peer observe end-of-stream"},
		Run:         runC16,
	})
}

const bridgeConn = ModPath + "/utils/tcpbridge/connection"

// bridgeSite is one function that bridges two connections.
type bridgeSite struct {
	Fn     *ssa.Function     // the function containing the go statements
	Copies []ssa.Instruction // io.Copy calls, one per goroutine
	Gos    []*ssa.Function
	// destination and source of each direction, as values of Fn (a direction started as
	// `go copyDir(dst, src, …)` from a shared function body has them at its go statement)
	Dst, Src []ssa.Value
}

func bridgeSites(p *Prog) []*bridgeSite {
	var out []*bridgeSite
	for _, fn := range p.Funcs {
		if !strings.HasPrefix(FuncName(fn), "utils/tcpbridge/") {
			continue
		}
		bs := &bridgeSite{Fn: fn}
		for _, cl := range DirectClosures(fn) {
			cp := Calls(cl, "io.Copy", "io.CopyBuffer")
			if len(cp) == 1 && goBodyOnce(cl) {
				bs.Copies = append(bs.Copies, cp[0])
				bs.Gos = append(bs.Gos, cl)
				a := PArgs(CallOf(cp[0]))
				bs.Dst = append(bs.Dst, a[0])
				bs.Src = append(bs.Src, a[1])
			}
		}
		// the two directions started from one new function that takes destination and source as
		// parameters: one direction per go statement, read with that statement's arguments
		EachInstrRaw(fn, func(i ssa.Instruction) {
			g, isGo := i.(*ssa.Go)
			if !isGo || InLoop(g.Block()) {
				return
			}
			h := g.Call.StaticCallee()
			if h == nil || h.Parent() != nil || !IsNewHelper(h) || len(h.Blocks) == 0 {
				return
			}
			cp := Calls(h, "io.Copy", "io.CopyBuffer")
			if len(cp) != 1 || cp[0].Parent() != h {
				return
			}
			a := CallOf(cp[0]).Args
			idx := func(v ssa.Value) int {
				for {
					switch x := v.(type) {
					case *ssa.MakeInterface:
						v = x.X
						continue
					case *ssa.ChangeInterface:
						v = x.X
						continue
					}
					break
				}
				for k, prm := range h.Params {
					if v == ssa.Value(prm) {
						return k
					}
				}
				return -1
			}
			kd, ks := idx(a[0]), idx(a[1])
			if kd < 0 || ks < 0 || kd >= len(g.Call.Args) || ks >= len(g.Call.Args) {
				return
			}
			bs.Copies = append(bs.Copies, cp[0])
			bs.Gos = append(bs.Gos, h)
			bs.Dst = append(bs.Dst, g.Call.Args[kd])
			bs.Src = append(bs.Src, g.Call.Args[ks])
		})
		if len(bs.Copies) > 0 {
			out = append(out, bs)
		}
	}
	return out
}

// connRoots: the set of underlying values an io.Copy endpoint refers to
// (through interface boxing, captured variables and local cells).
func connRoots(v ssa.Value) map[ssa.Value]bool {
	m := map[ssa.Value]bool{}
	for _, r := range Roots(v) {
		m[r] = true
	}
	return m
}

func sharesRoot(a, b map[ssa.Value]bool) bool {
	for k := range a {
		if b[k] {
			return true
		}
	}
	return false
}

func runC15(c *Ctx) {
	p := c.Progs["mod"]
	c.Rule("C15.Y", "compatibility with the party that is not changed with this code: no websocket extension or subprotocol is offered; --force-http2 decides the pass-through transport", 2)
	ruleBridgeHandshakeVocabulary(c, p, "C15.Y")
	ruleNoDeadlineClosesBridge(c, p, "C15.Y")
	ruleFlagDecidesH2C(c, p, "C15.Y", "utils/tcpbridge/tcp-bridge-backend.main", "forceHTTP2", "backend:force-http2-decides-the-transport")
	c.Rule("C15.E", "hex/text codec agreement and buffer discipline of WebsocketNetConn; sockets are closed orderly (= C16.A)", 10)
	ruleNoAbortiveLinger(c, p, "C15.E")
	c.Rule("C15.P", "two copy directions over the same pair, WaitGroup pairing", 4)
	c.Rule("C15.H", "pass-through identity and streaming-path agreement; h2c accepted unconditionally; default request limits; no read of the frontend's own", 9)
	T := "(*" + bridgeConn + ".WebsocketNetConn)"
	_ = T

	if wr := c.need(p, "C15.E", "utils/tcpbridge/connection.(*WebsocketNetConn).Write"); wr != nil {
		if wm := c.UniqueCall("C15.E", p, wr, false, "(*github.com/gorilla/websocket.Conn).WriteMessage"); wm != nil {
			a := PArgs(CallOf(wm))
			c.Check("C15.E", "Write:text-message", p, wm.Pos(), isConstInt(a[1], 1), "one websocket.TextMessage per Write", "Write does not send a TextMessage: the reading side only accepts text messages and silently skips everything else")
			okEnc := false
			if cv, ok := Peel(a[2]).(*ssa.Convert); ok { // Peel: the encoding may sit in a new helper
				if call := CallResult(cv.X, 0, "encoding/hex.EncodeToString"); call != nil {
					okEnc = PathOf(PArgs(&call.Call)[0]) == P(wr, 1)
				}
			}
			// … or hex.Encode(dst, bs) into a slice made for it, sent whole
			if encs := Calls(wr, "encoding/hex.Encode"); !okEnc && len(encs) == 1 && Dominates(encs[0], wm) {
				ea := PArgs(CallOf(encs[0]))
				if mk, isMk := Peel(ea[0]).(*ssa.MakeSlice); isMk && PathOf(ea[1]) == P(wr, 1) {
					if el := CallResult(mk.Len, 0, "encoding/hex.EncodedLen"); el != nil {
						if ln, isLen := PArgs(&el.Call)[0].(*ssa.Call); isLen {
							if b, isB := ln.Call.Value.(*ssa.Builtin); isB && b.Name() == "len" && PathOf(PArgs(&ln.Call)[0]) == P(wr, 1) {
								okEnc = Peel(a[2]) == ssa.Value(mk)
							}
						}
					}
				}
			}
			c.Check("C15.E", "Write:hex-of-own-argument", p, wm.Pos(), okEnc, "payload = hex.EncodeToString(bs) of the call's own argument", "the payload is not hex.EncodeToString of Write's own argument: the reading side decodes hex")
			c.Check("C15.E", "Write:not-in-loop", p, wm.Pos(), !InLoop(wm.Block()), "one message per Write", "WriteMessage is in a loop")
		}
		okLen := false
		for _, r := range Returns(wr) {
			if !IsNilConst(ReturnValue(r, 1)) {
				continue
			}
			if call, ok := ReturnValue(r, 0).(*ssa.Call); ok {
				if b, ok := call.Call.Value.(*ssa.Builtin); ok && b.Name() == "len" && PathOf(PArgs(&call.Call)[0]) == P(wr, 1) {
					okLen = true
				}
			}
		}
		c.Check("C15.E", "Write:reports-argument-length", p, wr.Pos(), okLen, "a successful Write returns len(bs): io.Copy sees no short write", "a successful Write does not return len(bs) of its own argument (e.g. the encoded length): io.Copy aborts with ErrShortWrite / miscounts")
	}
	if rd := c.need(p, "C15.E", "utils/tcpbridge/connection.(*WebsocketNetConn).Read"); rd != nil {
		rm := c.UniqueCall("C15.E", p, rd, false, "(*github.com/gorilla/websocket.Conn).ReadMessage")
		dec := c.UniqueCall("C15.E", p, rd, false, "encoding/hex.DecodeString", "encoding/hex.Decode")
		if rm != nil && dec != nil {
			okSrc := false
			inPlace := CalleeName(CallOf(dec)) == "encoding/hex.Decode"
			src := PArgs(CallOf(dec))[0]
			if inPlace {
				src = PArgs(CallOf(dec))[1]
			}
			// conversions, the parameter of a new decoding helper, and trimming of characters that are
			// not hex digits (a line terminator a line-oriented peer appends) leave the payload's digits as they are
			for k := 0; k < 6; k++ {
				if cv, ok := src.(*ssa.Convert); ok {
					src = cv.X
					continue
				}
				if pl := Peel(src); pl != src {
					src = pl
					continue
				}
				if call, ok := src.(*ssa.Call); ok {
					switch CalleeName(&call.Call) {
					case "bytes.TrimSpace", "strings.TrimSpace":
						src = call.Call.Args[0]
						continue
					case "bytes.Trim", "bytes.TrimRight", "bytes.TrimLeft", "strings.Trim", "strings.TrimRight", "strings.TrimLeft":
						if cs, isC := ConstString(call.Call.Args[1]); isC && !strings.ContainsAny(cs, "0123456789abcdefABCDEF") {
							src = call.Call.Args[0]
							continue
						}
					}
				}
				break
			}
			if e, ok := src.(*ssa.Extract); ok && e.Tuple == rm.(ssa.Value) && e.Index == 1 {
				okSrc = true
			}
			// the decoded bytes: result 0 of DecodeString, or dst[:n] of n, err := hex.Decode(dst, src)
			isDecoded := func(v ssa.Value) bool {
				if !inPlace {
					e, ok := Peel(v).(*ssa.Extract)
					return ok && e.Tuple == dec.(ssa.Value) && e.Index == 0
				}
				// dst itself when it was made with exactly the decoded size of this source:
				// make([]byte, hex.DecodedLen(len(src))) — a successful Decode fills all of it
				if _, isSl := v.(*ssa.Slice); !isSl && SameValue(v, PArgs(CallOf(dec))[0]) {
					dst := PArgs(CallOf(dec))[0]
					if mk, isMk := dst.(*ssa.MakeSlice); isMk {
						if dl := CallResult(mk.Len, 0, "encoding/hex.DecodedLen"); dl != nil {
							if ln, isC := PArgs(dl.Common())[0].(*ssa.Call); isC {
								if b, isB := ln.Call.Value.(*ssa.Builtin); isB && b.Name() == "len" && SameValue(ln.Call.Args[0], PArgs(CallOf(dec))[1]) {
									return true
								}
							}
						}
					}
					return false
				}
				sl, ok := v.(*ssa.Slice)
				if !ok || sl.Low != nil || sl.High == nil || !SameValue(sl.X, PArgs(CallOf(dec))[0]) {
					return false
				}
				e, ok := sl.High.(*ssa.Extract)
				return ok && e.Tuple == dec.(ssa.Value) && e.Index == 0
			}
			c.Check("C15.E", "Read:decodes-payload-just-read", p, dec.Pos(), okSrc, "hex.DecodeString(string(<payload of this ReadMessage>))", "the decoded string is not the payload of the message just read")
			env := func(typ int64, buffered int64) Env {
				return func(v ssa.Value) (constant.Value, bool) {
					if e, ok := v.(*ssa.Extract); ok && e.Tuple == rm.(ssa.Value) && e.Index == 0 {
						return IntC(typ), true
					}
					if call, ok := v.(*ssa.Call); ok {
						if b, ok := call.Call.Value.(*ssa.Builtin); ok && b.Name() == "len" {
							if _, fld, ok := FieldLoad(PArgs(&call.Call)[0]); ok && fld == "bufferedMsg" {
								return IntC(buffered), true
							}
						}
					}
					return nil, false
				}
			}
			isDec := func(i ssa.Instruction) bool { return i == dec }
			isRM := func(i ssa.Instruction) bool { return i == rm }
			h1, _ := (&Walk{Target: isDec, Edge: EdgeUnder(env(1, 0))}).FromInstr(rm)
			bad := ""
			for _, t := range []int64{2, 8, 9, 10} {
				if h, _ := (&Walk{Target: isDec, Edge: EdgeUnder(env(t, 0))}).FromInstr(rm); h != nil {
					bad = fmt.Sprintf("a message of websocket type %d is decoded as data", t)
				}
			}
			c.Check("C15.E", "Read:accepts-exactly-text", p, rm.Pos(), h1 != nil && bad == "", "TextMessage is decoded; binary/close/ping/pong are not", "the reading side does not accept exactly the message type the writing side sends (text decoded: "+fmt.Sprint(h1 != nil)+") "+bad)
			h2, _ := (&Walk{Target: isRM, Edge: EdgeUnder(env(1, 5))}).FromBlock(rd.Blocks[0])
			c.Check("C15.E", "Read:refill-only-when-empty", p, rm.Pos(), h2 == nil, "a new message is read only when the buffered remainder is empty", "a new message is read while bytes of the previous one are still buffered: the remainder is overwritten and lost")
			// the decoded bytes become the buffer
			okStore := false
			for _, st := range StoresToField([]*ssa.Function{rd}, "utils/tcpbridge/connection.WebsocketNetConn", "bufferedMsg") {
				if isDecoded(st.Val) {
					okStore = true
				}
			}
			c.Check("C15.E", "Read:buffer-holds-decoded-bytes", p, dec.Pos(), okStore, "bufferedMsg = the decoded bytes", "the decoded bytes are not stored as the buffered message")
		}
		// remainder: bufferedMsg = bufferedMsg[count:], return count
		okRem := false
		for _, r := range Returns(rd) {
			if !IsNilConst(ReturnValue(r, 1)) {
				continue
			}
			cnt := ReturnValue(r, 0)
			for _, st := range StoresToField([]*ssa.Function{rd}, "utils/tcpbridge/connection.WebsocketNetConn", "bufferedMsg") {
				if sl, ok := st.Val.(*ssa.Slice); ok && sl.High == nil && sl.Low != nil && SameValue(sl.Low, cnt) {
					if _, fld, ok := FieldLoad(sl.X); ok && fld == "bufferedMsg" && st.Block() == r.Block() {
						okRem = true
					}
				}
			}
		}
		c.Check("C15.E", "Read:keeps-remainder", p, rd.Pos(), okRem, "after handing out count bytes the buffer is re-sliced from count and count is returned", "the bytes not yet handed out are not kept as bufferedMsg[count:] with count being the returned length: bytes are lost or duplicated when the reader's buffer is smaller than a message")
	}

	c.Rule("C15.V", "each bridged connection has its own variables; the pass-through proxy is the stock single-host proxy; one websocket writer; the dial context is not retained", 6)
	ruleSingleWebsocketWriter(c, p, "C15.V")
	ruleDialContextNotRetained(c, p, "C15.V")
	ruleLoopSharedCapture(c, p, "C15.V", 1, "utils/tcpbridge/tcp-bridge-frontend", "utils/tcpbridge/tcp-bridge-backend", "utils/tcpbridge/connection")
	rulePlainSingleHostProxy(c, p, "C15.V", "utils/tcpbridge/tcp-bridge-backend.main", map[string]string{"FlushInterval": "streaming", "Transport": "h2c transport choice"})
	c.Rule("C15.M", "decoded bytes live in connection-owned buffers", 1)
	rulePooledMemory(c, p, "C15.M", "utils/tcpbridge/connection", "utils/tcpbridge/tcp-bridge-frontend", "utils/tcpbridge/tcp-bridge-backend")

	// ---- C15.L: no size limit that the unsegmented Write can exceed
	c.Rule("C15.L", "no websocket message-size limit on bridge connections (Write sends each write as one message of any length)", 1)
	ruleNoReadLimit(c, p, "C15.L")

	// ---- C15.P
	sites := bridgeSites(p)
	if len(sites) < 2 {
		c.Bad("C15.P", "bridging-functions", p, 0, fmt.Sprintf("found %d bridging functions (2 confirmed by hand: connection.Handler's handler and tcp-bridge-frontend.main's accept goroutine)", len(sites)))
	}
	for _, bs := range sites {
		name := FuncName(bs.Fn)
		ok := len(bs.Copies) == 2
		why := fmt.Sprintf("%d copy goroutines", len(bs.Copies))
		if ok {
			d0, s0 := connRoots(bs.Dst[0]), connRoots(bs.Src[0])
			d1, s1 := connRoots(bs.Dst[1]), connRoots(bs.Src[1])
			if !(sharesRoot(d0, s1) && sharesRoot(s0, d1)) || sharesRoot(d0, s0) {
				ok, why = false, "the two io.Copy calls are not (a→b, b→a) over the same two connections"
			}
		}
		c.Check("C15.P", name+":two-directions-same-pair", p, bs.Fn.Pos(), ok, "io.Copy(a, b) and io.Copy(b, a) over the same two connections, one goroutine each", name+": "+why)
		// WaitGroup pairing
		adds := Calls(bs.Fn, "(*sync.WaitGroup).Add")
		dones := 0
		for _, g := range bs.Gos {
			for _, in := range g.Blocks[0].Instrs {
				if d, isD := in.(*ssa.Defer); isD && CalleeName(&d.Call) == "(*sync.WaitGroup).Done" {
					dones++
				}
			}
		}
		// wg.Add(2), or wg.Add(1) in front of each go statement: constant Adds outside any loop,
		// all executed before the Wait, summing to the number of goroutines
		waits := Calls(bs.Fn, "(*sync.WaitGroup).Wait")
		okwg := len(adds) >= 1 && len(waits) == 1
		total := 0
		// directions started through a go-runner helper (`goWait(&wg, func() {…})`: Add(1), then a
		// goroutine that defers Done and runs the function once): one Add and one Done per call
		runners := map[*ssa.Function]bool{}
		for _, g := range bs.Gos {
			if h := goRunnerOf(g); h != nil && waitGroupGoHelper(h) {
				runners[h] = true
				total++
				dones++
			}
		}
		for _, a := range adds {
			if runners[a.Parent()] {
				continue
			}
			n, isC := ConstInt(PArgs(CallOf(a))[1])
			if !isC || n < 1 || (a.Parent() != bs.Fn && !helperCalledFrom(a.Parent(), bs.Fn)) || (InLoop(a.Block()) && !InLoop(bs.Fn.Blocks[0])) || (okwg && !Dominates(a, waits[0])) {
				okwg = false
			}
			total += int(n)
		}
		if okwg {
			okwg = total == dones && dones == len(bs.Gos)
		}
		c.Check("C15.P", name+":waitgroup-pairing", p, bs.Fn.Pos(), okwg, "wg.Add(n) equals the number of goroutines that defer wg.Done()", name+": wg.Add does not match the goroutines that call Done (the bridge hangs or returns while a direction is still copying)")
	}

	// ---- C15.H
	if h := c.need(p, "C15.H", "utils/tcpbridge/connection.Handler"); h != nil {
		var hf *ssa.Function
		for _, cl := range DirectClosures(h) {
			if len(Calls(cl, "github.com/gorilla/websocket.IsWebSocketUpgrade")) == 1 {
				hf = cl
			}
		}
		if hf == nil {
			c.Unk("C15.H", "handler:closure", p, h.Pos(), "no handler closure calling IsWebSocketUpgrade found")
		} else {
			up := Calls(hf, "github.com/gorilla/websocket.IsWebSocketUpgrade")[0]
			var pass ssa.Instruction
			for _, call := range Calls(hf, "(net/http.Handler).ServeHTTP") {
				a := Args(CallOf(call))
				off := 0
				if hf.Signature.Recv() != nil {
					off = 1 // the handler literal became a method of a small type: (recv, w, r)
				}
				if PathOf(a[0]) == P(h, 1) && PathOf(a[1]) == P(hf, off) && PathOf(a[2]) == P(hf, off+1) {
					pass = call
				}
			}
			upg := Calls(hf, "(*github.com/gorilla/websocket.Upgrader).Upgrade")
			c.Check("C15.H", "handler:pass-through-call", p, hf.Pos(), pass != nil, "passthroughHandler.ServeHTTP(w, r) with the handler's own writer and request", "the pass-through handler is not called with the handler's own (w, r)")
			if pass != nil && len(upg) == 1 {
				env := func(upgrade bool, path string) Env {
					return func(v ssa.Value) (constant.Value, bool) {
						if v == up.(ssa.Value) {
							return constant.MakeBool(upgrade), true
						}
						if _, fld, ok := FieldLoad(v); ok && fld == "Path" {
							return constant.MakeString(path), true
						}
						return nil, false
					}
				}
				sp := streamingPathConst(p)
				isPass := func(i ssa.Instruction) bool { return i == pass }
				isUp := func(i ssa.Instruction) bool { return i == upg[0] }
				bad := ""
				for _, tc := range []struct {
					up   bool
					path string
				}{{false, sp}, {false, "/x"}, {true, "/x"}, {true, sp + "/"}, {true, ""}} {
					e := EdgeUnder(env(tc.up, tc.path))
					if hU, _ := (&Walk{Target: isUp, Edge: e}).FromBlock(hf.Blocks[0]); hU != nil {
						bad = fmt.Sprintf("upgrade=%v path=%q reaches Upgrade", tc.up, tc.path)
					}
					if hR, _ := (&Walk{Target: IsReturn, Avoid: isPass, Edge: e}).FromBlock(hf.Blocks[0]); hR != nil {
						bad = fmt.Sprintf("upgrade=%v path=%q can return without calling the pass-through handler", tc.up, tc.path)
					}
				}
				c.Check("C15.H", "handler:non-bridge-requests-pass-through", p, hf.Pos(), bad == "" && sp != "", "every request that is not an upgrade for StreamingPath reaches the pass-through handler and is never upgraded", "non-bridge request handling: "+bad)
				e := EdgeUnder(env(true, sp))
				hU, _ := (&Walk{Target: isUp, Edge: e}).FromBlock(hf.Blocks[0])
				hP, _ := (&Walk{Target: isPass, Edge: e}).FromBlock(hf.Blocks[0])
				c.Check("C15.H", "handler:bridge-requests-are-upgraded", p, hf.Pos(), hU != nil && hP == nil, "an upgrade request for StreamingPath is bridged, not passed through", "an upgrade request for the streaming path is not (only) bridged")
			}
		}
	}
	// the frontend moves bytes with io.Copy only: it never reads the accepted connection itself
	// (waiting for the client's first bytes before dialling starves protocols in which the
	// server speaks first)
	{
		bad := ""
		n := 0
		for _, fn := range p.AllFuncsIn("utils/tcpbridge/tcp-bridge-frontend") {
			n++
			EachInstrRaw(fn, func(i ssa.Instruction) {
				if cc := CallOf(i); cc != nil {
					switch CalleeName(cc) {
					case "(net.Conn).Read", "(io.Reader).Read", "io.ReadFull", "io.ReadAtLeast", "io.ReadAll", "(*bufio.Reader).Read", "(*bufio.Reader).Peek":
						bad = CalleeName(cc) + " in " + FuncName(fn) + " at " + p.Pos(i.Pos())
					}
				}
			})
		}
		c.Check("C15.H", "frontend:no-read-of-its-own", p, 0, bad == "" && n > 0, "the frontend never reads a connection itself: both directions are io.Copy loops started together", "the frontend reads a connection itself ("+bad+"): until that read returns the other direction does not exist, so a backend that speaks first (SMTP, SSH, MySQL greetings) is never heard")
	}
	if fm := c.need(p, "C15.H", "utils/tcpbridge/tcp-bridge-frontend.main"); fm != nil {
		ok := false
		for _, call := range Calls(fm, "path.Join") {
			SliceBack(PArgs(CallOf(call))[0], func(v ssa.Value) bool {
				if s, isC := ConstString(v); isC && s == streamingPathConst(p) && s != "" {
					ok = true
				}
				return true
			})
		}
		c.Check("C15.H", "frontend:dials-streaming-path", p, fm.Pos(), ok, "the frontend's backend URL path ends in connection.StreamingPath, the constant the handler matches", "the frontend does not dial the StreamingPath constant the backend handler matches")
		dw := 0
		for _, fn := range WithClosures(fm) {
			dw += len(Calls(fn, bridgeConn+".DialWebsocket"))
		}
		c.Check("C15.H", "frontend:dials-websocket-bridge", p, fm.Pos(), dw == 1, "one DialWebsocket per accepted connection", fmt.Sprintf("%d DialWebsocket sites", dw))
		// … and every dial happens for a client that is already there: in the goroutine started
		// for an accepted connection, not ahead of time (a parked connection can die unnoticed
		// and is then handed to a client whose bytes are lost)
		var accept ssa.Instruction
		for _, call := range Calls(fm, "(net.Listener).Accept") {
			accept = call
		}
		late := ""
		for _, fn := range WithClosures(fm) {
			for _, d := range Calls(fn, bridgeConn+".DialWebsocket") {
				own := Owner(d)
				ok := false
				if accept != nil {
					if own == fm {
						ok = Dominates(accept, d)
					} else {
						// the goroutine body: its go site is dominated by the Accept of the same iteration
						EachInstr(fm, func(i ssa.Instruction) {
							if g, isGo := i.(*ssa.Go); isGo {
								if tgt := StaticFunc(&g.Call); tgt != nil && (tgt == own || TopFunc(own) == fm && inClosureTree(tgt, own)) && Dominates(accept, g) {
									ok = true
								}
							}
						})
					}
				}
				if !ok {
					late = p.Pos(d.Pos())
				}
			}
		}
		c.Check("C15.H", "frontend:dials-after-accept", p, fm.Pos(), late == "" && dw > 0, "the websocket to the backend is dialled in the goroutine of an accepted client connection", "a websocket to the backend is dialled at "+late+" outside the handling of an accepted client (ahead of time / in a pool): a connection that dies while parked is handed to a client, whose bytes never arrive")
	}
	// the bridge backend serves, on every path through main, the bridge handler behind the h2c
	// wrapper: which protocols it accepts from its callers does not depend on a flag, so a
	// non-bridge request that arrives as clear-text HTTP/2 is still passed through
	if bm := c.need(p, "C15.H", "utils/tcpbridge/tcp-bridge-backend.main"); bm != nil {
		var serve []ssa.Instruction
		for _, fn := range p.AllFuncsIn("utils/tcpbridge/tcp-bridge-backend") {
			serve = append(serve, Calls(fn, "net/http.ListenAndServe", "net/http.Serve", "(*net/http.Server).ListenAndServe", "(*net/http.Server).Serve")...)
		}
		bad := ""
		if len(serve) != 1 {
			bad = fmt.Sprintf("%d serve calls", len(serve))
		} else {
			var hv ssa.Value
			switch CalleeName(CallOf(serve[0])) {
			case "net/http.ListenAndServe", "net/http.Serve":
				hv = PArgs(CallOf(serve[0]))[1]
			default:
				for _, r := range Roots(PArgs(CallOf(serve[0]))[0]) {
					if v, ok := LiteralField(r, "Handler"); ok {
						hv = v
					}
				}
			}
			if hv == nil {
				bad = "the served handler cannot be identified"
			} else {
				for _, r := range Roots(hv) {
					if mi, ok := r.(*ssa.MakeInterface); ok {
						r = mi.X
					}
					h2 := CallResult(r, 0, "golang.org/x/net/http2/h2c.NewHandler")
					if h2 == nil {
						bad = "on some path the served handler is " + PathOf(r) + ", not h2c.NewHandler(…)"
						continue
					}
					inner := false
					for _, ir := range Roots(PArgs(&h2.Call)[0]) {
						if mi, ok := ir.(*ssa.MakeInterface); ok {
							ir = mi.X
						}
						if CallResult(ir, 0, ModPath+"/utils/tcpbridge/connection.Handler") != nil {
							inner = true
						}
					}
					if !inner {
						bad = "the h2c wrapper does not wrap connection.Handler's result"
					}
				}
			}
		}
		// … with net/http's defaults for what a request may look like: no cap on the header block
		// and no read/write deadline of its own (requests the backend port would accept are
		// otherwise refused with 431, or cut, by the bridge)
		limit := ""
		for _, fn := range p.AllFuncsIn("utils/tcpbridge/tcp-bridge-backend") {
			EachInstrRaw(fn, func(i ssa.Instruction) {
				if st, isSt := i.(*ssa.Store); isSt {
					if base, fld, okf := FieldAddrOf(st.Addr); okf && NamedType(base.Type()) == "net/http.Server" {
						switch fld {
						case "MaxHeaderBytes", "ReadTimeout", "WriteTimeout":
							if cv, isC := st.Val.(*ssa.Const); !isC || cv.Value == nil || cv.Value.ExactString() != "0" {
								limit = fld + " at " + p.Pos(st.Pos())
							}
						}
					}
				}
			})
		}
		c.Check("C15.H", "backend:serves-with-default-request-limits", p, bm.Pos(), limit == "", "no MaxHeaderBytes/ReadTimeout/WriteTimeout on the bridge backend's server", "the bridge backend's http.Server sets "+limit+": a non-bridge request with a large header block (a big cookie, a long token) is answered 431 by the bridge instead of being passed through, long transfers are cut")
		c.Check("C15.H", "backend:h2c-accepted-on-every-path", p, bm.Pos(), bad == "", "the bridge backend serves h2c.NewHandler(connection.Handler(…)) whatever its flags say", "tcp-bridge-backend.main: "+bad+": clear-text HTTP/2 callers (an agent run with -force-http2, gRPC clients) are reset by the HTTP/1.1 server instead of being passed through to the backend port")
	}
}

func streamingPathConst(p *Prog) string {
	pk := p.ModPkgs[bridgeConn]
	if pk == nil {
		return ""
	}
	o := pk.Types.Scope().Lookup("StreamingPath")
	if o == nil {
		return ""
	}
	if cst, ok := o.(interface{ Val() constant.Value }); ok && cst.Val().Kind() == constant.String {
		return constant.StringVal(cst.Val())
	}
	return ""
}

// closesConn: instruction i closes (one of) the connection(s) in `want`,
// directly or by calling/deferring a closure whose body does.
func closesConn(i ssa.Instruction, want map[ssa.Value]bool, depth int) bool {
	cc := CallOf(i)
	if cc == nil {
		return false
	}
	n := CalleeName(cc)
	if strings.HasSuffix(n, ".Close") || strings.HasSuffix(n, ").Close") || strings.HasSuffix(n, ").CloseWrite") {
		a := Args(cc)
		if len(a) > 0 {
			// look through embedded Conn field of the websocket wrapper
			v := a[0]
			if sharesRoot(connRoots(v), want) {
				return true
			}
			if base, fld, ok := FieldLoad(v); ok && fld == "Conn" && sharesRoot(connRoots(base), want) {
				return true
			}
		}
		return false
	}
	if depth > 1 {
		return false
	}
	// a closure value: called directly, or loaded from a captured variable
	var fn *ssa.Function
	for _, r := range Roots(cc.Value) {
		switch v := r.(type) {
		case *ssa.MakeClosure:
			fn = v.Fn.(*ssa.Function)
		case *ssa.Function:
			fn = v
		}
	}
	if fn == nil || len(fn.Blocks) == 0 {
		return false
	}
	found := false
	EachInstr(fn, func(j ssa.Instruction) {
		if closesConn(j, want, depth+1) {
			found = true
		}
	})
	if !found {
		return false
	}
	// … on every path through the closure: a close that is skipped when an earlier Close reported an
	// error (tls.Conn.Close does, after the peer reset the connection) leaves the other socket open
	hit, _ := (&Walk{Target: func(j ssa.Instruction) bool {
		_, isR := j.(*ssa.Return)
		return isR && j.Parent() == fn
	}, Avoid: func(j ssa.Instruction) bool { return closesConn(j, want, depth+1) }, Ctx: fn}).FromBlock(fn.Blocks[0])
	return hit == nil
}

func runC16(c *Ctx) {
	p := c.Progs["mod"]
	c.Rule("C16.K", "completion of either copy direction closes the pair", 4)
	c.Rule("C16.D", "every acquired connection is released on exit; Close of the bridge's connection type closes its transport", 5)
	c.Rule("C16.A", "closing is orderly and cannot be blocked: no abortive-close socket option, Close never waits for a lock held across blocking I/O; no raw descriptor access; dial context not retained; dial bounded in time; no message-size limit that cuts a stream short (= C15.L); Read hands out everything before the end (= C15.E)", 11)
	ruleNoDeadlineClosesBridge(c, p, "C16.A")
	c16Orderly(c, p)
	ruleNoRawDescriptor(c, p, "C16.A")
	ruleDialContextNotRetained(c, p, "C16.A")
	ruleDialHandshakeBounded(c, p, "C16.A")
	ruleNoReadLimit(c, p, "C16.A")
	ruleBridgeConnCloseClosesTransport(c, p, "C16.D")
	// Read hands out every decoded byte before it reports the end of the stream (= C15.E): a
	// read-ahead goroutine whose close signal can overtake queued chunks drops data sent before
	// the close
	c.Borrow(runC15, "C15.E", "C16.A", func(k string) bool {
		return strings.HasPrefix(k, "Read:") || strings.Contains(k, "WebsocketNetConn).Read")
	})
	sites := bridgeSites(p)
	if len(sites) < 2 {
		c.Bad("C16.K", "bridging-functions", p, 0, fmt.Sprintf("found %d bridging functions (2 confirmed by hand)", len(sites)))
	}
	for _, bs := range sites {
		name := FuncName(bs.Fn)
		for k, cp := range bs.Copies {
			g := bs.Gos[k]
			dst, src := connRoots(bs.Dst[k]), connRoots(bs.Src[k])
			// on every path from the Copy to the goroutine's return a close of dst happens:
			// either a defer registered before the copy, or a call after it
			closesDst, closesSrc := false, false
			EachInstr(g, func(i ssa.Instruction) {
				_, isDefer := i.(*ssa.Defer)
				if isDefer && Dominates(i, cp) || !isDefer && Dominates(cp, i) && postDominatesReturn(g, i) {
					if closesConn(i, dst, 0) {
						closesDst = true
					}
					if closesConn(i, src, 0) {
						closesSrc = true
					}
				}
			})
			key := fmt.Sprintf("%s:direction#%d-closes-destination", name, k+1)
			c.Check("C16.K", key, p, cp.Pos(), closesDst, "when this direction's io.Copy returns, the goroutine closes the destination connection (before Done, independent of the sibling): the other peer observes the close"+map[bool]string{true: "; it also closes the source", false: ""}[closesSrc], name+": after io.Copy returns in this goroutine nothing closes the destination connection before the goroutine waits/ends: with wait-for-both-then-close a close by one TCP peer is never shown to the other peer and the bridged connection outlives it")
		}
	}
	// ---- C16.D
	acq := []string{"(*github.com/gorilla/websocket.Upgrader).Upgrade", "net.Dial", "(net.Listener).Accept", bridgeConn + ".DialWebsocket", "(*net.Dialer).DialContext"}
	n := 0
	for _, bs := range sites {
		// acquisitions in the bridging function and in its parent (Accept happens in main's loop)
		fns := []*ssa.Function{bs.Fn}
		if par := bs.Fn.Parent(); par != nil {
			fns = append(fns, par)
		}
		if info := helperOf(bs.Fn); info != nil {
			// the named form of the per-connection goroutine: its "parent" is where it is started
			for _, s := range info.sites {
				fns = append(fns, s.Parent())
			}
		}
		for _, fn := range fns {
			for _, call := range Calls(fn, acq...) {
				n++
				conn := map[ssa.Value]bool{}
				for _, r := range Refs(call.(ssa.Value)) {
					if e, ok := r.(*ssa.Extract); ok && e.Index == 0 {
						conn[e] = true
					}
				}
				ok := false
				for _, f2 := range []*ssa.Function{bs.Fn, fn} {
					EachInstr(f2, func(i ssa.Instruction) {
						if _, isDefer := i.(*ssa.Defer); isDefer && closesConn(i, conn, 0) {
							ok = true
						}
					})
				}
				if cv, isV := call.(*ssa.Call); isV && cv.Parent() == bs.Fn {
					ruleAcquiredThenDeferred(c, p, "C16.D", bs.Fn, call, func(i ssa.Instruction) bool {
						_, isDefer := i.(*ssa.Defer)
						return isDefer && closesConn(i, conn, 0)
					}, fmt.Sprintf("%s:%s-deferred-on-every-path", FuncName(bs.Fn), shortCallee(CalleeName(CallOf(call)))))
				}
				key := fmt.Sprintf("%s:%s-released", FuncName(bs.Fn), shortCallee(CalleeName(CallOf(call))))
				c.Check("C16.D", key, p, call.Pos(), ok, "a deferred Close releases the connection when the bridging function exits", "the connection obtained from "+CalleeName(CallOf(call))+" has no deferred Close in the bridging function: it leaks when the bridge ends")
			}
		}
	}
	if n < 4 {
		c.Bad("C16.D", "acquisitions", p, 0, fmt.Sprintf("found %d connection acquisitions in bridging functions (4 confirmed by hand)", n))
	}
	_ = token.ADD
}

func shortCallee(n string) string {
	if i := strings.LastIndex(n, "/"); i >= 0 {
		n = n[i+1:]
	}
	return strings.Trim(n, "()*")
}

// postDominatesReturn: every path from i's block start to a return passes i
// (approximation used for straight-line goroutine bodies: i is in a block
// that dominates every return block).
func postDominatesReturn(fn *ssa.Function, i ssa.Instruction) bool {
	for _, r := range Returns(fn) {
		if !(i.Block() == r.Block() || i.Block().Dominates(r.Block())) {
			return false
		}
	}
	return true
}

// c16Orderly: (1) no bridge code arms SO_LINGER>=0 (Close would then discard
// unsent data and reset the peer instead of delivering data + FIN); (2) the
// net.Conn wrappers of the bridge either inherit Close from the wrapped
// connection or declare one that takes no lock which another method holds
// while it is blocked in network I/O (the Close that should unblock the
// pending Read would wait for that very Read).
func c16Orderly(c *Ctx, p *Prog) {
	ruleNoAbortiveLinger(c, p, "C16.A")
	// net.Conn wrappers
	ls := ComputeLocksets(p)
	nw := 0
	for _, t := range p.NamedTypesIn("utils/tcpbridge/connection") {
		ms := p.MethodsOf(t)
		var closeFn *ssa.Function
		hasRead := false
		for _, m := range ms {
			if m.Name() == "Close" {
				closeFn = m
			}
			if m.Name() == "Read" || m.Name() == "Write" {
				hasRead = true
			}
		}
		if !hasRead {
			continue
		}
		nw++
		tn := NamedTypeRel(t)
		// io.Copy type-asserts io.ReaderFrom / io.WriterTo: declaring one replaces the copy loop of
		// both bridging directions by the type's own, whose return is what triggers closeBoth
		for _, m := range ms {
			if m.Name() == "ReadFrom" || m.Name() == "WriteTo" {
				c.Bad("C16.A", "copy:"+tn+":no-own-copy-loop", p, m.Pos(), tn+" declares "+m.Name()+": io.Copy hands the whole direction to it, and when it returns (e.g. as soon as its read stage sees EOF, with chunks still queued for writing) the bridging goroutine closes both connections — data sent before the close is lost")
			}
		}
		// locks held across blocking I/O in any method
		blocking := map[string]string{}
		for _, m := range ms {
			for _, fn := range WithClosures(m) {
				EachInstr(fn, func(i ssa.Instruction) {
					cc := CallOf(i)
					if cc == nil {
						return
					}
					n := CalleeName(cc)
					short := n[strings.LastIndex(n, ".")+1:]
					switch short {
					case "ReadMessage", "WriteMessage", "NextReader", "NextWriter", "Read", "Write", "ReadFull", "Copy", "ReadJSON", "WriteJSON":
						for l := range ls.Held(i) {
							blocking[l] = FuncName(m) + " holds it across " + short + " at " + p.Pos(i.Pos())
						}
					}
				})
			}
		}
		if closeFn == nil || len(closeFn.Blocks) == 0 {
			c.OK("C16.A", "close:"+tn+":never-waits-for-io", p, 0, tn+" declares no Close of its own: closing goes straight to the wrapped connection, which unblocks pending reads and writes")
			continue
		}
		bad := ""
		EachInstr(closeFn, func(i ssa.Instruction) {
			if id, op := lockOp(i); op == 1 {
				if why, ok := blocking[strings.TrimSuffix(id, "(R)")]; ok {
					bad = "Close acquires " + id + " at " + p.Pos(i.Pos()) + "; " + why
				}
			}
		})
		// … and writes nothing itself unless the write is bounded: gorilla serialises writers with
		// an internal lock, a data write stalled by TCP back-pressure holds it, and WriteControl
		// with a zero deadline waits for it without limit
		for _, fn := range WithClosures(closeFn) {
			EachInstr(fn, func(i ssa.Instruction) {
				cc := CallOf(i)
				if cc == nil {
					return
				}
				n := CalleeName(cc)
				switch n[strings.LastIndex(n, ".")+1:] {
				case "WriteMessage", "WriteJSON", "NextWriter", "WritePreparedMessage":
					if strings.Contains(n, "gorilla/websocket.Conn") {
						bad = "Close writes to the websocket with " + n[strings.LastIndex(n, ".")+1:] + " at " + p.Pos(i.Pos()) + " (unbounded: waits behind a data write stalled by back-pressure)"
					}
				case "WriteControl":
					if !strings.Contains(n, "gorilla/websocket.Conn") {
						return
					}
					a := Args(cc)
					bounded := false
					if len(a) > 3 {
						if add := CallResult(a[3], 0, "(time.Time).Add"); add != nil {
							if CallResult(add.Call.Args[0], 0, "time.Now") != nil {
								if d, isC := ConstInt(add.Call.Args[1]); isC && d > 0 {
									bounded = true
								}
							}
						}
					}
					if !bounded {
						bad = "Close sends a control frame with WriteControl at " + p.Pos(i.Pos()) + " whose deadline is not time.Now().Add(<positive constant>) (a zero deadline waits for gorilla's write lock without limit while a data write is stalled by back-pressure)"
					}
				}
			})
		}
		c.Check("C16.A", "close:"+tn+":never-waits-for-io", p, closeFn.Pos(), bad == "", tn+".Close takes no lock that another method holds while blocked in network I/O", tn+": "+bad+": the Close that must unblock a pending Read waits for that Read, so closeBoth() hangs, the websocket is never closed and the far peer never sees end-of-stream")
	}
	if nw == 0 {
		c.Unk("C16.A", "close:wrappers", p, 0, "no net.Conn wrapper type (Read/Write methods) found in utils/tcpbridge/connection")
	}
	// closeBoth itself must not be conditional on a lock either: both Close calls run unconditionally inside the Once
}

// inClosureTree: inner is fn or a closure nested (transitively) in fn.
func inClosureTree(fn, inner *ssa.Function) bool {
	for x := inner; x != nil; x = x.Parent() {
		if x == fn {
			return true
		}
	}
	return false
}

// ruleNoAbortiveLinger: no bridge code arms SO_LINGER >= 0. Close() on such a
// socket discards what is still queued in the kernel and resets the peer.
func ruleNoAbortiveLinger(c *Ctx, p *Prog, rule string) {
	pkgs := []string{"utils/tcpbridge/connection", "utils/tcpbridge/tcp-bridge-frontend", "utils/tcpbridge/tcp-bridge-backend"}
	ncalls := 0
	var linger []ssa.Instruction
	for _, pk := range pkgs {
		for _, fn := range p.FuncsIn(pk) {
			EachInstr(fn, func(i ssa.Instruction) {
				cc := CallOf(i)
				if cc == nil {
					return
				}
				ncalls++
				n := CalleeName(cc)
				if strings.HasSuffix(n, ").SetLinger") {
					a := Args(cc)
					if v, ok := ConstInt(a[len(a)-1]); !(ok && v < 0) {
						linger = append(linger, i)
					}
				}
			})
		}
	}
	c.Check(rule, "close:no-abortive-linger", p, posOf(linger), len(linger) == 0 && ncalls > 30, fmt.Sprintf("%d call sites of the bridge inspected: SO_LINGER is left at its default, so Close() sends queued data followed by FIN", ncalls), "SetLinger with a non-negative timeout at "+posStr(p, firstOf(linger))+": Close() on that connection discards data still queued in the kernel and resets the peer, so bytes sent just before the other side closed never arrive and the peer sees ECONNRESET instead of end-of-stream")
}

// ruleNoReadLimit: no websocket read limit on bridge connections while Write sends every write
// as one (hex-encoded, i.e. twice as long) message of any length.
func ruleNoReadLimit(c *Ctx, p *Prog, rule string) {
	{
		var lim []ssa.Instruction
		ncalls := 0
		for _, fn := range p.Funcs {
			if !strings.HasPrefix(FuncName(fn), "utils/tcpbridge/") {
				continue
			}
			EachInstr(fn, func(i ssa.Instruction) {
				if cc := CallOf(i); cc != nil && strings.Contains(CalleeName(cc), "gorilla/websocket") {
					ncalls++
					if strings.HasSuffix(CalleeName(cc), ".SetReadLimit") {
						lim = append(lim, i)
					}
				}
			})
		}
		wsegments := false
		if wr := p.Func("utils/tcpbridge/connection.(*WebsocketNetConn).Write"); wr != nil {
			for _, wm := range Calls(wr, "(*github.com/gorilla/websocket.Conn).WriteMessage") {
				if InLoop(wm.Block()) {
					wsegments = true
				}
			}
		}
		c.Check(rule, "bridge:no-read-limit", p, posOf(lim), (len(lim) == 0 || wsegments) && ncalls >= 5, fmt.Sprintf("%d gorilla/websocket calls inspected in utils/tcpbridge, none sets a read limit", ncalls), fmt.Sprintf("a websocket read limit is set (%s) while WebsocketNetConn.Write still sends every Write as a single message of any length: one large write is rejected by the peer (close 1009) and the stream is cut", posStr(p, firstOf(lim))))
	}
}

// ruleBridgeConnCloseClosesTransport: every close of a bridged connection in this code base is
// a call of WebsocketNetConn.Close, so that method must release the transport: it is the Close
// promoted from the embedded *websocket.Conn, or a method of the module in which every path
// to a return closes that embedded connection. A "graceful" Close that only sends a close
// frame and leaves the socket to a reader that may already have exited leaks the connection.
func ruleBridgeConnCloseClosesTransport(c *Ctx, p *Prog, rule string) {
	pk := p.ModPkgs[bridgeConn]
	if pk == nil {
		c.Unk(rule, "conn:Close-closes-the-transport", p, 0, "package "+bridgeConn+" not loaded")
		return
	}
	obj, _ := pk.Types.Scope().Lookup("WebsocketNetConn").(*types.TypeName)
	if obj == nil {
		c.Unk(rule, "conn:Close-closes-the-transport", p, 0, "type WebsocketNetConn not found")
		return
	}
	named := obj.Type().(*types.Named)
	var own *ssa.Function
	for i := 0; i < named.NumMethods(); i++ {
		if m := named.Method(i); m.Name() == "Close" {
			own = p.SSA.FuncValue(m)
		}
	}
	if own == nil {
		// promoted: the embedded connection must be the gorilla one
		st, _ := named.Underlying().(*types.Struct)
		emb := false
		for i := 0; st != nil && i < st.NumFields(); i++ {
			if f := st.Field(i); f.Embedded() && NamedType(f.Type()) == "github.com/gorilla/websocket.Conn" {
				emb = true
			}
		}
		c.Check(rule, "conn:Close-closes-the-transport", p, obj.Pos(), emb, "WebsocketNetConn.Close is the Close of the embedded *websocket.Conn: it closes the socket", "WebsocketNetConn neither defines Close nor embeds *websocket.Conn")
		return
	}
	isClose := func(i ssa.Instruction) bool {
		cc := CallOf(i)
		if cc == nil {
			return false
		}
		switch CalleeName(cc) {
		case "(*github.com/gorilla/websocket.Conn).Close", "(net.Conn).Close", "(io.Closer).Close":
			return strings.HasPrefix(PathOf(PArgs(cc)[0]), P(own, 0)+".")
		}
		return false
	}
	hit, _ := (&Walk{Target: IsReturn, Avoid: isClose, Local: true}).FromBlock(own.Blocks[0])
	c.Check(rule, "conn:Close-closes-the-transport", p, own.Pos(), hit == nil, "every path through WebsocketNetConn.Close closes the embedded connection", "WebsocketNetConn.Close can return without closing the embedded websocket connection (return at "+instrPosStr(p, hit)+"): the bridge's deferred Close calls and closeBoth then leave the socket open — whenever the reader that was meant to release it has already exited, the bridged connection outlives both of its endpoints")
}

func instrPosStr(p *Prog, i ssa.Instruction) string {
	if i == nil {
		return "-"
	}
	return p.Pos(i.Pos())
}

// goRunnerOf: the new helper a closure is handed to in order to be run on a goroutine (see
// goRunByHelper), or nil.
func goRunnerOf(fn *ssa.Function) *ssa.Function {
	par := fn.Parent()
	if par == nil || !goRunByHelper(fn) {
		return nil
	}
	var h *ssa.Function
	EachInstrRaw(par, func(i ssa.Instruction) {
		if call, isCall := i.(*ssa.Call); isCall {
			for _, a := range call.Call.Args {
				if mc, isMC := a.(*ssa.MakeClosure); isMC && mc.Fn == ssa.Value(fn) {
					h = call.Call.StaticCallee()
				}
			}
		}
	})
	return h
}

// waitGroupGoHelper: h does wg.Add(1) once, outside loops, before it starts its one goroutine,
// and that goroutine defers wg.Done() on entry.
func waitGroupGoHelper(h *ssa.Function) bool {
	adds := Calls(h, "(*sync.WaitGroup).Add")
	if len(adds) != 1 || adds[0].Parent() != h || InLoop(adds[0].Block()) {
		return false
	}
	if n, isC := ConstInt(CallOf(adds[0]).Args[1]); !isC || n != 1 {
		return false
	}
	gos := 0
	ok := true
	EachInstrRaw(h, func(i ssa.Instruction) {
		g, isGo := i.(*ssa.Go)
		if !isGo {
			return
		}
		gos++
		if InLoop(g.Block()) || !Dominates(adds[0], g) {
			ok = false
			return
		}
		var body *ssa.Function
		switch v := g.Call.Value.(type) {
		case *ssa.MakeClosure:
			body, _ = v.Fn.(*ssa.Function)
		case *ssa.Function:
			body = v
		}
		if body == nil || len(body.Blocks) == 0 {
			ok = false
			return
		}
		deferred := false
		for _, in := range body.Blocks[0].Instrs {
			if d, isD := in.(*ssa.Defer); isD && CalleeName(&d.Call) == "(*sync.WaitGroup).Done" {
				deferred = true
			}
		}
		if !deferred {
			ok = false
		}
	})
	return gos == 1 && ok
}
